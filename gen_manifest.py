#!/usr/bin/env python3
"""Generates /verif/MANIFEST.json from the table below (single source of truth)."""
import json

SETUP = ("cd /verif/fpcheck && GOFLAGS=-mod=mod GOPROXY=off GOSUMDB=off GOTOOLCHAIN=local GOWORK=off "
         "go build -o /verif/bin/fpcheck ./cmd/fpcheck")

TRUST = ("go/packages + go/types + go/ssa + go/cfg (x/tools v0.29.0); the fpcheck rule implementations and their "
         "tables (printed in the evidence); interface-method behaviour = the in-module implementations; user call-backs "
         "are outside the library. Decides the listed structural clauses only — see 'not decided' in DESIGN.md.")

# id -> (technique, level text, design section, not-decided note)
CHECKS = {
 "C01": ("reference-graph SCC (branch-free cycle) + parameter relevance over the monad packages, operand/argument position rule for MapN definitions (AST, go/types)",
         "Structural necessary conditions, decided for every function of the four generated monad packages: the definitional reference graph has no branch-free cycle (a circular definition diverges on all-success inputs), every parameter of every combinator is used, and StateT bodies never reuse a state that was fed to a run (right identity of StateT); a unit function (Pure/Some/Success/Right/Done) never converts its type-parameter argument to an interface, so it cannot treat nil payloads differently (SSA value flow through moves, closures and static calls); every function of a generated monad file uses the same callees as its namesakes in the other monad packages (the derived combinators are copies of one template; 355 compared); the Applicative/Chain builders consult their operands left to right (effect-order summaries, shared with C02); an iterator's next re-establishes the look-ahead through hasNext unconditionally, not as the right operand of || (R-NEXTGUARD over iterator/fp). A violation names the cycle / the parameter / the conversion / the deviating copy.",
         "§4 C01", "the three laws as value equalities; Seq/List/Iterator/Eval/fn0/fn1 instances"),
 "C02": ("structured success-test analysis (continuation/handler classification by type), supplier-deferral rule, recover-handler rule, loop-exit-on-failure rule for loops applying a Try-valued step function (AST, go/types)",
         "Call-placement clauses decided for every success test of a Try/Option/Either operand in the root package, the monad packages and the folds: no continuation and no iterator pull on the failure side, no handler on the success side, continuations receive a value extracted from the tested operand, a fold stops at the first failed step, short-circuiting functions return the operand itself or a failure built from it alone, recover-style functions return successes untouched; supplier parameters are only invoked inside deferred literals or under a test; the five panic-capturing functions register a recover handler first, which produces a failure carrying the recovered value only when it is non-nil and never type-asserts that value (here or in a helper it is passed to); effect-order summaries (R-EFFORDER): every branch-free or test-guarded combinator consults its monadic operands in declaration order, and the methods of one builder type agree on the order of the receiver's fields and consult them before their arguments; in a fold over a cursor every path from a monadic step result to the next consultation of the cursor passes a test of that result (R-FOLDSTOP); a StateT method never re-runs its receiver from a handler literal (R-RUNONCE); a func() X supplier parameter is mentioned at most once on any path of a combinator (R-SUPPLYONCE).",
         "§4 C02", "invocation counts and global left-to-right order across a whole nested generated expression (effect-order summary not built)"),
 "C03": ("path-sensitive nil-fact dataflow on SSA over Map/Set/immutable types, discarded-update rule, exhaustiveness of node type switches",
         "Necessary conditions on the wrappers and on result threading (the trie arithmetic itself is not decided): every call through Map.Base / Set.set / Set.getEmpty / hamt.root / mapBuilder.m is dominated by its nil test (zero value behaves as empty); no persistent update result (Updated/Removed/Incl/Excl/node set/delete …) is discarded outside explicit in-place mode; every type switch over trie nodes has a default, covers all node kinds, or (leaf-only) covers every kind without children; the iterator's depth-indexed stack has a slot for every level a 32-bit hash can produce; all node kinds cut the hash fragment with one mask and descend with one level increment, and never consult a child at its parent's level (R-FRAG); a node built for a deeper level is never returned as this level's node unless proven a leaf (R-LEVEL); every entry-adding event of set is preceded by *resized = true on every feasible path (R-RESIZED); a Set built inside a Set method carries the receiver's getEmpty factory (R-SETCTX); the array node's slot counter changes only under a nil test of the slot value (R-SLOTCOUNT).",
         "§4 C03", "trie arithmetic for every history and hasher (bitmap/popcount indices, node conversions, collision nodes, the resized flag on delete)"),
 "C04": ("field-sensitive points-to analysis on SSA with interprocedural write/return/invoke summaries and bool-flag guards (E1), builder typestate rule",
         "Proves the stronger 'never writes foreign memory' for every exported function and method of the library outside the mutable surface: no store, append, copy, sort, map update or callee (through interface joins, call-backs and fold-threaded accumulators) writes an object reachable from a parameter, a global or unknown memory; writes guarded by the trie's `mutable` flag count only where true can reach them; builder methods that publish the in-place trie give it up, through a pointer receiver.",
         "§4 C04", "deep-snapshot equality over branching histories as such; user call-backs and user implementations of fp.List/MapBase are assumed not to write"),
 "C05": ("syntactic protocol rules over the status type switches (CAS-only, final, retry, register, deliver), E1 snapshot immutability, nil-fact dataflow, atomic-cell access rule, at-most-one call-back hand-over per path (go/cfg longest path)",
         "Structural conditions without which some interleaving breaks single assignment / exactly-once delivery: the status cell changes only by CompareAndSwap against the pointer loaded in the same attempt; the completed case never writes; every lost CAS is retried; every case of a registration uses the call-back (invokes it with the completed value or swaps in a value built from the old list and the call-back); the completing CAS returns the captured list and Complete calls every element; no Promise/Future method writes memory it did not allocate (published listener slices are immutable); zero Promise/Future is guarded; the atomic cell is touched only through sync/atomic; between (re)loading the status pointer and swapping against it the status is decoded from that same pointer; every value read from the status cell reaches a type switch / assertion in the same function (R-STATEKIND).",
         "§4 C05", "linearizability over all interleavings (schedules are not enumerated)"),
 "C06": ("must-pass-through on go/cfg, recursively over nested OnComplete/ExecuteUnsafe literals; recover-handler rule",
         "For every promise created by a combinator that returns the derived future (19 sites): every path of the creating function completes the promise or registers a literal every path of which completes it or registers, recursively, one that does; Apply/Apply2 run the user function under a deferred recover that fails the promise with the panic value; nested subscriptions on two Future operands follow declaration order, so a failed earlier operand is reported without waiting for a later one (R-SUBORDER); inside one operand's completion callback another operand is subscribed to only behind a test of the callback's Try (R-FUTSTOP); an OnComplete call-back literal that names its parameter mentions it (R-CBPARAM).",
         "§4 C06", "value equality with the Try-level evaluation, 'never earlier', positional order of Sequence/Traverse"),
 "C09": ("mirrored-accessor-path rule, instance-parameter relevance, hash/eq component-subset rule, hash determinism deny-list, no comparable-based instance instantiated at a pointer type (AST, go/types, types.Info.Instances)",
         "Structural conditions of component-wise equality and of hash/eq agreement: every component Eqv/Less/Compare call in eq, hash and ord applies the same accessor path to the two different operands; every instance parameter is used; for every hash.New(E, h) the instances consulted by h are a subset of those E is built from; hash functions (including those of package-level instances) use no unsafe/reflect/uintptr/%p/float bit patterns/map iteration/time/rand and no package-level state shared between callers, and do not single out the nil container unless the equality does; a container equality returns true only where equal sizes are established; an Eq over Go maps looks the other map up with the comma-ok form; the projection handed to ContraMap in eq/hash contains no bounded slice, index or remainder/mask arithmetic (R-CONTRA); a container equality that iterates one operand consults the size of both (R-BOTHSIZES); a pointer parameter of a binary closure is dereferenced only behind a nil test of that parameter (R-PTRDEREF).",
         "§4 C09", "reflexivity/symmetry/transitivity and hash agreement as statements over all values"),
 "C10": ("one-sided-comparison rule (R-LEX), mirrored accessor paths, sort.Interface shape check, operand order of negated strict comparisons in LessEq (AST, go/types)",
         "Structural necessary conditions of a strict total order / ordered permutation: every component Less test that falls through to further components is followed by the mirrored test; component calls use the same accessor path on both operands; every in-module sort.Interface keeps index order, swaps exactly i and j and reports len of the same slice; Compare results are examined by sign only; less functions are strict (no <=, no negated less); binary instances never exchange their operands; R-LEX also covers direct calls of a LessFunc value; a less-based Compare returns a non-zero constant only under the less test of the matching direction (R-TRICHOTOMY); the payload of Option/Try.Unapply is used only behind the success edge of a test of its flag (R-PAYLOAD); a container comparison of package ord returns 0 only under established equal sizes; Min/Max of seq, list and iterator put no made-up value (OrZero/fp.Zero) into a result and the siblings of one name agree on the tie rule of their selection step (R-MINMAX); a pointer parameter of a binary closure of package ord is dereferenced only behind a nil test of that parameter (R-PTRDEREF).",
         "§4 C10", "transitivity/totality of leaf instances; Min/Max semantics as values"),
 "C11": ("operator/identity table over resolved monoid constructions, named-instance binding, discarded-result and fold-argument-role rules (AST, go/types)",
         "Structural necessary conditions: a monoid built from a built-in operator and a constant uses that operator's identity and an associative operator; Sum/Product/Any/All/String are bound to +,*,||,&&,+; no pure typeclass result is discarded; Combine is called (accumulator, element) in left folds and (element, rest) in FoldRight call-backs; tuple/HCons/Dual combine the same component of both operands in the stated order; every fold over a monoid consults Empty; binary instances never exchange their operands; a Combine closure over pointer/map/slice operands never writes through them nor appends onto them; a Monoid combinator consults the Empty of every Monoid parameter or hands it on as a Monoid, not only as a Semigroup (R-EMPTYUSED).",
         "§4 C11", "associativity of leaf combines, Endo/Merge* semantics as values"),
 "C12": ("loop-progress rule on go/cfg, eager-scan summaries (least fixpoint), read-ahead and deferred-self-reference rules (AST, go/types)",
         "Termination/laziness clauses, decided for every cursor loop and every lazy constructor of the library: every `for x.HasNext()/NonEmpty()` loop advances x on every back-edge path; no Iterator/List-returning function scans a cursor parameter eagerly; no MakeIterator next() refills its cache by an unbounded scan after taking the element; List/Eval-returning functions refer to themselves only inside deferred literals; a counter bound is tested before the source is consulted; the two thunks of one MakeList never both consume the same iterator; a function that patches the closures of an fp.Iterator value re-establishes its cached concat decomposition; Min/Max of list and iterator agree with seq on the tie rule and never answer with a made-up value (R-MINMAX).",
         "§4 C12", "element-for-element agreement with the Seq reference; pull counts"),
 "C13": ("map-order rule over the generator packages (loop-body classifier + consumer-chain classifier + frozen/conditional table), generated-file/directive cross-reference, format-error rule",
         "Two clauses of the property: (1) no enumeration of a hash-ordered collection in gombok/metafp/genfp/template_gen/monad_gen reaches emitted text in map order — every site has an order-insensitive body, a sorted or order-insensitive consumer, or a listed reason that is re-checked on every run where it is conditional; (2) every generated file is named by a directive the generators consume and every such directive's file exists; plus: a format.Source error is fatal; the sorted copy returned by the module's Sort functions is never discarded, and a variable still holding a hash-ordered sequence is not ranged over with an order-sensitive body; a discovery function that pre-filters comments with strings.Contains also consults the exact tag parse (R-TAGEXACT).",
         "§4 C13", "byte-for-byte regeneration (an execution of the generators)"),
 "C14": ("parametric-fragment check of every generated arity member + directive/member arity cross-reference (AST, go/types, constant evaluation)",
         "Type-level argument: every member <Family><N> has pairwise distinct type parameters on its bare-typed value positions, fabricates no value, uses no assertion/reflect/panic/loop, uses every positional parameter, and recurses only to a smaller arity — so the type checker forces argument i to position i; every GenerateFromUntil family is declared for exactly the arities its directive prescribes; the typeclass TupleN families use every component instance on the same component of both operands, in operand order for Combine; every member of a generated arity family (two smallest arities and the largest exempt) uses the same callees, digits removed, as the majority of its family (R-SIBLING).",
         "§4 C14", "effect order inside LiftAN/MapN; String()/Name() formats; the parametricity meta-theorem is trusted, not mechanised"),
 "C15": ("per-method rules on go/cfg for every UnmarshalJSON/MarshalJSON of the module",
         "For every UnmarshalJSON: the pointer receiver is rejected when nil before any dereference and every store through it happens only when decoding reported no error (or every later return is nil); for every MarshalJSON: the receiver itself is never handed to json.Marshal; fp.Option emits null exactly on the not-defined side and the payload's encoding otherwise; the decoder is never handed the target itself; no Go-syntax quoting in MarshalJSON; no UnmarshalJSON switches its decoder to UseNumber; an index / bounded slice of the input bytes is reached only through a condition on their length (R-JSONBOUNDS); no MarshalJSON returns a package-level slice (R-JSONFRESH).",
         "§4 C15", "round-trip equality and agreement with encoding/json on the Mutable twin for all struct shapes"),
 "C16": ("memoiser shape rule, thunk-reference counting, trampoline call-shape rules, deferred-self-call rule, nil-fact dataflow, one-thunk-per-cell rule for user functions in lazy list cells",
         "Run-once and trampoline clauses: memoisers run the computation only inside once.Do of a per-value sync.Once, first thing in the returned closure; Call/TailCall/MakeList hand their thunk to a memoiser and reference it nowhere else; building an Eval calls no function value eagerly; Run loops on Resume and neither calls back into Run/Get; FoldRight functions defer their self call through lazy.TailCall and never force their own recursive result (no nested trampoline); closures of package lazy write captured variables of the enclosing function only inside once.Do (no cell shared between evaluations); zero Eval is guarded.",
         "§4 C16", "equality with strict evaluation; stack depth as a number"),
 "C17": ("stale-state (affine use) rule on go/cfg over func(S)(Try,S) literals + parameter relevance",
         "Structural necessary conditions for lawful state threading: in every StateT-shaped literal a state that was fed to a run is never used at a point reachable from that run (handlers, later steps and the returned state see the newest state); every parameter of the statet primitives and of the StateT methods is used; every path from one run to a later run passes a test of the first run's result, or the later step is built from that result (a failed step stops the program); a Try payload is reported as the state only behind the success edge of a test of that Try; a StateT method runs its receiver at most once and never from a handler literal; the statet combinators consult their StateT operands in declaration order.",
         "§4 C17", "the state-monad equations as value equalities"),
 "C18": ("type-directed sanitising rule over clone closures + instance-parameter relevance, Clone methods never return their argument (AST, go/types)",
         "Structural necessary conditions for deep copies: every component-instance parameter of every clone combinator is used, and in every clone closure each use of the input is cloned through a component instance (Clone call, map with a Clone method value, range, nil/len test) — nothing of the input reaches the result uncloned; a clone closure never returns the address of, or a reference held in, a captured variable (results are fresh per call); every return of a combinator with component instances mentions one of them (R-INSTPATH).",
         "§4 C18", "structural equality incl. nil-vs-empty"),
 "C19": ("must-hold lock dataflow on SSA, E1 snapshot immutability, syntactic single-load and check-then-act rules (direct and through delegating publishers)",
         "Structural conditions of linearizability: every Store on the snapshot cell happens under the map's mutex and every exit releases it; no method (nor a literal handed to copyOnWrite) writes a map loaded from the cell; read-only methods load the snapshot once; a method that reads outside the lock before copyOnWrite re-derives its decision from the literal's own parameter and returns nothing read after the critical section; the snapshot a published value derives from is read under the lock; every operation publishes at most one snapshot (no publishing call in a loop or twice on one path); the innermost condition deciding a Store, if it examines the cell, examines a value read under the lock; a method that publishes through another method returns nothing read from the map after that call; when the critical section can keep the snapshot, the method does not return the value it meant to store.",
         "§4 C19", "linearizability over all interleavings"),
 "C20": ("path-sensitive nil-fact dataflow on SSA (R-NILGUARD), fabricated-return rule, must-hold lock dataflow on SSA, inner-iterator-in-loop rule for flat-map thunks",
         "Three clauses: every call through Iterator.hasNext is dominated by its nil test (zero Iterator behaves as empty); no MakeIterator next() returns a fabricated zero value; in Duplicate every access to the shared queue/flag/source happens with the mutex held and every exit releases it; when hasNext keeps look-ahead state, next re-establishes it through hasNext or its refill helper; calls into the source iterator made under Duplicate's mutex are covered by a deferred Unlock (a panicking Next does not leave the mutex held); when hasNext depends on state that next updates, next does not guard its pull with the source's HasNext alone; a pulled element reaches a look-ahead variable only through a condition on the predicate's verdict (R-CACHEGUARD); the closure fields of an Iterator value other than the receiver are called only under an explicit nil test (R-RAWFIELD).",
         "§4 C20", "HasNext idempotence of look-ahead combinators; pull-order independence of Duplicate/Span/Partition"),
}

NOT_APPLICABLE = {
 "C07": "quantifies over the inputs of a text-emitting code generator (every struct shape gombok accepts); what gombok prints for an arbitrary input is not a static fact of gombok's source, and sampling the committed outputs would be a test in disguise (DESIGN.md §5)",
 "C08": "same as C07, plus lawfulness of the emitted instances over all values (DESIGN.md §5)",
}

PENDING = {}

def main():
    props = [json.loads(l) for l in open('/verif/properties.jsonl')]
    ids = [p['id'] for p in props]
    checks = []
    for pid in ids:
        if pid not in CHECKS:
            continue
        tech, text, ref, notdec = CHECKS[pid]
        checks.append({
            "property_id": pid,
            "quick_cmd": f"/verif/bin/fpcheck -prop {pid} -tier quick",
            "thorough_cmd": f"/verif/bin/fpcheck -prop {pid} -tier thorough",
            "evidence_file": f"/verif/evidence/{pid}.json",
            "replay_cmd_template": f"/verif/bin/fpcheck -prop {pid} -list -only <obligation-key>   # {{path}} holds the violated obligation keys",
            "engine": "fpcheck",
            "level_claimed": {"category": "other", "text": text, "design_ref": ref},
            "level_note": TRUST + " Not decided here: " + notdec + ". The thorough tier is the quick tier plus a self-test of the checker itself: overlay mutants (breaking ones must be reported, behaviour-preserving ones must stay silent) and a replay of the patch corpus collected from sub-agents (confirmed breaking changes of this property must still be reported, recorded behaviour-preserving changes must stay silent); it analyses source only, nothing is executed.",
            "technique": "static analysis: " + tech,
        })
    na = []
    for pid in ids:
        if pid in CHECKS:
            continue
        reason = NOT_APPLICABLE.get(pid) or PENDING.get(pid) or "static rules for this property are not built yet in this revision of /verif (see DESIGN.md §4 for the planned clauses)"
        na.append({"property_id": pid, "reason": reason})
    m = {
        "version": 1,
        "setup_cmd": SETUP,
        "hooks": {
            "guard": "verif",
            "enable": "none needed: every check analyses /repo's source as it is (no instrumentation, no build tag)",
            "baseline_off_cmd": "cd /repo && GOFLAGS=-mod=mod GOPROXY=off GOSUMDB=off go test -vet=off -count=1 ./...",
            "source_commits": [],
            "add_only": True,
        },
        "engines": [{"name": "fpcheck", "path": "/verif/fpcheck", "serves_properties": sorted(CHECKS),
                     "kind_free_text": "repo-specific static analyser: go/packages loader, AST + go/types rules, go/cfg path rules, go/ssa dataflow; obligations keyed rule/function/construct"}],
        "checks": checks,
        "not_applicable": na,
        "notes": "All claims are level 'other': sound structural necessary conditions decided from source on every run; nothing executes library code. exit 0 = all obligations discharged; exit 1 + VIOLATION = a construct positively classified as violating; exit 2 + UNDECIDED = the analyser could not decide (never reported as VIOLATION). Fixes of genuine defects found by the rules are 'fix:' commits in /repo, listed in /verif/known_findings.json.",
    }
    json.dump(m, open('/verif/MANIFEST.json', 'w'), indent=1)
    print("checks:", [c['property_id'] for c in checks], "na:", [n['property_id'] for n in na])

if __name__ == '__main__':
    main()
