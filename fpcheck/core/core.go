// Package core holds the loader, the obligation/report model and the
// known-findings matching shared by all rules.
package core

import (
	"encoding/json"
	"fmt"
	"go/ast"
	"go/token"
	"go/types"
	"os"
	"path/filepath"
	"sort"
	"strings"
	"time"

	"golang.org/x/tools/go/packages"
	"golang.org/x/tools/go/ssa"
	"golang.org/x/tools/go/ssa/ssautil"
)

const ModPath = "github.com/csgura/fp"

type Verdict string

const (
	Discharged Verdict = "discharged"
	Violated   Verdict = "violated"
	Undecided  Verdict = "undecided"
	Skipped    Verdict = "skipped" // out of the rule's scope, listed, not judged
)

// Obligation is one rule instance. Key = rule/pkg.Func/construct and is
// stable under reformatting and line moves.
type Obligation struct {
	Key     string  `json:"key"`
	Rule    string  `json:"rule"`
	Pos     string  `json:"pos"`
	Verdict Verdict `json:"verdict"`
	Msg     string  `json:"msg,omitempty"`
}

// Floor is a vacuity guard: the rule must have found at least Min instances.
type Floor struct {
	Rule string `json:"rule"`
	What string `json:"what"`
	Got  int    `json:"got"`
	Min  int    `json:"min"`
}

type Ctx struct {
	Repo   string
	Tier   string
	Prop   string
	Fset   *token.FileSet
	Pkgs   []*packages.Package // module packages, sorted by path
	ByPath map[string]*packages.Package

	prog    *ssa.Program
	ssaPkgs []*ssa.Package

	Obls        []Obligation
	Floors      []Floor
	Tables      map[string][]string // rule tables printed into the evidence
	Assumptions []string
	Notes       []string
	Rules       map[string]string // rule -> one-line statement
	funcDeclOf  map[*types.Func]*ast.FuncDecl
	pkgOfFile   map[*ast.File]*packages.Package
}

// Load type-checks every package of the module rooted at repo from source.
func Load(repo string, overlay map[string][]byte) (*Ctx, error) {
	fset := token.NewFileSet()
	cfg := &packages.Config{
		Mode: packages.NeedName | packages.NeedFiles | packages.NeedCompiledGoFiles |
			packages.NeedImports | packages.NeedTypes | packages.NeedTypesSizes |
			packages.NeedSyntax | packages.NeedTypesInfo | packages.NeedModule | packages.NeedDeps,
		Dir:     repo,
		Fset:    fset,
		Overlay: overlay,
		Env: append(os.Environ(), "GOFLAGS=-mod=mod", "GOPROXY=off", "GOSUMDB=off",
			"GOWORK=off", "GOTOOLCHAIN=local"),
	}
	pkgs, err := packages.Load(cfg, "./...")
	if err != nil {
		return nil, err
	}
	c := &Ctx{Repo: repo, Fset: fset, ByPath: map[string]*packages.Package{},
		Tables: map[string][]string{}, Rules: map[string]string{},
		funcDeclOf: map[*types.Func]*ast.FuncDecl{}, pkgOfFile: map[*ast.File]*packages.Package{}}
	var errs []string
	for _, p := range pkgs {
		for _, e := range p.Errors {
			errs = append(errs, e.Error())
		}
		if p.Types == nil || p.TypesInfo == nil {
			errs = append(errs, p.PkgPath+": no type information")
			continue
		}
		c.Pkgs = append(c.Pkgs, p)
		c.ByPath[p.PkgPath] = p
		for _, f := range p.Syntax {
			c.pkgOfFile[f] = p
			for _, d := range f.Decls {
				if fd, ok := d.(*ast.FuncDecl); ok {
					if fn, ok := p.TypesInfo.Defs[fd.Name].(*types.Func); ok {
						c.funcDeclOf[fn] = fd
					}
				}
			}
		}
	}
	sort.Slice(c.Pkgs, func(i, j int) bool { return c.Pkgs[i].PkgPath < c.Pkgs[j].PkgPath })
	if len(errs) > 0 {
		if len(errs) > 10 {
			errs = errs[:10]
		}
		return c, fmt.Errorf("load/type errors in %s: %s", repo, strings.Join(errs, "; "))
	}
	if len(c.Pkgs) < 55 {
		return c, fmt.Errorf("only %d packages loaded from %s (expected >= 55)", len(c.Pkgs), repo)
	}
	return c, nil
}

// SSA builds (once) the SSA form of all module packages; generic bodies are kept generic.
func (c *Ctx) SSA() (*ssa.Program, []*ssa.Package) {
	if c.prog == nil {
		prog, pkgs := ssautil.Packages(c.Pkgs, ssa.InstantiateGenerics&0)
		prog.Build()
		c.prog, c.ssaPkgs = prog, pkgs
	}
	return c.prog, c.ssaPkgs
}

func (c *Ctx) Pkg(rel string) *packages.Package {
	if rel == "" || rel == "." || rel == "fp" {
		return c.ByPath[ModPath]
	}
	return c.ByPath[ModPath+"/"+rel]
}

func (c *Ctx) PkgOfFile(f *ast.File) *packages.Package { return c.pkgOfFile[f] }

func (c *Ctx) FuncDecl(fn *types.Func) *ast.FuncDecl {
	if fn == nil {
		return nil
	}
	return c.funcDeclOf[fn.Origin()]
}

// RelPos renders a position relative to the repository root.
func (c *Ctx) RelPos(p token.Pos) string {
	if !p.IsValid() {
		return "-"
	}
	pos := c.Fset.Position(p)
	rel, err := filepath.Rel(c.Repo, pos.Filename)
	if err != nil {
		rel = pos.Filename
	}
	return fmt.Sprintf("%s:%d", rel, pos.Line)
}

func (c *Ctx) RelFile(p token.Pos) string {
	pos := c.Fset.Position(p)
	rel, err := filepath.Rel(c.Repo, pos.Filename)
	if err != nil {
		return pos.Filename
	}
	return rel
}

// ShortPkg strips the module prefix.
func ShortPkg(path string) string {
	if path == ModPath {
		return "fp"
	}
	return strings.TrimPrefix(path, ModPath+"/")
}

// FuncName gives pkg.Func or pkg.Recv.Method for a declaration.
func (c *Ctx) FuncName(p *packages.Package, fd *ast.FuncDecl) string {
	name := fd.Name.Name
	if fd.Recv != nil && len(fd.Recv.List) > 0 {
		name = RecvTypeName(fd.Recv.List[0].Type) + "." + name
	}
	return ShortPkg(p.PkgPath) + "." + name
}

func RecvTypeName(e ast.Expr) string {
	switch t := e.(type) {
	case *ast.StarExpr:
		return RecvTypeName(t.X)
	case *ast.IndexExpr:
		return RecvTypeName(t.X)
	case *ast.IndexListExpr:
		return RecvTypeName(t.X)
	case *ast.Ident:
		return t.Name
	case *ast.ParenExpr:
		return RecvTypeName(t.X)
	}
	return "?"
}

func (c *Ctx) Rule(name, statement string) { c.Rules[name] = statement }

func (c *Ctx) Add(rule, construct string, pos token.Pos, v Verdict, msg string) {
	c.Obls = append(c.Obls, Obligation{Key: rule + "/" + construct, Rule: rule, Pos: c.RelPos(pos), Verdict: v, Msg: msg})
}

// Floor records a vacuity guard. The call sites pass the instance count confirmed by hand on the reference tree (or a
// little below it); the check fails only when fewer than half of them are left (and never for rules with one or two instances), because a refactoring that merges two
// call sites into a helper, or splits one, legitimately moves the count by a few — it must not make the rule vacuous,
// and it must not make the check cry wolf either.
func (c *Ctx) Floor(rule, what string, got, min int) {
	switch {
	case min <= 2:
		// one or two confirmed instances: any refactoring of those sites removes them; the positive examples for such a
		// rule are its mutants in the thorough tier, not a count
		min = 0
	default:
		min = (min + 1) / 2
	}
	c.Floors = append(c.Floors, Floor{rule, what, got, min})
}

func (c *Ctx) Table(name string, rows ...string) {
	c.Tables[name] = append(c.Tables[name], rows...)
}

func (c *Ctx) Assume(s string) { c.Assumptions = append(c.Assumptions, s) }
func (c *Ctx) Note(s string)   { c.Notes = append(c.Notes, s) }

// ---------------------------------------------------------------- findings

type Finding struct {
	Property string `json:"property"`
	Key      string `json:"key"`
	Status   string `json:"status"` // "known" | "fixed"
	Commit   string `json:"commit,omitempty"`
	What     string `json:"what"`
}

type FindingsFile struct {
	Comment  string    `json:"comment"`
	Findings []Finding `json:"findings"`
}

func LoadFindings(path string) (*FindingsFile, error) {
	b, err := os.ReadFile(path)
	if err != nil {
		if os.IsNotExist(err) {
			return &FindingsFile{}, nil
		}
		return nil, err
	}
	var ff FindingsFile
	if err := json.Unmarshal(b, &ff); err != nil {
		return nil, err
	}
	return &ff, nil
}

// ---------------------------------------------------------------- finish

type Evidence struct {
	PropertyID  string         `json:"property_id"`
	Tier        string         `json:"tier"`
	Seed        int            `json:"seed"`
	Level       string         `json:"level"`
	Coverage    map[string]any `json:"coverage"`
	Assumptions []string       `json:"assumptions"`
	WallS       float64        `json:"wall_s"`
	Violations  int            `json:"violations"`
}

// Finish writes evidence, prints the verdict lines and returns the exit code.
func (c *Ctx) Finish(verifDir string, seed int, start time.Time, explanation string, extra map[string]any) int {
	ff, err := LoadFindings(filepath.Join(verifDir, "known_findings.json"))
	if err != nil {
		fmt.Printf("UNDECIDED property=%s known_findings.json unreadable: %v\n", c.Prop, err)
		return 2
	}
	known := map[string]Finding{}
	for _, f := range ff.Findings {
		if f.Property == c.Prop && f.Status == "known" {
			known[f.Key] = f
		}
	}
	sort.SliceStable(c.Obls, func(i, j int) bool { return c.Obls[i].Key < c.Obls[j].Key })
	// de-duplicate identical keys (a construct reached twice): keep the worst verdict
	rank := map[Verdict]int{Skipped: 0, Discharged: 1, Undecided: 2, Violated: 3}
	var obls []Obligation
	for _, o := range c.Obls {
		if n := len(obls); n > 0 && obls[n-1].Key == o.Key {
			if rank[o.Verdict] > rank[obls[n-1].Verdict] {
				obls[n-1] = o
			}
			continue
		}
		obls = append(obls, o)
	}
	c.Obls = obls

	var viol, und, knownHit []Obligation
	nDis, nSkip := 0, 0
	perRule := map[string]map[string]int{}
	for _, o := range c.Obls {
		if perRule[o.Rule] == nil {
			perRule[o.Rule] = map[string]int{}
		}
		perRule[o.Rule][string(o.Verdict)]++
		switch o.Verdict {
		case Discharged:
			nDis++
		case Skipped:
			nSkip++
		case Undecided:
			und = append(und, o)
		case Violated:
			if _, ok := known[o.Key]; ok {
				knownHit = append(knownHit, o)
			} else {
				viol = append(viol, o)
			}
		}
	}
	var floorFail []Floor
	for _, f := range c.Floors {
		if f.Got < f.Min {
			floorFail = append(floorFail, f)
		}
	}

	// samples: a few obligations per rule, all non-discharged ones
	var samples []any
	seen := map[string]int{}
	for _, o := range c.Obls {
		if o.Verdict != Discharged || seen[o.Rule] < 4 {
			if o.Verdict == Discharged {
				seen[o.Rule]++
			}
			if o.Verdict == Skipped && seen[o.Rule+"#s"] >= 3 {
				continue
			}
			if o.Verdict == Skipped {
				seen[o.Rule+"#s"]++
			}
			samples = append(samples, o)
		}
	}
	judged := len(c.Obls) - nSkip
	cov := map[string]any{
		"explanation":         explanation,
		"rules":               c.Rules,
		"obligations":         judged,
		"discharged":          nDis,
		"violated":            len(viol),
		"known_findings_hit":  len(knownHit),
		"undecided":           len(und),
		"skipped_listed":      nSkip,
		"per_rule":            perRule,
		"floors":              c.Floors,
		"tables":              c.Tables,
		"notes":               c.Notes,
		"packages_loaded":     len(c.Pkgs),
		"evaluations":         judged,
		"distinct_nontrivial": judged,
		"rule":                "one obligation per (rule, resolved construct); keys are rule/pkg.Func/construct, de-duplicated; every one is a distinct code construct enumerated from /repo's type-checked source on this run",
		"samples":             samples,
		"exhaustive":          true,
		"checker_cmd":         strings.Join(os.Args, " "),
		"trusted_base":        []string{"go/packages, go/types, go/ssa, go/cfg of golang.org/x/tools v0.29.0", "fpcheck rule implementations and their tables (printed under coverage.tables)"},
	}
	for k, v := range extra {
		cov[k] = v
	}
	ev := Evidence{PropertyID: c.Prop, Tier: c.Tier, Seed: seed, Level: "other", Coverage: cov,
		Assumptions: append([]string{}, c.Assumptions...), WallS: time.Since(start).Seconds(), Violations: len(viol)}
	os.MkdirAll(filepath.Join(verifDir, "evidence"), 0o755)
	evPath := filepath.Join(verifDir, "evidence", c.Prop+".json")
	b, _ := json.MarshalIndent(ev, "", " ")
	if err := os.WriteFile(evPath, append(b, '\n'), 0o644); err != nil {
		fmt.Printf("UNDECIDED property=%s cannot write evidence: %v\n", c.Prop, err)
		return 2
	}

	for _, r := range sortedKeys(perRule) {
		m := perRule[r]
		fmt.Printf("rule %-14s discharged=%d violated=%d undecided=%d skipped=%d\n", r, m["discharged"], m["violated"], m["undecided"], m["skipped"])
	}
	for _, o := range knownHit {
		fmt.Printf("KNOWN-FINDING: property=%s %s at %s: %s\n", c.Prop, o.Key, o.Pos, o.Msg)
	}
	code := 0
	if len(und) > 0 || len(floorFail) > 0 {
		code = 2
		for _, o := range und {
			fmt.Printf("UNDECIDED property=%s %s at %s: %s\n", c.Prop, o.Key, o.Pos, o.Msg)
		}
		for _, f := range floorFail {
			fmt.Printf("UNDECIDED property=%s floor %s: %s got %d < %d (rule would pass vacuously)\n", c.Prop, f.Rule, f.What, f.Got, f.Min)
		}
	}
	if len(viol) > 0 {
		code = 1
		// kept apart from evidence/ (which holds only schema-valid evidence files)
		os.MkdirAll(filepath.Join(verifDir, "replay"), 0o755)
		replay := filepath.Join(verifDir, "replay", c.Prop+".json")
		rb, _ := json.MarshalIndent(map[string]any{"property": c.Prop, "violations": viol,
			"replay": "/verif/bin/fpcheck -prop " + c.Prop + " -only <key>"}, "", " ")
		os.WriteFile(replay, append(rb, '\n'), 0o644)
		for _, o := range viol {
			fmt.Printf("violation: %s at %s: %s\n", o.Key, o.Pos, o.Msg)
		}
		fmt.Printf("VIOLATION property=%s replay=%s\n", c.Prop, replay)
	}
	fmt.Printf("%s tier=%s obligations=%d discharged=%d violated=%d known=%d undecided=%d skipped=%d wall=%.1fs exit=%d\n",
		c.Prop, c.Tier, judged, nDis, len(viol), len(knownHit), len(und), nSkip, time.Since(start).Seconds(), code)
	return code
}

func sortedKeys[V any](m map[string]V) []string {
	var ks []string
	for k := range m {
		ks = append(ks, k)
	}
	sort.Strings(ks)
	return ks
}
