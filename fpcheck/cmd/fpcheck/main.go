// fpcheck decides structural necessary conditions of properties C01..C20 of
// csgura/fp from /repo's current source. It never executes library code.
package main

import (
	"bytes"
	"flag"
	"fmt"
	"os"
	"os/exec"
	"path/filepath"
	"runtime/debug"
	"runtime/pprof"
	"sort"
	"strconv"
	"strings"
	"sync"
	"time"

	"fpcheck/core"
	"fpcheck/rules"
)

func main() {
	prop := flag.String("prop", "", "property id (C01..C20)")
	tier := flag.String("tier", "", "quick|thorough (default: $VERIF_TIER or quick)")
	repo := flag.String("repo", "/repo", "repository root")
	verif := flag.String("verif", "/verif", "verif directory (evidence, known_findings.json)")
	only := flag.String("only", "", "print only obligations whose key contains this string (replay)")
	list := flag.Bool("list", false, "list all obligations")
	mutant := flag.String("mutant", "", "analyse the tree with the named self-test mutant applied as an overlay (evidence is not written)")
	selftest := flag.Bool("selftest", false, "run the property's mutants only and print the table")
	flag.Parse()
	if *tier == "" {
		*tier = os.Getenv("VERIF_TIER")
	}
	if *tier != "thorough" {
		*tier = "quick"
	}
	seed, _ := strconv.Atoi(os.Getenv("VERIF_SEED"))
	p, ok := rules.Registry[*prop]
	if !ok {
		var ks []string
		for k := range rules.Registry {
			ks = append(ks, k)
		}
		sort.Strings(ks)
		fmt.Fprintf(os.Stderr, "unknown property %q; have %s\n", *prop, strings.Join(ks, " "))
		os.Exit(2)
	}
	if pf := os.Getenv("FPCHECK_CPUPROFILE"); pf != "" {
		f, _ := os.Create(pf)
		pprof.StartCPUProfile(f)
		go func() {
			time.Sleep(60 * time.Second)
			pprof.StopCPUProfile()
			f.Close()
			os.Exit(3)
		}()
	}
	debug.SetGCPercent(800)
	start := time.Now()
	if *mutant != "" {
		os.Exit(runMutant(p, *prop, *repo, *mutant))
	}
	if *selftest {
		res, ok := selfTest(*prop, *repo)
		for _, r := range res {
			fmt.Println(r)
		}
		if !ok {
			os.Exit(2)
		}
		return
	}
	code := run(p, *prop, *tier, *repo, *verif, seed, *only, *list, start)
	os.Exit(code)
}

func run(p rules.Property, prop, tier, repo, verif string, seed int, only string, list bool, start time.Time) (code int) {
	defer func() {
		if r := recover(); r != nil {
			fmt.Printf("UNDECIDED property=%s analyser panic: %v\n%s\n", prop, r, debug.Stack())
			code = 2
		}
	}()
	ctx, err := core.Load(repo, nil)
	if err != nil {
		fmt.Printf("UNDECIDED property=%s cannot load/type-check the repository: %v\n", prop, err)
		return 2
	}
	ctx.Prop, ctx.Tier = prop, tier
	p.Run(ctx)
	if list || only != "" {
		for _, o := range ctx.Obls {
			if only == "" || strings.Contains(o.Key, only) {
				fmt.Printf("%-10s %s  %s  %s\n", o.Verdict, o.Key, o.Pos, o.Msg)
			}
		}
	}
	extra := map[string]any{}
	selfOK := true
	if tier == "thorough" {
		res, ok := selfTest(prop, repo)
		selfOK = ok
		extra["checker_selftest"] = res
		extra["checker_selftest_rule"] = "each mutant = one anchored source fragment replaced through packages.Config.Overlay, analysed in a fresh process; the named rule must report a violation whose key contains the expected construct; a mutant whose anchor no longer exists is skipped and counted"
		for _, r := range res {
			fmt.Println("selftest:", r)
		}
	}
	code = ctx.Finish(verif, seed, start, p.Explanation, extra)
	if !selfOK && code == 0 {
		fmt.Printf("CHECKER-SELFTEST-FAILED property=%s (a rule did not fire on a mutant it is meant to catch; see lines above)\n", prop)
		return 2
	}
	return code
}

// runMutant analyses the tree with one mutant overlaid; prints violated keys; exit 1 if any violation.
func runMutant(p rules.Property, prop, repo, name string) (code int) {
	defer func() {
		if r := recover(); r != nil {
			fmt.Printf("MUTANT-PANIC %v\n%s\n", r, debug.Stack())
			code = 2
		}
	}()
	var m *rules.Mutant
	for i := range rules.Mutants {
		if rules.Mutants[i].Prop == prop && rules.Mutants[i].Name == name {
			m = &rules.Mutants[i]
		}
	}
	for i := range rules.SilentMutants {
		if rules.SilentMutants[i].Prop == prop && rules.SilentMutants[i].Name == name {
			m = &rules.SilentMutants[i]
		}
	}
	if m == nil {
		fmt.Printf("MUTANT-UNKNOWN %s/%s\n", prop, name)
		return 2
	}
	path := filepath.Join(repo, m.File)
	src, err := os.ReadFile(path)
	if err != nil || !bytes.Contains(src, []byte(m.Old)) {
		fmt.Printf("MUTANT-SKIPPED anchor not present in %s\n", m.File)
		return 3
	}
	mutated := bytes.Replace(src, []byte(m.Old), []byte(m.New), 1)
	if ex, ok := rules.MutantExtra[prop+"/"+name]; ok {
		if !bytes.Contains(mutated, []byte(ex[0])) {
			fmt.Printf("MUTANT-SKIPPED second anchor not present in %s\n", m.File)
			return 3
		}
		mutated = bytes.Replace(mutated, []byte(ex[0]), []byte(ex[1]), 1)
	}
	ctx, err := core.Load(repo, map[string][]byte{path: mutated})
	if err != nil {
		fmt.Printf("MUTANT-NOCOMPILE %v\n", err)
		return 4
	}
	ctx.Prop, ctx.Tier = prop, "quick"
	p.Run(ctx)
	n, und := 0, 0
	for _, o := range ctx.Obls {
		if o.Verdict == core.Violated {
			n++
			fmt.Printf("MUTANT-VIOLATION %s at %s: %s\n", o.Key, o.Pos, o.Msg)
		}
		if o.Verdict == core.Undecided {
			und++
			fmt.Printf("MUTANT-UNDECIDED %s at %s: %s\n", o.Key, o.Pos, o.Msg)
		}
	}
	for _, f := range ctx.Floors {
		if f.Got < f.Min {
			und++
			fmt.Printf("MUTANT-UNDECIDED floor %s %s %d < %d\n", f.Rule, f.What, f.Got, f.Min)
		}
	}
	if n > 0 {
		return 1
	}
	if und > 0 {
		return 5
	}
	return 0
}

func selfTest(prop, repo string) ([]string, bool) {
	ms := rules.MutantsFor(prop)
	nBreaking := len(ms)
	ms = append(ms, rules.SilentFor(prop)...)
	out := make([]string, len(ms))
	okAll := true
	var mu sync.Mutex
	var wg sync.WaitGroup
	par := 6
	if prop == "C04" || prop == "C05" || prop == "C19" {
		par = 4
	}
	sem := make(chan struct{}, par)
	exe, _ := os.Executable()
	for i, m := range ms {
		wg.Add(1)
		go func(i int, m rules.Mutant) {
			defer wg.Done()
			sem <- struct{}{}
			defer func() { <-sem }()
			cmd := exec.Command(exe, "-prop", prop, "-repo", repo, "-mutant", m.Name)
			b, _ := cmd.CombinedOutput()
			code := cmd.ProcessState.ExitCode()
			status := ""
			switch {
			case i >= nBreaking && code == 0:
				status = "silent (as required: behaviour-preserving rewrite)"
			case i >= nBreaking && code != 3 && code != 4:
				first := ""
				for _, l := range strings.Split(string(b), "\n") {
					if strings.HasPrefix(l, "MUTANT-VIOLATION ") || strings.HasPrefix(l, "MUTANT-UNDECIDED ") {
						first = l
						break
					}
				}
				status = "MISSED: FALSE ALARM on a behaviour-preserving rewrite: " + first
			case code == 3:
				status = "skipped (anchor gone)"
			case code == 4:
				status = "skipped (mutant does not type-check any more)"
			case code == 1:
				hit := false
				for _, l := range strings.Split(string(b), "\n") {
					if strings.HasPrefix(l, "MUTANT-VIOLATION ") && strings.Contains(l, m.Expect) {
						hit = true
					}
				}
				if hit {
					status = "caught"
				} else {
					status = "MISSED (violations reported, but not " + m.Expect + ")"
				}
			default:
				status = fmt.Sprintf("MISSED (exit %d)", code)
			}
			mu.Lock()
			if strings.HasPrefix(status, "MISSED") {
				okAll = false
			}
			out[i] = fmt.Sprintf("%s/%s [%s: %s] expect %s: %s", prop, m.Name, m.File, m.Why, m.Expect, status)
			mu.Unlock()
		}(i, m)
	}
	wg.Wait()
	return out, okAll
}
