// fpcheck decides structural necessary conditions of properties C01..C20 of
// csgura/fp from /repo's current source. It never executes library code.
package main

import (
	"bytes"
	"flag"
	"fmt"
	"os"
	"os/exec"
	"path/filepath"
	"runtime/debug"
	"runtime/pprof"
	"sort"
	"strconv"
	"strings"
	"sync"
	"time"

	"fpcheck/core"
	"fpcheck/rules"
)

func main() {
	prop := flag.String("prop", "", "property id (C01..C20)")
	tier := flag.String("tier", "", "quick|thorough (default: $VERIF_TIER or quick)")
	repo := flag.String("repo", "/repo", "repository root")
	verif := flag.String("verif", "/verif", "verif directory (evidence, known_findings.json)")
	only := flag.String("only", "", "print only obligations whose key contains this string (replay)")
	list := flag.Bool("list", false, "list all obligations")
	mutant := flag.String("mutant", "", "analyse the tree with the named self-test mutant applied as an overlay (evidence is not written)")
	selftest := flag.Bool("selftest", false, "run the property's mutants only and print the table")
	flag.Parse()
	if *tier == "" {
		*tier = os.Getenv("VERIF_TIER")
	}
	if *tier != "thorough" {
		*tier = "quick"
	}
	seed, _ := strconv.Atoi(os.Getenv("VERIF_SEED"))
	p, ok := rules.Registry[*prop]
	if !ok {
		var ks []string
		for k := range rules.Registry {
			ks = append(ks, k)
		}
		sort.Strings(ks)
		fmt.Fprintf(os.Stderr, "unknown property %q; have %s\n", *prop, strings.Join(ks, " "))
		os.Exit(2)
	}
	if pf := os.Getenv("FPCHECK_CPUPROFILE"); pf != "" {
		f, _ := os.Create(pf)
		pprof.StartCPUProfile(f)
		go func() {
			time.Sleep(60 * time.Second)
			pprof.StopCPUProfile()
			f.Close()
			os.Exit(3)
		}()
	}
	debug.SetGCPercent(800)
	start := time.Now()
	if *mutant != "" {
		os.Exit(runMutant(p, *prop, *repo, *mutant))
	}
	if *selftest {
		res, ok := selfTest(*prop, *repo, *verif)
		for _, r := range res {
			fmt.Println(r)
		}
		if !ok {
			os.Exit(2)
		}
		return
	}
	code := run(p, *prop, *tier, *repo, *verif, seed, *only, *list, start)
	os.Exit(code)
}

func run(p rules.Property, prop, tier, repo, verif string, seed int, only string, list bool, start time.Time) (code int) {
	defer func() {
		if r := recover(); r != nil {
			fmt.Printf("UNDECIDED property=%s analyser panic: %v\n%s\n", prop, r, debug.Stack())
			code = 2
		}
	}()
	ctx, err := core.Load(repo, nil)
	if err != nil {
		fmt.Printf("UNDECIDED property=%s cannot load/type-check the repository: %v\n", prop, err)
		return 2
	}
	ctx.Prop, ctx.Tier = prop, tier
	p.Run(ctx)
	if list || only != "" {
		for _, o := range ctx.Obls {
			if only == "" || strings.Contains(o.Key, only) {
				fmt.Printf("%-10s %s  %s  %s\n", o.Verdict, o.Key, o.Pos, o.Msg)
			}
		}
	}
	extra := map[string]any{}
	selfOK := true
	if tier == "thorough" {
		res, ok := selfTest(prop, repo, verif)
		selfOK = ok
		extra["checker_selftest"] = res
		extra["checker_selftest_rule"] = "each mutant = one anchored source fragment replaced through packages.Config.Overlay, analysed in a fresh process; the named rule must report a violation whose key contains the expected construct; a mutant whose anchor no longer exists is skipped and counted; then the patch corpus: every confirmed seeded change of this property that its own rules catch (seeded/<id>/patch.diff) must still be reported, and every behaviour-preserving change recorded for it (benign/<id>/patch.diff, plus those listed for it in benign/cross.txt) must stay silent — each patch is applied to copies of the files it touches and handed to the loader as an overlay, /repo is not modified"
		for _, r := range res {
			fmt.Println("selftest:", r)
		}
	}
	code = ctx.Finish(verif, seed, start, p.Explanation, extra)
	if !selfOK && code == 0 {
		fmt.Printf("CHECKER-SELFTEST-FAILED property=%s (a rule did not fire on a mutant it is meant to catch; see lines above)\n", prop)
		return 2
	}
	return code
}

// runMutant analyses the tree with one mutant overlaid; prints violated keys; exit 1 if any violation.
func runMutant(p rules.Property, prop, repo, name string) (code int) {
	defer func() {
		if r := recover(); r != nil {
			fmt.Printf("MUTANT-PANIC %v\n%s\n", r, debug.Stack())
			code = 2
		}
	}()
	if strings.HasPrefix(name, "patch:") {
		return runPatch(p, prop, repo, strings.TrimPrefix(name, "patch:"))
	}
	var m *rules.Mutant
	for i := range rules.Mutants {
		if rules.Mutants[i].Prop == prop && rules.Mutants[i].Name == name {
			m = &rules.Mutants[i]
		}
	}
	for i := range rules.SilentMutants {
		if rules.SilentMutants[i].Prop == prop && rules.SilentMutants[i].Name == name {
			m = &rules.SilentMutants[i]
		}
	}
	if m == nil {
		fmt.Printf("MUTANT-UNKNOWN %s/%s\n", prop, name)
		return 2
	}
	path := filepath.Join(repo, m.File)
	src, err := os.ReadFile(path)
	if err != nil || !bytes.Contains(src, []byte(m.Old)) {
		fmt.Printf("MUTANT-SKIPPED anchor not present in %s\n", m.File)
		return 3
	}
	mutated := bytes.Replace(src, []byte(m.Old), []byte(m.New), 1)
	if ex, ok := rules.MutantExtra[prop+"/"+name]; ok {
		if !bytes.Contains(mutated, []byte(ex[0])) {
			fmt.Printf("MUTANT-SKIPPED second anchor not present in %s\n", m.File)
			return 3
		}
		mutated = bytes.Replace(mutated, []byte(ex[0]), []byte(ex[1]), 1)
	}
	ctx, err := core.Load(repo, map[string][]byte{path: mutated})
	if err != nil {
		fmt.Printf("MUTANT-NOCOMPILE %v\n", err)
		return 4
	}
	ctx.Prop, ctx.Tier = prop, "quick"
	p.Run(ctx)
	n, und := 0, 0
	for _, o := range ctx.Obls {
		if o.Verdict == core.Violated {
			n++
			fmt.Printf("MUTANT-VIOLATION %s at %s: %s\n", o.Key, o.Pos, o.Msg)
		}
		if o.Verdict == core.Undecided {
			und++
			fmt.Printf("MUTANT-UNDECIDED %s at %s: %s\n", o.Key, o.Pos, o.Msg)
		}
	}
	for _, f := range ctx.Floors {
		if f.Got < f.Min {
			und++
			fmt.Printf("MUTANT-UNDECIDED floor %s %s %d < %d\n", f.Rule, f.What, f.Got, f.Min)
		}
	}
	if n > 0 {
		return 1
	}
	if und > 0 {
		return 5
	}
	return 0
}

func selfTest(prop, repo, verif string) ([]string, bool) {
	ms := rules.MutantsFor(prop)
	nBreaking := len(ms)
	ms = append(ms, rules.SilentFor(prop)...)
	out := make([]string, len(ms))
	okAll := true
	var mu sync.Mutex
	var wg sync.WaitGroup
	par := 6
	if prop == "C04" || prop == "C05" || prop == "C19" {
		par = 4
	}
	sem := make(chan struct{}, par)
	exe, _ := os.Executable()
	for i, m := range ms {
		wg.Add(1)
		go func(i int, m rules.Mutant) {
			defer wg.Done()
			sem <- struct{}{}
			defer func() { <-sem }()
			cmd := exec.Command(exe, "-prop", prop, "-repo", repo, "-mutant", m.Name)
			b, _ := cmd.CombinedOutput()
			code := cmd.ProcessState.ExitCode()
			status := ""
			switch {
			case i >= nBreaking && code == 0:
				status = "silent (as required: behaviour-preserving rewrite)"
			case i >= nBreaking && code != 3 && code != 4:
				first := ""
				for _, l := range strings.Split(string(b), "\n") {
					if strings.HasPrefix(l, "MUTANT-VIOLATION ") || strings.HasPrefix(l, "MUTANT-UNDECIDED ") {
						first = l
						break
					}
				}
				status = "MISSED: FALSE ALARM on a behaviour-preserving rewrite: " + first
			case code == 3:
				status = "skipped (anchor gone)"
			case code == 4:
				status = "skipped (mutant does not type-check any more)"
			case code == 1:
				hit := false
				for _, l := range strings.Split(string(b), "\n") {
					if strings.HasPrefix(l, "MUTANT-VIOLATION ") && strings.Contains(l, m.Expect) {
						hit = true
					}
				}
				if hit {
					status = "caught"
				} else {
					status = "MISSED (violations reported, but not " + m.Expect + ")"
				}
			default:
				status = fmt.Sprintf("MISSED (exit %d)", code)
			}
			mu.Lock()
			if strings.HasPrefix(status, "MISSED") {
				okAll = false
			}
			out[i] = fmt.Sprintf("%s/%s [%s: %s] expect %s: %s", prop, m.Name, m.File, m.Why, m.Expect, status)
			mu.Unlock()
		}(i, m)
	}
	wg.Wait()
	// patch corpus: the confirmed seeded changes of this property that its own rules catch must stay caught, and the
	// behaviour-preserving changes (its own, plus those that once raised a false alarm here) must stay silent
	type pcase struct {
		id, file string
		breaking bool
	}
	var pcs []pcase
	// the corpus lives next to the checker (…/bin/fpcheck → …/seeded, …/benign), wherever the evidence is written
	if _, err := os.Stat(filepath.Join(verif, "seeded")); err != nil {
		verif = filepath.Dir(filepath.Dir(exe))
	}
	if ms, _ := filepath.Glob(filepath.Join(verif, "seeded", prop+"*", "meta.json")); true {
		sort.Strings(ms)
		for _, mf := range ms {
			b, err := os.ReadFile(mf)
			if err != nil || !bytes.Contains(b, []byte(`"caught_by_own_property": true`)) {
				continue
			}
			pcs = append(pcs, pcase{filepath.Base(filepath.Dir(mf)), filepath.Join(filepath.Dir(mf), "patch.diff"), true})
		}
	}
	if ms, _ := filepath.Glob(filepath.Join(verif, "benign", prop+"*", "patch.diff")); true {
		sort.Strings(ms)
		for _, pf := range ms {
			pcs = append(pcs, pcase{filepath.Base(filepath.Dir(pf)), pf, false})
		}
	}
	if b, err := os.ReadFile(filepath.Join(verif, "benign", "cross.txt")); err == nil {
		for _, l := range strings.Split(string(b), "\n") {
			f := strings.Fields(l)
			if len(f) == 2 && f[0] == prop {
				pcs = append(pcs, pcase{f[1], filepath.Join(verif, "benign", f[1], "patch.diff"), false})
			}
		}
	}
	pout := make([]string, len(pcs))
	for i, pc := range pcs {
		wg.Add(1)
		go func(i int, pc pcase) {
			defer wg.Done()
			sem <- struct{}{}
			defer func() { <-sem }()
			cmd := exec.Command(exe, "-prop", prop, "-repo", repo, "-mutant", "patch:"+pc.file)
			b, _ := cmd.CombinedOutput()
			code := cmd.ProcessState.ExitCode()
			first := ""
			for _, l := range strings.Split(string(b), "\n") {
				if strings.HasPrefix(l, "MUTANT-VIOLATION ") || strings.HasPrefix(l, "MUTANT-UNDECIDED ") {
					first = l
					break
				}
			}
			status := ""
			switch {
			case code == 3 || code == 4:
				status = "skipped (patch no longer applies / does not type-check on this tree)"
			case pc.breaking && code == 1:
				status = "caught"
			case pc.breaking:
				status = fmt.Sprintf("MISSED (exit %d): a confirmed breaking change is no longer reported", code)
			case code == 0:
				status = "silent (as required: behaviour-preserving change)"
			default:
				status = "MISSED: FALSE ALARM on a behaviour-preserving change: " + first
			}
			kind := "benign"
			if pc.breaking {
				kind = "seeded"
			}
			mu.Lock()
			if strings.HasPrefix(status, "MISSED") {
				okAll = false
			}
			pout[i] = fmt.Sprintf("%s/%s-patch %s: %s", prop, kind, pc.id, status)
			mu.Unlock()
		}(i, pc)
	}
	wg.Wait()
	return append(out, pout...), okAll
}

// runPatch analyses the tree with a unified diff applied through the overlay (the files the diff touches are copied to
// a temporary directory, patched there with `git apply`, and handed to the loader; /repo itself is not modified).
func runPatch(p rules.Property, prop, repo, patchFile string) (code int) {
	defer func() {
		if r := recover(); r != nil {
			fmt.Printf("MUTANT-PANIC %v\n%s\n", r, debug.Stack())
			code = 2
		}
	}()
	pb, err := os.ReadFile(patchFile)
	if err != nil {
		fmt.Printf("MUTANT-SKIPPED cannot read %s\n", patchFile)
		return 3
	}
	var paths []string
	seen := map[string]bool{}
	for _, l := range strings.Split(string(pb), "\n") {
		for _, pre := range []string{"--- a/", "+++ b/"} {
			if strings.HasPrefix(l, pre) {
				f := strings.TrimSpace(strings.TrimPrefix(l, pre))
				if !seen[f] {
					seen[f] = true
					paths = append(paths, f)
				}
			}
		}
		if strings.HasPrefix(l, "+++ /dev/null") || strings.HasPrefix(l, "rename ") {
			fmt.Printf("MUTANT-SKIPPED patch deletes or renames a file (not expressible as an overlay)\n")
			return 3
		}
	}
	tmp, err := os.MkdirTemp("", "fpcheck-patch-")
	if err != nil {
		fmt.Printf("MUTANT-SKIPPED %v\n", err)
		return 3
	}
	defer os.RemoveAll(tmp)
	for _, f := range paths {
		src, err := os.ReadFile(filepath.Join(repo, f))
		if err != nil {
			continue // a file the patch creates
		}
		dst := filepath.Join(tmp, f)
		os.MkdirAll(filepath.Dir(dst), 0o755)
		os.WriteFile(dst, src, 0o644)
	}
	cmd := exec.Command("git", "apply", "--whitespace=nowarn", patchFile)
	cmd.Dir = tmp
	cmd.Env = append(os.Environ(), "GIT_DIR=/nonexistent", "GIT_CEILING_DIRECTORIES="+filepath.Dir(tmp))
	if ob, err := cmd.CombinedOutput(); err != nil {
		fmt.Printf("MUTANT-SKIPPED patch does not apply: %s\n", strings.TrimSpace(string(ob)))
		return 3
	}
	overlay := map[string][]byte{}
	for _, f := range paths {
		b, err := os.ReadFile(filepath.Join(tmp, f))
		if err != nil {
			fmt.Printf("MUTANT-SKIPPED patched file %s missing\n", f)
			return 3
		}
		overlay[filepath.Join(repo, f)] = b
	}
	ctx, err := core.Load(repo, overlay)
	if err != nil {
		fmt.Printf("MUTANT-NOCOMPILE %v\n", err)
		return 4
	}
	ctx.Prop, ctx.Tier = prop, "quick"
	p.Run(ctx)
	n, und := 0, 0
	for _, o := range ctx.Obls {
		if o.Verdict == core.Violated {
			n++
			fmt.Printf("MUTANT-VIOLATION %s at %s: %s\n", o.Key, o.Pos, o.Msg)
		}
		if o.Verdict == core.Undecided {
			und++
			fmt.Printf("MUTANT-UNDECIDED %s at %s: %s\n", o.Key, o.Pos, o.Msg)
		}
	}
	for _, f := range ctx.Floors {
		if f.Got < f.Min {
			und++
			fmt.Printf("MUTANT-UNDECIDED floor %s %s %d < %d\n", f.Rule, f.What, f.Got, f.Min)
		}
	}
	if n > 0 {
		return 1
	}
	if und > 0 {
		return 5
	}
	return 0
}
