// fpcheck decides structural necessary conditions of properties C01..C20 of
// csgura/fp from /repo's current source. It never executes library code.
package main

import (
	"flag"
	"fmt"
	"os"
	"runtime/debug"
	"sort"
	"strconv"
	"strings"
	"time"

	"fpcheck/core"
	"fpcheck/rules"
)

func main() {
	prop := flag.String("prop", "", "property id (C01..C20)")
	tier := flag.String("tier", "", "quick|thorough (default: $VERIF_TIER or quick)")
	repo := flag.String("repo", "/repo", "repository root")
	verif := flag.String("verif", "/verif", "verif directory (evidence, known_findings.json)")
	only := flag.String("only", "", "print only obligations whose key contains this string (replay)")
	list := flag.Bool("list", false, "list all obligations")
	flag.Parse()
	if *tier == "" {
		*tier = os.Getenv("VERIF_TIER")
	}
	if *tier != "thorough" {
		*tier = "quick"
	}
	seed, _ := strconv.Atoi(os.Getenv("VERIF_SEED"))
	p, ok := rules.Registry[*prop]
	if !ok {
		var ks []string
		for k := range rules.Registry {
			ks = append(ks, k)
		}
		sort.Strings(ks)
		fmt.Fprintf(os.Stderr, "unknown property %q; have %s\n", *prop, strings.Join(ks, " "))
		os.Exit(2)
	}
	start := time.Now()
	code := run(p, *prop, *tier, *repo, *verif, seed, *only, *list, start)
	os.Exit(code)
}

func run(p rules.Property, prop, tier, repo, verif string, seed int, only string, list bool, start time.Time) (code int) {
	defer func() {
		if r := recover(); r != nil {
			fmt.Printf("UNDECIDED property=%s analyser panic: %v\n%s\n", prop, r, debug.Stack())
			code = 2
		}
	}()
	ctx, err := core.Load(repo, nil)
	if err != nil {
		fmt.Printf("UNDECIDED property=%s cannot load/type-check the repository: %v\n", prop, err)
		return 2
	}
	ctx.Prop, ctx.Tier = prop, tier
	p.Run(ctx)
	if list || only != "" {
		for _, o := range ctx.Obls {
			if only == "" || strings.Contains(o.Key, only) {
				fmt.Printf("%-10s %s  %s  %s\n", o.Verdict, o.Key, o.Pos, o.Msg)
			}
		}
	}
	return ctx.Finish(verif, seed, start, p.Explanation, nil)
}
