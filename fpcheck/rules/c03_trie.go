package rules

// Structural clauses of the hash trie (C03), added after seeded change C03a:
//
//   R-FRAG   every node kind cuts the same fragment out of the hash at its level and every descent advances the
//            level by the same constant, so that a key stored through one code path is found through every other
//   R-LEVEL  a node that was built for (or lives at) level shift+K is never handed back as the node for level shift
//            unless a type assertion shows it is a leaf kind (leaves do not interpret the level)
//
// Both are sibling-agreement rules in the sense of Engler et al.: the slots (which parameter is the level, which
// field holds the children, what the per-level constant is) are filled from the package itself.

import (
	"go/ast"
	"go/constant"
	"go/token"
	"go/types"
	"math/bits"
	"sort"
	"strings"

	"fpcheck/core"

	"golang.org/x/tools/go/cfg"
	"golang.org/x/tools/go/packages"
)

type trieModel struct {
	p        *packages.Package
	ifaces   map[*types.TypeName]bool           // node interfaces
	branch   map[*types.TypeName]map[string]int // branch struct -> children field name -> array len (0 = slice)
	leaf     map[*types.TypeName]bool
	shiftPos map[*types.Func]int // function/method -> index of its level parameter
	ifShift  map[string]int      // interface method name -> index of level parameter
}

func buildTrieModel(c *core.Ctx, p *packages.Package) *trieModel {
	m := &trieModel{p: p, ifaces: map[*types.TypeName]bool{}, branch: map[*types.TypeName]map[string]int{}, leaf: map[*types.TypeName]bool{},
		shiftPos: map[*types.Func]int{}, ifShift: map[string]int{}}
	scope := p.Types.Scope()
	var ifaces, structs []*types.Named
	for _, nm := range scope.Names() {
		tn, ok := scope.Lookup(nm).(*types.TypeName)
		if !ok {
			continue
		}
		nt, ok := tn.Type().(*types.Named)
		if !ok {
			continue
		}
		switch nt.Underlying().(type) {
		case *types.Interface:
			ifaces = append(ifaces, nt)
		case *types.Struct:
			structs = append(structs, nt)
		}
	}
	for _, it := range ifaces {
		var impls []*types.Named
		for _, s := range structs {
			if implementsGeneric(s, it) {
				impls = append(impls, s)
			}
		}
		if len(impls) < 2 {
			continue
		}
		// level parameter of the interface's methods: the only parameter of an unsigned integer type other than the hash
		// (the hash is the widest fixed-size one; the level is `uint`)
		iface := it.Underlying().(*types.Interface)
		found := false
		for i := 0; i < iface.NumMethods(); i++ {
			sig := iface.Method(i).Type().(*types.Signature)
			for j := 0; j < sig.Params().Len(); j++ {
				if b, ok := sig.Params().At(j).Type().(*types.Basic); ok && b.Kind() == types.Uint {
					m.ifShift[iface.Method(i).Name()] = j
					found = true
				}
			}
		}
		if !found {
			continue
		}
		m.ifaces[it.Obj()] = true
		for _, s := range impls {
			st := s.Underlying().(*types.Struct)
			ch := map[string]int{}
			for i := 0; i < st.NumFields(); i++ {
				ft := st.Field(i).Type()
				ln := -1
				if sl, ok := ft.Underlying().(*types.Slice); ok {
					ft, ln = sl.Elem(), 0
				} else if ar, ok := ft.Underlying().(*types.Array); ok {
					ft, ln = ar.Elem(), int(ar.Len())
				}
				if n := namedOf(ft); ln >= 0 && n != nil && n.Obj() == it.Obj() {
					ch[st.Field(i).Name()] = ln
				}
			}
			if len(ch) > 0 {
				m.branch[s.Obj()] = ch
			} else {
				m.leaf[s.Obj()] = true
			}
			ms := types.NewMethodSet(types.NewPointer(s))
			for name, pos := range m.ifShift {
				if sel := ms.Lookup(p.Types, name); sel != nil {
					if fn, ok := sel.Obj().(*types.Func); ok {
						m.shiftPos[fn.Origin()] = pos
					}
				}
			}
		}
	}
	return m
}

// shiftParam returns the level parameter object of fb, if it has one.
func (m *trieModel) shiftParam(fb *fnBody) types.Object {
	if fb.Lit != nil || fb.Decl == nil {
		return nil
	}
	fn, _ := fb.Pkg.TypesInfo.Defs[fb.Decl.Name].(*types.Func)
	if fn == nil {
		return nil
	}
	pos, ok := m.shiftPos[fn.Origin()]
	if !ok {
		return nil
	}
	sig := fn.Type().(*types.Signature)
	if pos >= sig.Params().Len() {
		return nil
	}
	return sig.Params().At(pos)
}

// calleeShift resolves the callee of call and returns the index of its level parameter (or -1).
func (m *trieModel) calleeShift(info *types.Info, call *ast.CallExpr) int {
	fn := calleeOf(info, call)
	if fn == nil {
		return -1
	}
	if pos, ok := m.shiftPos[fn.Origin()]; ok {
		return pos
	}
	// interface method of a node interface
	if sig, ok := fn.Type().(*types.Signature); ok && sig.Recv() != nil {
		if n := namedOf(sig.Recv().Type()); n != nil && m.ifaces[n.Obj()] {
			if pos, ok := m.ifShift[fn.Name()]; ok {
				return pos
			}
		}
	}
	return -1
}

// shiftPlus matches `s + K` (also K + s, s + K1 - K2, parenthesised) with K a positive integer constant and returns K
// (0 for bare s, -1 otherwise).
func shiftPlus(info *types.Info, e ast.Expr, s types.Object) int64 {
	k, ok := shiftOffset(info, e, s)
	if !ok || k < 0 {
		return -1
	}
	return k
}

// shiftOffset evaluates e as s + k for a constant k.
func shiftOffset(info *types.Info, e ast.Expr, s types.Object) (int64, bool) {
	e = ast.Unparen(e)
	if id, ok := e.(*ast.Ident); ok && info.Uses[id] == s {
		return 0, true
	}
	be, ok := e.(*ast.BinaryExpr)
	if !ok || (be.Op != token.ADD && be.Op != token.SUB) {
		return 0, false
	}
	constOf := func(x ast.Expr) (int64, bool) {
		tv, ok := info.Types[x]
		if !ok || tv.Value == nil || tv.Value.Kind() != constant.Int {
			return 0, false
		}
		v, exact := constant.Int64Val(tv.Value)
		return v, exact
	}
	if k, ok := shiftOffset(info, be.X, s); ok {
		if c, ok := constOf(be.Y); ok {
			if be.Op == token.ADD {
				return k + c, true
			}
			return k - c, true
		}
		return 0, false
	}
	if be.Op == token.ADD {
		if k, ok := shiftOffset(info, be.Y, s); ok {
			if c, ok := constOf(be.X); ok {
				return k + c, true
			}
		}
	}
	return 0, false
}

// propagateShift extends shiftPos to plain functions whose uint parameter is forwarded (bare or +K) into a known level position.
func (m *trieModel) propagateShift(c *core.Ctx) {
	for round := 0; round < 3; round++ {
		// callee side: a level-dependent function passes its level (bare or +K) to a package function at position i
		for _, fb := range funcBodies(c, []*packages.Package{m.p}) {
			s := m.shiftParam(fb)
			if s == nil {
				continue
			}
			info := fb.Pkg.TypesInfo
			ast.Inspect(fb.Body, func(x ast.Node) bool {
				call, ok := x.(*ast.CallExpr)
				if !ok {
					return true
				}
				fn := calleeOf(info, call)
				if fn == nil || fn.Pkg() != m.p.Types || m.calleeShift(info, call) >= 0 {
					return true
				}
				sig := fn.Type().(*types.Signature)
				for i, a := range call.Args {
					if i < sig.Params().Len() && shiftPlus(info, a, s) >= 0 {
						if b, ok := sig.Params().At(i).Type().(*types.Basic); ok && b.Kind() == types.Uint {
							m.shiftPos[fn.Origin()] = i
						}
					}
				}
				return true
			})
		}
		for _, fb := range funcBodies(c, []*packages.Package{m.p}) {
			if fb.Lit != nil || fb.Decl == nil {
				continue
			}
			info := fb.Pkg.TypesInfo
			fn, _ := info.Defs[fb.Decl.Name].(*types.Func)
			if fn == nil {
				continue
			}
			if _, ok := m.shiftPos[fn.Origin()]; ok {
				continue
			}
			sig := fn.Type().(*types.Signature)
			for j := 0; j < sig.Params().Len(); j++ {
				pj := sig.Params().At(j)
				if b, ok := pj.Type().(*types.Basic); !ok || b.Kind() != types.Uint {
					continue
				}
				hit := false
				ast.Inspect(fb.Body, func(x ast.Node) bool {
					call, ok := x.(*ast.CallExpr)
					if !ok {
						return true
					}
					pos := m.calleeShift(info, call)
					if pos < 0 && calleeOf(info, call) == fn {
						pos = j // self-recursion on the same position
					}
					if pos >= 0 && pos < len(call.Args) && shiftPlus(info, call.Args[pos], pj) >= 0 {
						if calleeOf(info, call) != fn {
							hit = true
						}
					}
					return true
				})
				if hit {
					m.shiftPos[fn.Origin()] = j
				}
			}
		}
	}
}

// childOrigin reports whether e (traced through locals) may be an element of a children field of some branch node.
func (m *trieModel) isChildrenField(info *types.Info, e ast.Expr) bool {
	sel, ok := ast.Unparen(e).(*ast.SelectorExpr)
	if !ok {
		return false
	}
	tv, ok := info.Types[sel.X]
	if !ok {
		return false
	}
	n := namedOf(tv.Type)
	if n == nil {
		return false
	}
	ch, ok := m.branch[n.Obj()]
	if !ok {
		return false
	}
	_, ok = ch[sel.Sel.Name]
	return ok
}

// TrieFrag implements R-FRAG.
func TrieFrag(c *core.Ctx, rule string, p *packages.Package) {
	c.Rule(rule, "in package immutable every level-dependent function cuts its fragment as (hash >> level) & M with one and the same constant M (M+1 = number of child slots of the array node, M+1 <= width of the bitmap), and every descent into a child passes level+K with one and the same constant K, 0 < K <= log2(M+1); a child is never consulted at its parent's level")
	m := buildTrieModel(c, p)
	m.propagateShift(c)
	info := p.TypesInfo
	// slots
	arrayLen := 0
	for _, ch := range m.branch {
		for _, ln := range ch {
			if ln > 0 {
				arrayLen = ln
			}
		}
	}
	type site struct {
		key  string
		pos  token.Pos
		val  int64
		text string
	}
	var frags, descents []site
	nFn := 0
	for _, fb := range funcBodies(c, []*packages.Package{p}) {
		s := m.shiftParam(fb)
		if s == nil {
			continue
		}
		nFn++
		kf, kd := 0, 0
		// local single-assignment tracing for "is a child": name -> rhs expressions
		assigned := map[types.Object][]ast.Expr{}
		ast.Inspect(fb.Body, func(x ast.Node) bool {
			if as, ok := x.(*ast.AssignStmt); ok && len(as.Lhs) == len(as.Rhs) {
				for i, l := range as.Lhs {
					if id, ok := l.(*ast.Ident); ok {
						if o := info.ObjectOf(id); o != nil {
							assigned[o] = append(assigned[o], as.Rhs[i])
						}
					}
				}
			}
			return true
		})
		var isChild func(e ast.Expr, depth int) bool
		isChild = func(e ast.Expr, depth int) bool {
			e = ast.Unparen(e)
			if ix, ok := e.(*ast.IndexExpr); ok && m.isChildrenField(info, ix.X) {
				return true
			}
			if id, ok := e.(*ast.Ident); ok && depth < 4 {
				for _, r := range assigned[info.Uses[id]] {
					if isChild(r, depth+1) {
						return true
					}
				}
			}
			return false
		}
		ast.Inspect(fb.Body, func(x ast.Node) bool {
			switch e := x.(type) {
			case *ast.BinaryExpr:
				if e.Op != token.AND && e.Op != token.REM {
					return true
				}
				var shr *ast.BinaryExpr
				var other ast.Expr
				if b, ok := ast.Unparen(e.X).(*ast.BinaryExpr); ok && b.Op == token.SHR {
					shr, other = b, e.Y
				} else if b, ok := ast.Unparen(e.Y).(*ast.BinaryExpr); ok && b.Op == token.SHR && e.Op == token.AND {
					shr, other = b, e.X
				}
				if shr == nil {
					return true
				}
				if id, ok := ast.Unparen(shr.Y).(*ast.Ident); !ok || info.Uses[id] != s {
					return true
				}
				kf++
				key := fb.Name + "/frag#" + itoa(kf)
				tv, ok := info.Types[other]
				if !ok || tv.Value == nil || tv.Value.Kind() != constant.Int {
					c.Add(rule, key, e.Pos(), core.Skipped, "fragment mask is not a constant: "+exprString(e))
					return true
				}
				v, _ := constant.Int64Val(tv.Value)
				if e.Op == token.REM {
					if v <= 0 || v&(v-1) != 0 {
						c.Add(rule, key, e.Pos(), core.Violated, "fragment "+exprString(e)+" is taken modulo "+itoa(int(v))+", not a power of two: siblings use a bit mask")
						return true
					}
					v--
				}
				frags = append(frags, site{key, e.Pos(), v, exprString(e)})
			case *ast.CallExpr:
				pos := m.calleeShift(info, e)
				if pos < 0 || pos >= len(e.Args) {
					return true
				}
				k := shiftPlus(info, e.Args[pos], s)
				switch {
				case k > 0:
					kd++
					descents = append(descents, site{fb.Name + "/descent#" + itoa(kd) + ":" + exprString(e.Fun), e.Pos(), k, exprString(e.Args[pos])})
				case k == 0:
					// same-level delegation is fine unless the callee's receiver / node argument is a child of this node
					var subj ast.Expr
					if sel, ok := ast.Unparen(e.Fun).(*ast.SelectorExpr); ok {
						if _, isM := info.Selections[sel]; isM {
							subj = sel.X
						}
					}
					child := subj != nil && isChild(subj, 0)
					for _, a := range e.Args {
						if tv, ok := info.Types[a]; ok {
							if n := namedOf(tv.Type); n != nil && m.ifaces[n.Obj()] && isChild(a, 0) {
								child = true
							}
						}
					}
					if child {
						kd++
						c.Add(rule, fb.Name+"/descent#"+itoa(kd)+":"+exprString(e.Fun), e.Pos(), core.Violated,
							exprString(e)+" consults a child node at its parent's level ("+exprString(e.Args[pos])+" instead of level+K): the child cuts the same fragment again, so entries stored through the other paths are not found")
					}
				default:
					kd++
					c.Add(rule, fb.Name+"/descent#"+itoa(kd)+":"+exprString(e.Fun), e.Pos(), core.Skipped, "level argument "+exprString(e.Args[pos])+" is not of the form level+K")
				}
			}
			return true
		})
	}
	// agreement
	majority := func(ss []site) int64 {
		cnt := map[int64]int{}
		best, bv := 0, int64(-1)
		for _, s := range ss {
			cnt[s.val]++
			if cnt[s.val] > best || (cnt[s.val] == best && s.val < bv) {
				best, bv = cnt[s.val], s.val
			}
		}
		return bv
	}
	M := majority(frags)
	if arrayLen > 0 {
		M = int64(arrayLen - 1)
	}
	for _, s := range frags {
		switch {
		case s.val != M:
			c.Add(rule, s.key, s.pos, core.Violated, "fragment "+s.text+" uses mask "+itoa(int(s.val))+" where the node kinds agree on "+itoa(int(M))+" (array node has "+itoa(arrayLen)+" slots): this path looks in a different slot than the one the key was stored in")
		default:
			c.Add(rule, s.key, s.pos, core.Discharged, "mask "+itoa(int(M)))
		}
	}
	K := majority(descents)
	maxK := int64(bits.Len64(uint64(M+1)) - 1)
	for _, s := range descents {
		switch {
		case s.val != K:
			c.Add(rule, s.key, s.pos, core.Violated, "descent passes "+s.text+" where the other descents advance the level by "+itoa(int(K))+": the child is built/consulted for a different level than its siblings")
		case s.val > maxK:
			c.Add(rule, s.key, s.pos, core.Violated, "descent advances the level by "+itoa(int(s.val))+" > log2("+itoa(int(M+1))+"): hash bits are skipped, two hashes differing only there never separate")
		default:
			c.Add(rule, s.key, s.pos, core.Discharged, "level+"+itoa(int(K)))
		}
	}
	c.Table(rule+" slots", "level-dependent functions: "+itoa(nFn), "M="+itoa(int(M)), "K="+itoa(int(K)), "array slots="+itoa(arrayLen))
	c.Floor(rule, "level-dependent functions", nFn, 8)
	c.Floor(rule, "fragment sites", len(frags), 6)
	c.Floor(rule, "descent sites", len(descents), 5)
}

// TrieLevel implements R-LEVEL.
func TrieLevel(c *core.Ctx, rule string, p *packages.Package) {
	c.Rule(rule, "a level-dependent function that returns a trie node never returns (a) an element of a branch node's children or (b) the result of a descent call made with level+K, unless a type assertion to a leaf kind intervenes: such a node was built for a deeper level and would cut the wrong fragment at this one")
	m := buildTrieModel(c, p)
	m.propagateShift(c)
	info := p.TypesInfo
	n := 0
	for _, fb := range funcBodies(c, []*packages.Package{p}) {
		s := m.shiftParam(fb)
		if s == nil || fb.Type.Results == nil || len(fb.Type.Results.List) != 1 {
			continue
		}
		rtv, ok := info.Types[fb.Type.Results.List[0].Type]
		if !ok {
			continue
		}
		if rn := namedOf(rtv.Type); rn == nil || !m.ifaces[rn.Obj()] {
			continue
		}
		assigned := map[types.Object][]ast.Expr{}
		ast.Inspect(fb.Body, func(x ast.Node) bool {
			switch as := x.(type) {
			case *ast.AssignStmt:
				if len(as.Lhs) == len(as.Rhs) {
					for i, l := range as.Lhs {
						if id, ok := l.(*ast.Ident); ok {
							if o := info.ObjectOf(id); o != nil {
								assigned[o] = append(assigned[o], as.Rhs[i])
							}
						}
					}
				}
			case *ast.ValueSpec:
				for i, id := range as.Names {
					if i < len(as.Values) {
						if o := info.ObjectOf(id); o != nil {
							assigned[o] = append(assigned[o], as.Values[i])
						}
					}
				}
			}
			return true
		})
		// deeper(e): why e may be a deeper-level node ("" = it is not)
		var deeper func(e ast.Expr, depth int) string
		deeper = func(e ast.Expr, depth int) string {
			e = ast.Unparen(e)
			switch x := e.(type) {
			case *ast.IndexExpr:
				if m.isChildrenField(info, x.X) {
					return "child " + exprString(x)
				}
			case *ast.TypeAssertExpr:
				if x.Type != nil {
					if tv, ok := info.Types[x.Type]; ok {
						t := tv.Type
						if pt, ok := t.(*types.Pointer); ok {
							t = pt.Elem()
						}
						if nn := namedOf(t); nn != nil && m.leaf[nn.Obj()] {
							return "" // proven leaf
						}
					}
					return deeper(x.X, depth)
				}
			case *ast.CallExpr:
				if pos := m.calleeShift(info, x); pos >= 0 && pos < len(x.Args) && shiftPlus(info, x.Args[pos], s) > 0 {
					return "result of descent " + exprString(x)
				}
			case *ast.Ident:
				if depth < 5 {
					for _, r := range assigned[info.Uses[x]] {
						if w := deeper(r, depth+1); w != "" {
							return w
						}
					}
				}
			}
			return ""
		}
		k := 0
		inspectShallow(fb.Body, func(x ast.Node) bool {
			ret, ok := x.(*ast.ReturnStmt)
			if !ok || len(ret.Results) != 1 {
				return true
			}
			k++
			n++
			key := fb.Name + "/return#" + itoa(k)
			if w := deeper(ret.Results[0], 0); w != "" {
				c.Add(rule, key, ret.Pos(), core.Violated, "returns "+w+" as this level's node: a node of level "+s.Name()+"+K is installed at level "+s.Name()+", where it cuts the wrong hash fragment (keys below it are no longer found, or found under the wrong slot)")
			} else {
				c.Add(rule, key, ret.Pos(), core.Discharged, "returns the receiver, nil, a fresh node of this level or a proven leaf")
			}
			return true
		})
	}
	c.Floor(rule, "returns of level-dependent node functions", n, 25)
}

// TrieResized implements R-RESIZED: the growth of the map is reported through the *bool out-parameter.
//
// hamt.Set adds one to the size exactly when the node layer sets *resized. The entry-adding events of the node layer
// are (a) a call of the merge function (a leaf and a new key/value become a branch) and (b), in a branch node, the
// creation of a fresh value leaf for an empty slot. Each must be preceded, on every path from the entry of the
// enclosing set method, by the store *resized = true; otherwise Size() under-counts and IsEmpty can hold for a
// non-empty map.
func TrieResized(c *core.Ctx, rule string, p *packages.Package) {
	c.Rule(rule, "in every function of package immutable that has the *bool growth out-parameter, each entry-adding event (a call of the leaf-merging function; in a branch node, the construction of a new value leaf) is preceded on every path from the function entry by the store `*resized = true`")
	m := buildTrieModel(c, p)
	m.propagateShift(c)
	info := p.TypesInfo
	// (a) merge functions: package-level, level-dependent, returning a node, not a method
	isMerge := func(fn *types.Func) bool {
		if fn == nil || fn.Pkg() != p.Types {
			return false
		}
		sig := fn.Type().(*types.Signature)
		if sig.Recv() != nil || sig.Results().Len() != 1 {
			return false
		}
		if _, ok := m.shiftPos[fn.Origin()]; !ok {
			return false
		}
		rn := namedOf(sig.Results().At(0).Type())
		return rn != nil && m.ifaces[rn.Obj()]
	}
	// (b) leaf constructors: package-level functions returning *leaf
	isLeafCtor := func(fn *types.Func) bool {
		if fn == nil || fn.Pkg() != p.Types {
			return false
		}
		sig := fn.Type().(*types.Signature)
		if sig.Recv() != nil || sig.Results().Len() != 1 {
			return false
		}
		pt, ok := sig.Results().At(0).Type().(*types.Pointer)
		if !ok {
			return false
		}
		rn := namedOf(pt.Elem())
		return rn != nil && m.leaf[rn.Obj()]
	}
	n := 0
	for _, fb := range funcBodies(c, []*packages.Package{p}) {
		if fb.Lit != nil || fb.Decl == nil {
			continue
		}
		var flag types.Object
		for _, f := range fb.Type.Params.List {
			for _, nm := range f.Names {
				if o := info.Defs[nm]; o != nil {
					if pt, ok := o.Type().(*types.Pointer); ok {
						if b, ok := pt.Elem().(*types.Basic); ok && b.Kind() == types.Bool {
							flag = o
						}
					}
				}
			}
		}
		if flag == nil {
			continue
		}
		inBranch := false
		if fb.Decl.Recv != nil && len(fb.Decl.Recv.List) == 1 {
			if tv, ok := info.Types[fb.Decl.Recv.List[0].Type]; ok {
				t := tv.Type
				if pt, ok := t.(*types.Pointer); ok {
					t = pt.Elem()
				}
				if rn := namedOf(t); rn != nil {
					_, inBranch = m.branch[rn.Obj()]
				}
			}
		}
		g := newCFG(c, fb)
		// boolean locals with exactly one assignment (their definition)
		assignCount := map[types.Object]int{}
		ast.Inspect(fb.Body, func(x ast.Node) bool {
			switch as := x.(type) {
			case *ast.AssignStmt:
				for _, l := range as.Lhs {
					if id, ok := l.(*ast.Ident); ok {
						if o := info.ObjectOf(id); o != nil {
							assignCount[o]++
						}
					}
				}
			case *ast.UnaryExpr:
				if as.Op == token.AND {
					if id, ok := ast.Unparen(as.X).(*ast.Ident); ok {
						if o := info.ObjectOf(id); o != nil {
							assignCount[o] += 2 // address taken: may change behind our back
						}
					}
				}
			}
			return true
		})
		onceAssigned := map[types.Object]bool{}
		for o, k := range assignCount {
			if b, ok := o.Type().Underlying().(*types.Basic); ok && b.Kind() == types.Bool && k == 1 {
				onceAssigned[o] = true
			}
		}
		isFlagStore := func(nd ast.Node) bool {
			as, ok := nd.(*ast.AssignStmt)
			if !ok || len(as.Lhs) != 1 || len(as.Rhs) != 1 {
				return false
			}
			st, ok := ast.Unparen(as.Lhs[0]).(*ast.StarExpr)
			if !ok || objOf(info, st.X) != flag {
				return false
			}
			tv, ok := info.Types[as.Rhs[0]]
			return ok && tv.Value != nil && tv.Value.String() == "true"
		}
		k := 0
		for _, b := range g.Blocks {
			for i, nd := range b.Nodes {
				var events []*ast.CallExpr
				inspectShallow(nd, func(x ast.Node) bool {
					if call, ok := x.(*ast.CallExpr); ok {
						fn := calleeOf(info, call)
						if isMerge(fn) || (inBranch && isLeafCtor(fn)) {
							events = append(events, call)
						}
					}
					return true
				})
				for _, ev := range events {
					k++
					n++
					key := fb.Name + "/add#" + itoa(k) + ":" + exprString(ev.Fun)
					// reachable from entry without a flag store? Path-sensitive in the boolean locals that are assigned once
					// (`exists := …; if !exists { *resized = true } … if exists { … } else { event }` is not a path).
					type state struct {
						b     *cfg.Block
						facts string
					}
					seen := map[state]bool{}
					found := false
					var dfs func(bb *cfg.Block, facts map[types.Object]bool)
					dfs = func(bb *cfg.Block, facts map[types.Object]bool) {
						if found {
							return
						}
						st := state{bb, factString(facts)}
						if seen[st] {
							return
						}
						seen[st] = true
						for j, x := range bb.Nodes {
							if bb == b && j == i {
								found = true
								return
							}
							if isFlagStore(x) {
								return
							}
						}
						var condVar types.Object
						condVal := true
						if len(bb.Succs) == 2 && len(bb.Nodes) > 0 {
							if e, ok := bb.Nodes[len(bb.Nodes)-1].(ast.Expr); ok {
								e = ast.Unparen(e)
								if u, ok := e.(*ast.UnaryExpr); ok && u.Op == token.NOT {
									e, condVal = ast.Unparen(u.X), false
								}
								if id, ok := e.(*ast.Ident); ok {
									if o := info.Uses[id]; o != nil && onceAssigned[o] {
										condVar = o
									}
								}
							}
						}
						for si, s := range bb.Succs {
							nf := facts
							if condVar != nil {
								want := condVal
								if si == 1 {
									want = !condVal
								}
								if v, has := facts[condVar]; has && v != want {
									continue // infeasible: contradicts an earlier branch on the same variable
								}
								nf = map[types.Object]bool{}
								for k2, v2 := range facts {
									nf[k2] = v2
								}
								nf[condVar] = want
							}
							dfs(s, nf)
						}
					}
					if len(g.Blocks) > 0 {
						dfs(g.Blocks[0], map[types.Object]bool{})
					}
					if found {
						c.Add(rule, key, ev.Pos(), core.Violated, "`"+exprString(ev)+"` adds an entry but can be reached without `*"+flag.Name()+" = true`: the map's size is not incremented for this insertion (Size under-counts; after removals IsEmpty holds for a non-empty map)")
					} else {
						c.Add(rule, key, ev.Pos(), core.Discharged, "preceded by *"+flag.Name()+" = true on every path")
					}
				}
			}
		}
	}
	c.Floor(rule, "entry-adding events in functions with the growth flag", n, 4)
}

func factString(f map[types.Object]bool) string {
	var ks []string
	for o, v := range f {
		if v {
			ks = append(ks, o.Name()+"=T")
		} else {
			ks = append(ks, o.Name()+"=F")
		}
	}
	sort.Strings(ks)
	return strings.Join(ks, ",")
}

// TrieSlotCount implements R-SLOTCOUNT: the occupied-slot counter of the array node follows the slots.
//
// mapHashArrayNode.count decides when the node shrinks back to a bitmap node and when it disappears. It must change
// exactly when a slot changes between nil and non-nil: every ++/-- of the counter is guarded by a nil test of the slot's
// old value (++: a value read from the children array) or new value (--: the value stored into it), or happens while a
// freshly declared node is being filled slot by slot (an assignment into its children array in the same block).
func TrieSlotCount(c *core.Ctx, rule string, p *packages.Package) {
	c.Rule(rule, "every increment/decrement of the slot counter of a branch node with a fixed-size child array is guarded by a nil test of the slot value concerned (the value read from, or stored into, the child array), or accompanies an assignment into the child array of a node that is being built in the same block: a counter that follows anything else (e.g. the key-added flag) drifts, and the node no longer shrinks or vanishes when its slots empty")
	m := buildTrieModel(c, p)
	info := p.TypesInfo
	// counter fields: unsigned/int fields of branch types that have an array child field
	type cf struct{ counter, children string }
	fields := map[*types.TypeName]cf{}
	for tn, ch := range m.branch {
		arr := ""
		for name, ln := range ch {
			if ln > 0 {
				arr = name
			}
		}
		if arr == "" {
			continue
		}
		st := tn.Type().Underlying().(*types.Struct)
		for i := 0; i < st.NumFields(); i++ {
			if b, ok := st.Field(i).Type().Underlying().(*types.Basic); ok && b.Info()&types.IsInteger != 0 {
				fields[tn] = cf{st.Field(i).Name(), arr}
			}
		}
	}
	n := 0
	for _, fb := range funcBodies(c, []*packages.Package{p}) {
		if fb.Lit != nil {
			continue
		}
		// parents
		parent := map[ast.Node]ast.Node{}
		var stack []ast.Node
		ast.Inspect(fb.Body, func(x ast.Node) bool {
			if x == nil {
				stack = stack[:len(stack)-1]
				return false
			}
			if len(stack) > 0 {
				parent[x] = stack[len(stack)-1]
			}
			stack = append(stack, x)
			return true
		})
		// slot values: variables assigned from X.children[...] and expressions assigned into X.children[...]
		slotVals := map[types.Object]bool{}
		ast.Inspect(fb.Body, func(x ast.Node) bool {
			as, ok := x.(*ast.AssignStmt)
			if !ok || len(as.Lhs) != len(as.Rhs) {
				return true
			}
			for i := range as.Lhs {
				if ix, ok := ast.Unparen(as.Rhs[i]).(*ast.IndexExpr); ok && m.isChildrenField(info, ix.X) {
					if o := objOf(info, as.Lhs[i]); o != nil {
						slotVals[o] = true
					}
				}
				if ix, ok := ast.Unparen(as.Lhs[i]).(*ast.IndexExpr); ok && m.isChildrenField(info, ix.X) {
					if o := objOf(info, as.Rhs[i]); o != nil {
						slotVals[o] = true
					}
				}
			}
			return true
		})
		// booleans holding the verdict of a nil test of a slot value
		nilVerdict := map[types.Object]bool{}
		ast.Inspect(fb.Body, func(x ast.Node) bool {
			as, ok := x.(*ast.AssignStmt)
			if !ok || len(as.Lhs) != len(as.Rhs) {
				return true
			}
			for i, r := range as.Rhs {
				be, ok := ast.Unparen(r).(*ast.BinaryExpr)
				if !ok || (be.Op != token.EQL && be.Op != token.NEQ) {
					continue
				}
				a, b := ast.Unparen(be.X), ast.Unparen(be.Y)
				if isNilIdent(info, a) {
					a, b = b, a
				}
				if !isNilIdent(info, b) {
					continue
				}
				isSlot := false
				if o := objOf(info, a); o != nil && slotVals[o] {
					isSlot = true
				}
				if ix, ok := a.(*ast.IndexExpr); ok && m.isChildrenField(info, ix.X) {
					isSlot = true
				}
				if isSlot {
					if o := objOf(info, as.Lhs[i]); o != nil {
						nilVerdict[o] = true
					}
				}
			}
			return true
		})
		k := 0
		ast.Inspect(fb.Body, func(x ast.Node) bool {
			inc, ok := x.(*ast.IncDecStmt)
			if !ok {
				return true
			}
			sel, ok := ast.Unparen(inc.X).(*ast.SelectorExpr)
			if !ok {
				return true
			}
			tv, ok := info.Types[sel.X]
			if !ok {
				return true
			}
			tn := namedOf(tv.Type)
			if tn == nil {
				return true
			}
			f, ok := fields[tn.Obj()]
			if !ok || f.counter != sel.Sel.Name {
				return true
			}
			k++
			n++
			key := fb.Name + "/" + exprString(inc.X) + inc.Tok.String() + "#" + itoa(k)
			// (a) guarded by a nil test of a slot value
			guarded := false
			for q := parent[inc]; q != nil; q = parent[q] {
				is, ok := q.(*ast.IfStmt)
				if !ok {
					continue
				}
				if nodeContains(is.Cond, true, func(y ast.Node) bool {
					be, ok := y.(*ast.BinaryExpr)
					if !ok || (be.Op != token.EQL && be.Op != token.NEQ) {
						return false
					}
					a, b := ast.Unparen(be.X), ast.Unparen(be.Y)
					if isNilIdent(info, a) {
						a, b = b, a
					}
					if !isNilIdent(info, b) {
						return false
					}
					if o := objOf(info, a); o != nil && slotVals[o] {
						return true
					}
					if ix, ok := a.(*ast.IndexExpr); ok && m.isChildrenField(info, ix.X) {
						return true
					}
					return false
				}) {
					guarded = true
				}
				// the verdict of such a nil test held in a boolean (wasEmpty := node == nil)
				if nodeContains(is.Cond, true, func(y ast.Node) bool {
					id, ok := y.(*ast.Ident)
					return ok && nilVerdict[info.Uses[id]]
				}) {
					guarded = true
				}
			}
			// (a') the same test as an earlier guard clause: `if newNode != nil { …; return }` before the update
			slotCond := func(cond ast.Expr) bool {
				return nodeContains(cond, true, func(y ast.Node) bool {
					if id, ok := y.(*ast.Ident); ok && nilVerdict[info.Uses[id]] {
						return true
					}
					be, ok := y.(*ast.BinaryExpr)
					if !ok || (be.Op != token.EQL && be.Op != token.NEQ) {
						return false
					}
					a, b := ast.Unparen(be.X), ast.Unparen(be.Y)
					if isNilIdent(info, a) {
						a, b = b, a
					}
					if !isNilIdent(info, b) {
						return false
					}
					if o := objOf(info, a); o != nil && slotVals[o] {
						return true
					}
					if ix, ok := a.(*ast.IndexExpr); ok && m.isChildrenField(info, ix.X) {
						return true
					}
					return false
				})
			}
			for q := ast.Node(inc); q != nil && !guarded; q = parent[q] {
				blk, ok := parent[q].(*ast.BlockStmt)
				if !ok {
					continue
				}
				for _, st := range blk.List {
					if st == q {
						break
					}
					is, ok := st.(*ast.IfStmt)
					if !ok || is.Else != nil || len(is.Body.List) == 0 || !slotCond(is.Cond) {
						continue
					}
					if _, isRet := is.Body.List[len(is.Body.List)-1].(*ast.ReturnStmt); isRet {
						guarded = true
					}
				}
			}
			// (b) filling a node being built: an assignment into the same node's child array in the same block
			building := false
			if blk, ok := parent[inc].(*ast.BlockStmt); ok {
				for _, st := range blk.List {
					if as, ok := st.(*ast.AssignStmt); ok {
						for _, l := range as.Lhs {
							if ix, ok := ast.Unparen(l).(*ast.IndexExpr); ok {
								if s2, ok := ast.Unparen(ix.X).(*ast.SelectorExpr); ok && s2.Sel.Name == f.children && exprString(s2.X) == exprString(sel.X) {
									// the node must be a local declared in this function (var other T / other := &T{…})
									if o, ok := objOf(info, sel.X).(*types.Var); ok && o.Pos() >= fb.Body.Pos() && o.Pos() <= fb.Body.End() {
										if !nodeContains(fb.Body, true, func(y ast.Node) bool {
											as2, ok := y.(*ast.AssignStmt)
											if !ok {
												return false
											}
											for i2, l2 := range as2.Lhs {
												if objOf(info, l2) == o && i2 < len(as2.Rhs) {
													// other := n / other = n.clone(): not a node under construction
													if _, isLit := ast.Unparen(as2.Rhs[i2]).(*ast.CompositeLit); !isLit {
														if u, isAddr := ast.Unparen(as2.Rhs[i2]).(*ast.UnaryExpr); !isAddr || u.Op != token.AND {
															return true
														}
													}
												}
											}
											return false
										}) {
											building = true
										}
									}
								}
							}
						}
					}
				}
			}
			switch {
			case guarded:
				c.Add(rule, key, inc.Pos(), core.Discharged, "guarded by a nil test of the slot value")
			case building:
				c.Add(rule, key, inc.Pos(), core.Discharged, "counts a slot filled in a node under construction")
			default:
				c.Add(rule, key, inc.Pos(), core.Violated, exprString(inc.X)+inc.Tok.String()+" is not tied to a slot changing between nil and non-nil (no nil test of the slot value guards it): the occupied-slot count drifts from the slots, so the node is not converted back / removed when its slots empty and iteration meets an empty branch")
			}
			return true
		})
	}
	c.Floor(rule, "slot-counter updates", n, 3)
}
