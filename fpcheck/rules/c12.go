package rules

import (
	"fpcheck/core"

	"golang.org/x/tools/go/packages"
)

func init() {
	register("C12", "termination and laziness clauses of Iterator/List combinators", func(c *core.Ctx) {
		MinMax(c, "R-MINMAX", []*packages.Package{c.Pkg("seq"), c.Pkg("list"), c.Pkg("iterator")})
		Progress(c, "R-PROGRESS", libPkgs(c))
		LazyCtor(c, "R-LAZY-CTOR", libPkgs(c))
		ReadAhead(c, "R-READAHEAD", libPkgs(c))
		StratLazy(c, "R-STRAT-LAZY", libPkgs(c))
		Bound(c, "R-BOUND", libFuncs(c))
		OneShot(c, "R-ONESHOT", libPkgs(c))
		IterMeta(c, "R-ITERMETA", libPkgs(c), 40)
	})
}
