package rules

// Laziness rules of C12 (AST + go/types, eager level = outside function literals).
//
// scans(F, i): F contains, outside any function literal, a pure cursor loop over
// parameter i (or an alias of it), or passes it to a scanning position of another
// function. Summaries are a least fixpoint over the library.
//
// R-LAZY-CTOR   a function returning fp.Iterator/fp.List does not scan an
//               Iterator/List parameter while constructing the result.
// R-READAHEAD   the `next` argument of fp.MakeIterator does not scan a captured
//               iterator into captured cache state unless the returned element
//               is derived from that scan (refill-ahead is unbounded look-ahead).
// R-STRAT-LAZY  a function returning fp.List / lazy.Eval refers to itself only
//               inside a function literal (deferred), never on the eager path.

import (
	"go/ast"
	"go/token"
	"go/types"
	"sort"

	"fpcheck/core"

	"golang.org/x/tools/go/packages"
)

type scanKey struct {
	fn  *types.Func
	idx int // -1 receiver
}

type scanInfo struct {
	scans map[scanKey]string // why
}

// paramObjs returns receiver (index -1) and parameters of a declaration, as objects.
func paramObjs(info *types.Info, fd *ast.FuncDecl) map[types.Object]int {
	out := map[types.Object]int{}
	if fd.Recv != nil {
		for _, f := range fd.Recv.List {
			for _, n := range f.Names {
				if o := info.Defs[n]; o != nil {
					out[o] = -1
				}
			}
		}
	}
	i := 0
	for _, f := range fd.Type.Params.List {
		if len(f.Names) == 0 {
			i++
			continue
		}
		for _, n := range f.Names {
			if o := info.Defs[n]; o != nil {
				out[o] = i
			}
			i++
		}
	}
	return out
}

// pureCursorLoop returns the cursor object of `for x.Obs()` / `for !x.Obs()` loops.
func pureCursorLoop(info *types.Info, fs *ast.ForStmt) types.Object {
	if fs.Cond == nil {
		return nil
	}
	cond := ast.Unparen(fs.Cond)
	for {
		if u, ok := cond.(*ast.UnaryExpr); ok && u.Op == token.NOT {
			cond = ast.Unparen(u.X)
			continue
		}
		break
	}
	call, ok := cond.(*ast.CallExpr)
	if !ok || len(call.Args) != 0 {
		return nil
	}
	sel, ok := call.Fun.(*ast.SelectorExpr)
	if !ok || !cursorObservers[sel.Sel.Name] {
		return nil
	}
	x := objOf(info, sel.X)
	if x == nil || cursorKind(x.Type()) == "" {
		return nil
	}
	return x
}

// aliasesIn computes, for a function body, which local objects alias which parameters
// (by plain assignment y := x / y = x / var y T = x).
func aliasesIn(info *types.Info, body ast.Node, roots map[types.Object]int) map[types.Object]int {
	al := map[types.Object]int{}
	for o, i := range roots {
		al[o] = i
	}
	for changed := true; changed; {
		changed = false
		ast.Inspect(body, func(n ast.Node) bool {
			switch s := n.(type) {
			case *ast.AssignStmt:
				if len(s.Lhs) == len(s.Rhs) {
					for i := range s.Lhs {
						l, r := objOf(info, s.Lhs[i]), objOf(info, s.Rhs[i])
						if l != nil && r != nil {
							if idx, ok := al[r]; ok {
								if _, has := al[l]; !has {
									al[l] = idx
									changed = true
								}
							}
						}
					}
				}
			case *ast.ValueSpec:
				if len(s.Names) == len(s.Values) {
					for i := range s.Names {
						l, r := info.Defs[s.Names[i]], objOf(info, s.Values[i])
						if l != nil && r != nil {
							if idx, ok := al[r]; ok {
								if _, has := al[l]; !has {
									al[l] = idx
									changed = true
								}
							}
						}
					}
				}
			}
			return true
		})
	}
	return al
}

// listIfaceScans: methods of the fp.List interface that traverse the whole list by contract.
var listIfaceScans = map[string]bool{"ToSeq": true, "Foreach": true}

// scanSitesIn lists eager-level scan events in node n on objects in al: (object index, pos, why).
type scanSite struct {
	idx int
	obj types.Object
	pos token.Pos
	why string
}

func (si *scanInfo) sitesIn(c *core.Ctx, info *types.Info, n ast.Node, al map[types.Object]int, deep bool) []scanSite {
	var out []scanSite
	visit := func(x ast.Node) bool {
		switch s := x.(type) {
		case *ast.ForStmt:
			if o := pureCursorLoop(info, s); o != nil {
				if idx, ok := al[o]; ok {
					out = append(out, scanSite{idx, o, s.Pos(), "loop `for " + exprString(s.Cond) + "`"})
				}
			}
		case *ast.CallExpr:
			callee := calleeOf(info, s)
			if callee == nil {
				return true
			}
			// receiver
			if sel, ok := ast.Unparen(s.Fun).(*ast.SelectorExpr); ok {
				if o := objOf(info, sel.X); o != nil {
					if idx, ok := al[o]; ok {
						if why, sc := si.scans[scanKey{callee, -1}]; sc {
							out = append(out, scanSite{idx, o, s.Pos(), "call of " + funcFullName(callee) + " (" + why + ")"})
						} else if isNamed(o.Type(), "fp", "List") && listIfaceScans[sel.Sel.Name] {
							if _, isIface := o.Type().Underlying().(*types.Interface); isIface {
								out = append(out, scanSite{idx, o, s.Pos(), "fp.List." + sel.Sel.Name + " traverses the list"})
							}
						}
					}
				}
			}
			for i, a := range s.Args {
				if o := objOf(info, a); o != nil {
					if idx, ok := al[o]; ok {
						if why, sc := si.scans[scanKey{callee, i}]; sc {
							out = append(out, scanSite{idx, o, s.Pos(), "passed to " + funcFullName(callee) + " (" + why + ")"})
						}
					}
				}
			}
		}
		return true
	}
	if deep {
		ast.Inspect(n, func(x ast.Node) bool {
			if x == nil {
				return false
			}
			return visit(x)
		})
	} else {
		inspectShallow(n, visit)
	}
	return out
}

func computeScans(c *core.Ctx, pkgs []*packages.Package) *scanInfo {
	si := &scanInfo{scans: map[scanKey]string{}}
	type decl struct {
		p  *packages.Package
		fd *ast.FuncDecl
		fn *types.Func
	}
	var decls []decl
	for _, p := range pkgs {
		for _, f := range p.Syntax {
			for _, d := range f.Decls {
				if fd, ok := d.(*ast.FuncDecl); ok && fd.Body != nil {
					if fn, ok := p.TypesInfo.Defs[fd.Name].(*types.Func); ok {
						decls = append(decls, decl{p, fd, fn})
					}
				}
			}
		}
	}
	for changed := true; changed; {
		changed = false
		for _, d := range decls {
			info := d.p.TypesInfo
			roots := map[types.Object]int{}
			for o, i := range paramObjs(info, d.fd) {
				if cursorKind(o.Type()) != "" {
					roots[o] = i
				}
			}
			if len(roots) == 0 {
				continue
			}
			al := aliasesIn(info, d.fd.Body, roots)
			for _, s := range si.sitesIn(c, info, d.fd.Body, al, false) {
				k := scanKey{d.fn, s.idx}
				if _, ok := si.scans[k]; !ok {
					si.scans[k] = s.why
					changed = true
				}
			}
		}
	}
	return si
}

func returnsCursorType(sig *types.Signature) bool {
	for i := 0; i < sig.Results().Len(); i++ {
		if cursorKind(sig.Results().At(i).Type()) != "" {
			return true
		}
	}
	return false
}

func LazyCtor(c *core.Ctx, rule string, pkgs []*packages.Package) {
	c.Rule(rule, "a function whose result is an fp.Iterator/fp.List does not scan (loop over / hand to a scanning function) an Iterator/List parameter outside a function literal")
	si := computeScans(c, pkgs)
	var rows []string
	for k, why := range si.scans {
		rows = append(rows, funcFullName(k.fn)+"#"+itoa(k.idx+1)+": "+why)
	}
	sort.Strings(rows)
	c.Table(rule+".scanning_functions(param index, 0=receiver)", rows...)
	n := 0
	for _, p := range pkgs {
		for _, f := range p.Syntax {
			for _, d := range f.Decls {
				fd, ok := d.(*ast.FuncDecl)
				if !ok || fd.Body == nil {
					continue
				}
				fn, _ := p.TypesInfo.Defs[fd.Name].(*types.Func)
				if fn == nil || !returnsCursorType(fn.Type().(*types.Signature)) {
					continue
				}
				info := p.TypesInfo
				roots := map[types.Object]int{}
				for o, i := range paramObjs(info, fd) {
					if cursorKind(o.Type()) != "" {
						roots[o] = i
					}
				}
				if len(roots) == 0 {
					continue
				}
				n++
				al := aliasesIn(info, fd.Body, roots)
				sites := si.sitesIn(c, info, fd.Body, al, false)
				name := c.FuncName(p, fd)
				if len(sites) == 0 {
					c.Add(rule, name, fd.Pos(), core.Discharged, "no eager scan of a cursor parameter")
					continue
				}
				for _, s := range sites {
					c.Add(rule, name+"/"+s.obj.Name(), s.pos, core.Violated,
						"constructs a lazy "+cursorKind(fn.Type().(*types.Signature).Results().At(0).Type())+" but eagerly scans parameter "+s.obj.Name()+": "+s.why+" — does not terminate on an unbounded source")
				}
			}
		}
	}
	c.Floor(rule, "lazy constructors with a cursor parameter", n, 30)
}

// makeIteratorSites returns calls of fp.MakeIterator with their enclosing body.
type mkIterSite struct {
	fb   *fnBody
	call *ast.CallExpr
}

func makeIteratorSites(c *core.Ctx, pkgs []*packages.Package) []mkIterSite {
	var out []mkIterSite
	for _, fb := range funcBodies(c, pkgs) {
		if fb.Lit != nil {
			continue // literals are visited through their declaration (deep)
		}
		ast.Inspect(fb.Body, func(n ast.Node) bool {
			if call, ok := n.(*ast.CallExpr); ok {
				if funcIs(calleeOf(fb.Pkg.TypesInfo, call), "fp", "MakeIterator") && len(call.Args) == 2 {
					out = append(out, mkIterSite{fb, call})
				}
			}
			return true
		})
	}
	return out
}

// resolveLit resolves an expression to a function literal: the literal itself or a local
// variable assigned exactly once from a literal inside decl.
func resolveLit(info *types.Info, decl *ast.FuncDecl, e ast.Expr) *ast.FuncLit {
	e = ast.Unparen(e)
	if fl, ok := e.(*ast.FuncLit); ok {
		return fl
	}
	o := objOf(info, e)
	if o == nil || decl == nil {
		return nil
	}
	var found *ast.FuncLit
	count := 0
	ast.Inspect(decl.Body, func(n ast.Node) bool {
		if as, ok := n.(*ast.AssignStmt); ok && len(as.Lhs) == len(as.Rhs) {
			for i := range as.Lhs {
				if objOf(info, as.Lhs[i]) == o {
					count++
					if fl, ok := ast.Unparen(as.Rhs[i]).(*ast.FuncLit); ok {
						found = fl
					}
				}
			}
		}
		return true
	})
	if count == 1 {
		return found
	}
	return nil
}

func ReadAhead(c *core.Ctx, rule string, pkgs []*packages.Package) {
	c.Rule(rule, "the next function of an fp.MakeIterator site does not scan a captured iterator into captured state unless the element it returns derives from that scan")
	si := computeScans(c, pkgs)
	sites := makeIteratorSites(c, pkgs)
	nLit := 0
	for i, s := range sites {
		info := s.fb.Pkg.TypesInfo
		key := s.fb.Name + "/MakeIterator#" + itoa(siteOrdinal(sites, i))
		next := resolveLit(info, s.fb.Decl, s.call.Args[1])
		if next == nil {
			c.Add(rule, key, s.call.Pos(), core.Skipped, "next is not a function literal (method value / parameter)")
			continue
		}
		nLit++
		// every cursor-typed object not declared inside the literal is "captured"
		captured := map[types.Object]int{}
		ast.Inspect(next.Body, func(n ast.Node) bool {
			if id, ok := n.(*ast.Ident); ok {
				if o := info.Uses[id]; o != nil && cursorKind(o.Type()) != "" {
					if o.Pos() < next.Pos() || o.Pos() > next.End() {
						captured[o] = 0
					}
				}
			}
			return true
		})
		bad := false
		for _, sc := range si.sitesIn(c, info, next.Body, captured, false) {
			// find the statement holding the scan and whether it stores into a captured variable
			stmt, list := enclosingStmt(next.Body, sc.pos)
			as, isAssign := stmt.(*ast.AssignStmt)
			if _, isLoop := stmt.(*ast.ForStmt); isLoop {
				// a scan loop directly in next: legitimate only if it returns the element it finds; not armed
				continue
			}
			if !isAssign {
				continue
			}
			var target types.Object
			for _, l := range as.Lhs {
				if o := objOf(info, l); o != nil && (o.Pos() < next.Pos() || o.Pos() > next.End()) {
					target = o
				}
			}
			if target == nil {
				continue
			}
			// does a later return in the same statement list read target (directly or via locals assigned after)?
			derived := map[types.Object]bool{target: true}
			used := false
			after := false
			for _, st := range list {
				if st == stmt {
					after = true
					continue
				}
				if !after {
					continue
				}
				mentions := func(n ast.Node) bool {
					return nodeContains(n, true, func(x ast.Node) bool {
						id, ok := x.(*ast.Ident)
						return ok && derived[info.Uses[id]]
					})
				}
				switch t := st.(type) {
				case *ast.AssignStmt:
					for j, r := range t.Rhs {
						if mentions(r) && j < len(t.Lhs) {
							if o := objOf(info, t.Lhs[j]); o != nil {
								derived[o] = true
							}
						}
					}
				case *ast.ReturnStmt:
					if mentions(t) {
						used = true
					}
				default:
					if nodeContains(st, false, func(x ast.Node) bool { r, ok := x.(*ast.ReturnStmt); return ok && mentions(r) }) {
						used = true
					}
				}
			}
			if !used {
				bad = true
				c.Add(rule, key+"/"+target.Name(), sc.pos, core.Violated,
					"next() refills captured "+target.Name()+" by scanning "+sc.obj.Name()+" ("+sc.why+") after the element to return was already taken: unbounded look-ahead, hangs on an unbounded source with no further match")
			}
		}
		if !bad {
			c.Add(rule, key, s.call.Pos(), core.Discharged, "next() performs no read-ahead scan")
		}
	}
	c.Floor(rule, "MakeIterator sites with a literal next", nLit, 20)
}

func siteOrdinal(sites []mkIterSite, i int) int {
	n := 0
	for j := 0; j <= i; j++ {
		if sites[j].fb.Name == sites[i].fb.Name {
			n++
		}
	}
	return n
}

// enclosingStmt finds the innermost statement list element of body containing pos.
func enclosingStmt(body *ast.BlockStmt, pos token.Pos) (ast.Stmt, []ast.Stmt) {
	var best ast.Stmt
	var bestList []ast.Stmt
	var walk func(list []ast.Stmt)
	walk = func(list []ast.Stmt) {
		for _, st := range list {
			if st.Pos() <= pos && pos < st.End() {
				best, bestList = st, list
				ast.Inspect(st, func(n ast.Node) bool {
					switch b := n.(type) {
					case *ast.FuncLit:
						return false
					case *ast.BlockStmt:
						if b.Pos() <= pos && pos < b.End() {
							walk(b.List)
						}
						return false
					case *ast.CaseClause:
						if b.Pos() <= pos && pos < b.End() {
							walk(b.Body)
						}
						return false
					}
					return true
				})
				return
			}
		}
	}
	walk(body.List)
	return best, bestList
}

func StratLazy(c *core.Ctx, rule string, pkgs []*packages.Package) {
	c.Rule(rule, "a function returning fp.List or lazy.Eval refers to itself only inside a function literal (deferred through MakeList / lazy.Call / lazy.TailCall)")
	n, nself := 0, 0
	for _, p := range pkgs {
		info := p.TypesInfo
		for _, f := range p.Syntax {
			for _, d := range f.Decls {
				fd, ok := d.(*ast.FuncDecl)
				if !ok || fd.Body == nil {
					continue
				}
				fn, _ := info.Defs[fd.Name].(*types.Func)
				if fn == nil {
					continue
				}
				sig := fn.Type().(*types.Signature)
				lazyRes := false
				for i := 0; i < sig.Results().Len(); i++ {
					t := sig.Results().At(i).Type()
					if isNamed(t, "fp", "List") || isNamed(t, "lazy", "Eval") {
						lazyRes = true
					}
				}
				if !lazyRes {
					continue
				}
				n++
				name := c.FuncName(p, fd)
				var eager []token.Pos
				deferred := 0
				// identifiers in call position (f(…), f[A, B](…)): only a call recurses now; the function handed over as a
				// value (lazy.TailCall3(FoldRight[A, B], tail, zero, f)) is called later, by the trampoline
				called := map[*ast.Ident]bool{}
				ast.Inspect(fd.Body, func(x ast.Node) bool {
					if call, ok := x.(*ast.CallExpr); ok {
						f := ast.Unparen(call.Fun)
						switch ix := f.(type) {
						case *ast.IndexExpr:
							f = ast.Unparen(ix.X)
						case *ast.IndexListExpr:
							f = ast.Unparen(ix.X)
						}
						if id, ok := f.(*ast.Ident); ok {
							called[id] = true
						}
						if se, ok := f.(*ast.SelectorExpr); ok {
							called[se.Sel] = true
						}
					}
					return true
				})
				var walk func(n ast.Node, inLit bool)
				walk = func(nd ast.Node, inLit bool) {
					ast.Inspect(nd, func(x ast.Node) bool {
						if x == nil {
							return false
						}
						if fl, ok := x.(*ast.FuncLit); ok {
							walk(fl.Body, true)
							return false
						}
						if id, ok := x.(*ast.Ident); ok {
							if o, ok := info.Uses[id].(*types.Func); ok && o.Origin() == fn {
								if inLit || !called[id] {
									deferred++
								} else {
									eager = append(eager, id.Pos())
								}
							}
						}
						return true
					})
				}
				walk(fd.Body, false)
				if deferred+len(eager) > 0 {
					nself++
				}
				if len(eager) > 0 {
					c.Add(rule, name, eager[0], core.Violated, "refers to itself on the eager path (outside any function literal): construction recurses over the whole, possibly unbounded, source")
				} else {
					c.Add(rule, name, fd.Pos(), core.Discharged, "self-reference only inside function literals ("+itoa(deferred)+")")
				}
			}
		}
	}
	c.Floor(rule, "functions returning fp.List/lazy.Eval", n, 40)
	c.Floor(rule, "self-referential ones", nself, 8)
}
