package rules

import (
	"go/types"

	"fpcheck/core"
)

func init() {
	register("C20", "iterator protocol: structural clauses", func(c *core.Ctx) {
		NilGuard(c, "R-NILGUARD", func(t *types.Named) bool { return true })
	})
}
