package rules

import (
	"go/types"

	"fpcheck/core"

	"golang.org/x/tools/go/packages"
)

func init() {
	register("C20", "iterator protocol: zero-value, no fabricated elements, Duplicate locking", func(c *core.Ctx) {
		NilGuard(c, "R-NILGUARD", func(t *types.Named) bool { return isNamed(t, "fp", "Iterator") })
		fns := libFuncs(c)
		NoFab(c, "R-NOFAB", fns, 25)
		LockClosures(c, "R-LOCK", fns, 4)
		NextGuard(c, "R-NEXTGUARD", libPkgs(c))
		PanicSafeLock(c, "R-PANICSAFE", fns, 2)
		CacheGuard(c, "R-CACHEGUARD", libPkgs(c), 2)
		RawField(c, "R-RAWFIELD", c.Pkg("fp"), 2)
		SkipEmpty(c, "R-SKIPEMPTY", []*packages.Package{c.Pkg("fp"), c.Pkg("iterator")})
	})
}
