package rules

import (
	"fmt"
	"go/token"
	"go/types"
	"sort"
	"strings"

	"fpcheck/core"

	"golang.org/x/tools/go/ssa"
)

func init() {
	register("C04", "persistence: no API function writes memory reachable from its inputs", func(c *core.Ctx) {
		e := newOwnEngine(c)
		e.opaqueRecv = func(t types.Type) bool { return mutableParam(t) != "" }
		e.run()
		Own(c, "R-OWN", e)
		Handover(c, "R-HANDOVER", c.Pkg("immutable"))
	})
}

// mutableSurface: parameter types whose reachable memory is mutable by design (one line of reason each).
func mutableParam(t types.Type) string {
	switch {
	case isNamed(t, "fp", "Iterator"):
		return "fp.Iterator is a cursor: consuming it mutates captured cursor state by contract"
	case isNamed(t, "fp", "Promise"), isNamed(t, "fp", "Future"):
		return "Promise/Future status cell (judged by C05)"
	case isNamed(t, "immutable", "mapBuilder"), isNamed(t, "immutable", "setBuilder"):
		return "builder (judged by R-HANDOVER)"
	case isNamed(t, "fp", "pull"):
		return "pull iterator cursor state"
	case isNamed(t, "lazy", "Eval"):
		return "lazy.Eval thunks memoise (sync.Once cells)"
	}
	if n := namedOf(t); n != nil && n.Obj().Pkg() != nil {
		switch n.Obj().Pkg().Path() {
		case core.ModPath + "/mutable":
			return "package mutable is the explicitly mutable surface"
		case "bytes", "strings", "io", "bufio", "sync", "sync/atomic", "context", "net/http", "reflect", "testing":
			return "standard-library mutable object handed in by the caller"
		case core.ModPath + "/internal/atomic":
			return "atomic cell"
		}
	}
	return ""
}

func isAPIFunc(fn *ssa.Function) bool {
	if fn.Parent() != nil || !token.IsExported(fn.Name()) {
		return false
	}
	if recv := fn.Signature.Recv(); recv != nil {
		n := namedOf(recv.Type())
		if n == nil {
			return false
		}
		if !n.Obj().Exported() {
			// methods of unexported types count when the type implements an exported module interface (hamt → fp.MapBase)
			switch fn.Name() {
			case "Len", "Less", "Swap": // sort.Interface plumbing
				return false
			}
		}
	}
	return true
}

func Own(c *core.Ctx, rule string, e *ownEngine) {
	c.Rule(rule, "no exported function or method of the library (outside the mutable surface) may write — directly, through append/copy/sort/map update, or through a callee — an object reachable from one of its parameters, a global, or unknown memory; writes guarded by the trie's `mutable` flag count only where a caller passes true")
	lib := map[string]bool{}
	for _, p := range libPkgs(c) {
		rel := core.ShortPkg(p.PkgPath)
		if rel == "mutable" || rel == "reflectfp" || rel == "show" || strings.HasPrefix(rel, "internal") {
			continue // mutable: explicitly mutable; reflectfp: writes through reflect.Value by contract; show: append-style buffer API (Append(buf []string, …) like strconv.AppendInt); internal/*: not API
		}
		lib[p.PkgPath] = true
	}
	n := 0
	var fns []*ssa.Function
	for fn := range e.sums {
		fns = append(fns, fn)
	}
	sort.Slice(fns, func(i, j int) bool { return fns[i].Pos() < fns[j].Pos() })
	for _, fn := range fns {
		if fn.Pkg == nil || !lib[fn.Pkg.Pkg.Path()] || !isAPIFunc(fn) {
			continue
		}
		n++
		sum := e.sums[fn]
		name := fnName(fn)
		bad := 0
		var refs []srcRef
		for r := range sum.writes {
			refs = append(refs, r)
		}
		sort.Slice(refs, func(i, j int) bool { return refs[i].String() < refs[j].String() })
		for _, r := range refs {
			w := sum.writes[r]
			if w.g != 0 {
				continue // guarded by a bool parameter of the API function itself
			}
			what := ""
			switch r.kind {
			case kParam:
				if r.param >= len(fn.Params) {
					continue
				}
				p := fn.Params[r.param]
				if why := mutableParam(p.Type()); why != "" {
					continue
				}
				if apiContractWrites(fn, r) {
					continue
				}
				// a pointer receiver's own struct is the method's state, not an input value — except for persistent types
				what = fmt.Sprintf("memory reachable from parameter %s (%s)", p.Name(), r)
			case kGlobal:
				what = "a package-level variable"
			case kUnknown:
				what = "memory of unknown origin (loaded from a shared cell or returned by an unresolved call)"
			case kCB:
				what = "a value returned by a user call-back"
			default:
				continue
			}
			bad++
			c.Add(rule, name+"/"+r.String(), w.pos, core.Violated, name+" writes "+what+" via "+w.how)
		}
		if bad == 0 {
			c.Add(rule, name, fn.Pos(), core.Discharged, "writes only fresh objects / the mutable surface")
		}
	}
	var ro []string
	for k := range e.assumedRO {
		ro = append(ro, k)
	}
	sort.Strings(ro)
	c.Table(rule+".assumed_readonly_externals", ro...)
	c.Floor(rule, "API functions judged", n, 800)
}

// apiContractWrites: writes that are the documented contract of a Go interface the method implements.
func apiContractWrites(fn *ssa.Function, r srcRef) bool {
	sig := fn.Signature
	// encoding/json.Unmarshaler (and friends): the pointer receiver is the decode target
	if sig.Recv() != nil && r.param == 0 && r.path == "" {
		if _, isPtr := sig.Recv().Type().(*types.Pointer); isPtr {
			switch fn.Name() {
			case "UnmarshalJSON", "UnmarshalText", "UnmarshalBinary", "Scan":
				return true
			}
		}
	}
	// append-style buffer API (strconv.AppendInt convention): Append*(…, buf []T, …) []T returns the grown buffer
	if strings.HasPrefix(fn.Name(), "Append") && r.path == "" && sig.Results().Len() == 1 {
		if r.param < len(fn.Params) {
			pt := fn.Params[r.param].Type()
			if _, isSlice := pt.Underlying().(*types.Slice); isSlice && types.Identical(pt, sig.Results().At(0).Type()) {
				return true
			}
		}
	}
	return false
}
