package rules

// R-NOFAB (C20): the next function of an fp.MakeIterator site never returns a fabricated zero value.

import (
	"go/constant"
	"go/token"
	"go/types"

	"fpcheck/core"

	"golang.org/x/tools/go/ssa"
)

// resolveFuncValue resolves an SSA value to the function it denotes (literal, declared function, bound method).
func resolveFuncValue(v ssa.Value) *ssa.Function {
	switch x := v.(type) {
	case *ssa.MakeClosure:
		if f, ok := x.Fn.(*ssa.Function); ok {
			if f.Synthetic != "" && len(f.Blocks) > 0 { // bound method wrapper: find the wrapped call
				for _, b := range f.Blocks {
					for _, ins := range b.Instrs {
						if c, ok := ins.(*ssa.Call); ok {
							if cal := c.Call.StaticCallee(); cal != nil {
								if o := cal.Origin(); o != nil {
									return o
								}
								return cal
							}
						}
					}
				}
			}
			return f
		}
	case *ssa.Function:
		return x
	case *ssa.ChangeType:
		return resolveFuncValue(x.X)
	case *ssa.UnOp:
		// load of a local holding a single closure: *alloc where the only store is a closure
		if x.Op == token.MUL {
			if a, ok := x.X.(*ssa.Alloc); ok {
				var only ssa.Value
				cnt := 0
				for _, r := range *a.Referrers() {
					if st, ok := r.(*ssa.Store); ok && st.Addr == a {
						cnt++
						only = st.Val
					}
				}
				if cnt == 1 {
					return resolveFuncValue(only)
				}
			}
		}
	}
	return nil
}

func isZeroSSAConst(c *ssa.Const) bool {
	if c.Value == nil {
		return true
	}
	switch c.Value.Kind() {
	case constant.Int, constant.Float, constant.Complex:
		return constant.Sign(c.Value) == 0
	case constant.String:
		return constant.StringVal(c.Value) == ""
	case constant.Bool:
		return !constant.BoolVal(c.Value)
	}
	return false
}

// fabricated reports whether v is a zero value made up on the spot.
func fabricated(v ssa.Value, seen map[ssa.Value]bool) (bool, string) {
	if seen[v] {
		return false, ""
	}
	seen[v] = true
	switch x := v.(type) {
	case *ssa.Const:
		if isZeroSSAConst(x) {
			return true, "the zero value " + x.String()
		}
	case *ssa.Call:
		if callee := calleeFunc(&x.Call); callee != nil && funcIs(callee, "fp", "Zero") {
			return true, "fp.Zero"
		}
	case *ssa.Phi:
		for _, e := range x.Edges {
			if f, why := fabricated(e, seen); f {
				return true, why
			}
		}
	case *ssa.UnOp:
		if x.Op == token.MUL {
			if a, ok := x.X.(*ssa.Alloc); ok {
				stores := 0
				for _, r := range *a.Referrers() {
					if st, ok := r.(*ssa.Store); ok && st.Addr == a {
						stores++
					}
				}
				if stores == 0 && len(*a.Referrers()) > 0 {
					onlyLoads := true
					for _, r := range *a.Referrers() {
						if u, ok := r.(*ssa.UnOp); !ok || u.Op != token.MUL {
							onlyLoads = false
						}
					}
					if onlyLoads {
						return true, "an unassigned zero-initialised local (" + a.Comment + ")"
					}
				}
			}
		}
	case *ssa.ChangeType:
		return fabricated(x.X, seen)
	case *ssa.MakeInterface:
		return false, ""
	}
	return false, ""
}

func NoFab(c *core.Ctx, rule string, fns []*ssa.Function, floor int) {
	c.Rule(rule, "the next function handed to fp.MakeIterator never returns a fabricated zero value (zero constant, fp.Zero, unassigned local): an exhausted iterator must panic or delegate, not invent an element")
	n := 0
	perFn := map[string]int{}
	for _, fn := range fns {
		for _, b := range fn.Blocks {
			for _, ins := range b.Instrs {
				call, ok := ins.(*ssa.Call)
				if !ok {
					continue
				}
				callee := calleeFunc(&call.Call)
				if callee == nil || !funcIs(callee, "fp", "MakeIterator") || len(call.Call.Args) != 2 {
					continue
				}
				perFn[fnName(fn)]++
				key := fnName(fn) + "/MakeIterator#" + itoa(perFn[fnName(fn)])
				next := resolveFuncValue(call.Call.Args[1])
				if next == nil || len(next.Blocks) == 0 {
					c.Add(rule, key, instrPos(ins), core.Skipped, "next does not resolve to a function body")
					continue
				}
				n++
				bad := false
				hasPanicOrDelegate := false
				for _, nb := range next.Blocks {
					for _, ni := range nb.Instrs {
						switch y := ni.(type) {
						case *ssa.Panic:
							hasPanicOrDelegate = true
						case *ssa.Call:
							hasPanicOrDelegate = true
							_ = y
						case *ssa.Return:
							for _, r := range y.Results {
								if f, why := fabricated(r, map[ssa.Value]bool{}); f {
									bad = true
									c.Add(rule, key+"/return", instrPos(ni), core.Violated,
										"next() of this iterator returns "+why+": an exhausted iterator fabricates an element instead of panicking")
								}
							}
						}
					}
				}
				if !bad {
					if !hasPanicOrDelegate {
						if _, isTP := next.Signature.Results().At(0).Type().(*types.TypeParam); isTP {
							c.Add(rule, key, instrPos(ins), core.Violated, "next() neither panics nor delegates to another function: it cannot signal exhaustion")
							continue
						}
					}
					c.Add(rule, key, instrPos(ins), core.Discharged, "no fabricated return in "+fnName(next))
				}
			}
		}
	}
	c.Floor(rule, "MakeIterator sites with a resolved next", n, floor)
}
