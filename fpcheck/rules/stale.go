package rules

// R-STALE — state is affine in StateT bodies.
//
// In every function literal of shape func(s S) (fp.Try[_], S): once a newer state
// ns has been produced by running a StateT-shaped function on a state variable v
// (st(v), st.Run(v), f(x)(v)), v is dead: any use of v at a program point reachable
// from that run (as handler argument, as returned state, as input to another run)
// uses a stale state.

import (
	"go/ast"
	"go/token"
	"go/types"

	"fpcheck/core"

	"golang.org/x/tools/go/cfg"
	"golang.org/x/tools/go/packages"
)

// stateShape reports whether sig is func(S) (fp.Try[_], S) and returns S.
func stateShape(sig *types.Signature) types.Type {
	if sig == nil || sig.Params().Len() != 1 || sig.Results().Len() != 2 {
		return nil
	}
	s := sig.Params().At(0).Type()
	if !isNamed(sig.Results().At(0).Type(), "fp", "Try") {
		return nil
	}
	if !types.Identical(s, sig.Results().At(1).Type()) {
		return nil
	}
	return s
}

func Stale(c *core.Ctx, rule string, pkgs []*packages.Package, floorLits, floorRuns int) {
	c.Rule(rule, "in every func(S)(Try[_],S) literal, a state variable that was fed to a StateT run is not used at any point reachable from that run (handlers, later runs and the returned state see the newest state)")
	nLit, nRun := 0, 0
	for _, fb := range funcBodies(c, pkgs) {
		if fb.Lit == nil {
			continue
		}
		info := fb.Pkg.TypesInfo
		tv, ok := info.Types[fb.Lit]
		if !ok {
			continue
		}
		sig, _ := tv.Type.Underlying().(*types.Signature)
		S := stateShape(sig)
		if S == nil || len(fb.Lit.Type.Params.List) != 1 || len(fb.Lit.Type.Params.List[0].Names) != 1 {
			continue
		}
		nLit++
		g := newCFG(c, fb)
		// locate runs: call whose Fun has a state-shaped function type and whose single argument is an identifier of type S
		type run struct {
			blk  *cfg.Block
			idx  int
			call *ast.CallExpr
			arg  types.Object
		}
		var runs []run
		for _, b := range g.Blocks {
			for i, nd := range b.Nodes {
				inspectShallow(nd, func(x ast.Node) bool {
					call, ok := x.(*ast.CallExpr)
					if !ok || len(call.Args) != 1 {
						return true
					}
					var fsig *types.Signature
					if ftv, ok := info.Types[call.Fun]; ok {
						fsig, _ = ftv.Type.Underlying().(*types.Signature)
					}
					if sel, ok := ast.Unparen(call.Fun).(*ast.SelectorExpr); ok && sel.Sel.Name == "Run" {
						if rtv, ok := info.Types[sel.X]; ok && isNamed(rtv.Type, "fp", "StateT") {
							fsig, _ = rtv.Type.Underlying().(*types.Signature)
						}
					}
					if stateShape(fsig) == nil {
						return true
					}
					if o := objOf(info, call.Args[0]); o != nil && types.Identical(o.Type(), S) {
						runs = append(runs, run{b, i, call, o})
					}
					return true
				})
			}
		}
		for k, r := range runs {
			nRun++
			key := fb.Name + "/run#" + itoa(k+1) + ":" + exprString(r.call.Fun) + "(" + r.arg.Name() + ")"
			// uses of r.arg reachable after the run
			var bad ast.Node
			useIn := func(nd ast.Node) bool {
				return nodeContains(nd, true, func(x ast.Node) bool {
					id, ok := x.(*ast.Ident)
					if !ok || info.Uses[id] != r.arg {
						return false
					}
					// the argument of the run itself is the consumption; every other occurrence — including inside a
					// literal that is part of the StateT being run (it executes during the run) — is a later use
					return !(id.Pos() >= r.call.Args[0].Pos() && id.End() <= r.call.Args[0].End())
				})
			}
			// `x, s = st(s)`: the statement that runs on s also rebinds s to the state the run produced — from here on s
			// *is* the newest state
			if as, ok := r.blk.Nodes[r.idx].(*ast.AssignStmt); ok {
				rebinds := false
				for _, l := range as.Lhs {
					if objOf(info, l) == r.arg {
						rebinds = true
					}
				}
				if rebinds {
					c.Add(rule, key, r.call.Pos(), core.Discharged, "the run's own assignment rebinds "+r.arg.Name()+" to the new state")
					continue
				}
			}
			// same node as the run: uses outside the call expression, e.g. `return st(s), s`... evaluated left to right; treat as stale too
			if useIn(r.blk.Nodes[r.idx]) {
				bad = r.blk.Nodes[r.idx]
			}
			for i := r.idx + 1; i < len(r.blk.Nodes) && bad == nil; i++ {
				if useIn(r.blk.Nodes[i]) {
					bad = r.blk.Nodes[i]
				}
			}
			seen := map[*cfg.Block]bool{}
			var walk func(b *cfg.Block)
			walk = func(b *cfg.Block) {
				if seen[b] || bad != nil {
					return
				}
				seen[b] = true
				for _, nd := range b.Nodes {
					if b == r.blk && nd == r.blk.Nodes[r.idx] {
						continue
					}
					if useIn(nd) {
						bad = nd
						return
					}
				}
				for _, s := range b.Succs {
					walk(s)
				}
			}
			for _, s := range r.blk.Succs {
				walk(s)
			}
			if bad != nil {
				c.Add(rule, key, bad.Pos(), core.Violated,
					"state "+r.arg.Name()+" was consumed by "+exprString(r.call)+" but is used again afterwards in `"+nodeString(c, bad)+"`: a stale (pre-run) state reaches a handler, a later step or the result")
			} else {
				c.Add(rule, key, r.call.Pos(), core.Discharged, "state "+r.arg.Name()+" not used after the run")
			}
		}
		if len(runs) == 0 {
			c.Add(rule, fb.Name, fb.Lit.Pos(), core.Discharged, "state-shaped literal without a run")
		}
	}
	c.Floor(rule, "state-shaped literals", nLit, floorLits)
	c.Floor(rule, "StateT runs inside them", nRun, floorRuns)
}

func nodeString(c *core.Ctx, n ast.Node) string {
	switch x := n.(type) {
	case ast.Expr:
		return exprString(x)
	case *ast.ReturnStmt:
		s := "return"
		for i, r := range x.Results {
			if i > 0 {
				s += ","
			}
			s += " " + exprString(r)
		}
		return s
	case *ast.AssignStmt:
		s := ""
		for i, l := range x.Lhs {
			if i > 0 {
				s += ", "
			}
			s += exprString(l)
		}
		s += " " + x.Tok.String() + " "
		for i, r := range x.Rhs {
			if i > 0 {
				s += ", "
			}
			s += exprString(r)
		}
		return s
	case *ast.ExprStmt:
		return exprString(x.X)
	}
	return c.RelPos(n.Pos())
}

// FailStop — R-FAILSTOP: a failed step stops the program.
//
// In every func(S)(Try[_],S) literal: when the Try result r of one run (r, ns := st(s)) is followed by another run
// on some path, that path passes a condition that examines r. Otherwise the later step also runs after a failure,
// its effects happen and the reported state is not the state at the point of failure.
func FailStop(c *core.Ctx, rule string, pkgs []*packages.Package, floorPairs int) {
	c.Rule(rule, "in every func(S)(Try[_],S) literal, every path from one StateT run to a later run passes a condition that examines the first run's Try result (a success/failure test): when a step fails, later steps do not run")
	nPairs := 0
	for _, fb := range funcBodies(c, pkgs) {
		if fb.Lit == nil {
			continue
		}
		info := fb.Pkg.TypesInfo
		tv, ok := info.Types[fb.Lit]
		if !ok {
			continue
		}
		sig, _ := tv.Type.Underlying().(*types.Signature)
		S := stateShape(sig)
		if S == nil {
			continue
		}
		g := newCFG(c, fb)
		type run struct {
			blk   *cfg.Block
			idx   int
			call  *ast.CallExpr
			res   types.Object // Try result variable (nil: not bound)
			bound bool
		}
		var runs []run
		isRun := func(call *ast.CallExpr) bool {
			if len(call.Args) != 1 {
				return false
			}
			var fsig *types.Signature
			if ftv, ok := info.Types[call.Fun]; ok {
				fsig, _ = ftv.Type.Underlying().(*types.Signature)
			}
			if sel, ok := ast.Unparen(call.Fun).(*ast.SelectorExpr); ok && sel.Sel.Name == "Run" {
				if rtv, ok := info.Types[sel.X]; ok && isNamed(rtv.Type, "fp", "StateT") {
					fsig, _ = rtv.Type.Underlying().(*types.Signature)
				}
			}
			if stateShape(fsig) == nil {
				return false
			}
			atv, ok := info.Types[call.Args[0]]
			return ok && types.Identical(atv.Type, S)
		}
		for _, b := range g.Blocks {
			for i, nd := range b.Nodes {
				inspectShallow(nd, func(x ast.Node) bool {
					call, ok := x.(*ast.CallExpr)
					if !ok || !isRun(call) {
						return true
					}
					r := run{blk: b, idx: i, call: call}
					if as, ok := nd.(*ast.AssignStmt); ok && len(as.Lhs) == 2 && len(as.Rhs) == 1 && ast.Unparen(as.Rhs[0]) == ast.Expr(call) {
						r.bound = true
						r.res = objOf(info, as.Lhs[0])
					}
					runs = append(runs, r)
					return true
				})
			}
		}
		if len(runs) < 2 {
			continue
		}
		mentions := func(nd ast.Node, o types.Object) bool {
			return o != nil && nodeContains(nd, true, func(x ast.Node) bool {
				id, ok := x.(*ast.Ident)
				return ok && info.Uses[id] == o
			})
		}
		containsRun := func(nd ast.Node, r run) bool {
			return nodeContains(nd, true, func(x ast.Node) bool { return x == ast.Node(r.call) })
		}
		for i, r1 := range runs {
			if !r1.bound {
				continue // the run is the tail of the function (return st(s)): nothing follows
			}
			// unguarded reachability from just after r1
			reached := map[int]bool{}
			seen := map[*cfg.Block]bool{}
			var scan func(b *cfg.Block, from int)
			scan = func(b *cfg.Block, from int) {
				for k := from; k < len(b.Nodes); k++ {
					nd := b.Nodes[k]
					if _, isStmt := nd.(ast.Stmt); !isStmt && mentions(nd, r1.res) {
						return // a condition examining the result guards everything beyond
					}
					for j, r2 := range runs {
						if j != i && containsRun(nd, r2) && !mentions(r2.call.Fun, r1.res) {
							// (a later step built from the result itself — f(r)(ns) — hands the Try to the continuation, which decides)
							reached[j] = true
						}
					}
				}
				for _, s := range b.Succs {
					if !seen[s] {
						seen[s] = true
						scan(s, 0)
					}
				}
			}
			scan(r1.blk, r1.idx+1)
			for j := range runs {
				if !reached[j] {
					continue
				}
				nPairs++
				c.Add(rule, fb.Name+"/run#"+itoa(i+1)+">run#"+itoa(j+1), runs[j].call.Pos(), core.Violated,
					"`"+exprString(runs[j].call)+"` is reachable from `"+exprString(r1.call)+"` without any test of that step's result: after a failed step the next step still runs (its effects happen, and the state returned is not the state at the point of failure)")
			}
			// guarded pairs (for the count): runs reachable at all
			seen2 := map[*cfg.Block]bool{}
			var all func(b *cfg.Block, from int)
			all = func(b *cfg.Block, from int) {
				for k := from; k < len(b.Nodes); k++ {
					for j, r2 := range runs {
						if j != i && containsRun(b.Nodes[k], r2) && !reached[j] {
							reached[j] = true // reuse as "reported"
							nPairs++
							c.Add(rule, fb.Name+"/run#"+itoa(i+1)+">run#"+itoa(j+1), r2.call.Pos(), core.Discharged, "the later run is behind a test of (or is built from) "+func() string {
								if r1.res != nil {
									return r1.res.Name()
								}
								return "the result"
							}())
						}
					}
				}
				for _, s := range b.Succs {
					if !seen2[s] {
						seen2[s] = true
						all(s, 0)
					}
				}
			}
			all(r1.blk, r1.idx+1)
		}
	}
	c.Floor(rule, "ordered pairs of runs in one state function", nPairs, floorPairs)
}

// FailState — R-FAILSTATE: the state reported with a failure is a state, not the payload of the failed step.
//
// A StateT step whose new state is the payload of a Try (ModifyT: f(s) is a Try[S]) may return that payload as the
// state only where the Try is known to be a success. On the failure side the payload is the zero value (Unapply) or
// absent (Get panics): returning it loses "the state at the point of failure".
func FailState(c *core.Ctx, rule string, pkgs []*packages.Package, floor int) {
	c.Rule(rule, "in every func(S)(Try[_],S) literal, a returned state that is the payload of a Try (x of `x, err := t.Unapply()`, or t.Get()) is returned only on paths that passed the success edge of a test of that Try (err == nil / t.IsSuccess()); every other return reports a state variable")
	nRet := 0
	for _, fb := range funcBodies(c, pkgs) {
		if fb.Lit == nil {
			continue
		}
		info := fb.Pkg.TypesInfo
		tv, ok := info.Types[fb.Lit]
		if !ok {
			continue
		}
		sig, _ := tv.Type.Underlying().(*types.Signature)
		if stateShape(sig) == nil {
			continue
		}
		g := newCFG(c, fb)
		// payload bindings
		type payload struct {
			val   types.Object // x (Unapply) — nil for the Get form
			test  types.Object // err, or the Try variable
			isErr bool
			blk   *cfg.Block
			idx   int
		}
		var pls []payload
		tryVars := map[types.Object]bool{}
		for _, b := range g.Blocks {
			for i, nd := range b.Nodes {
				as, ok := nd.(*ast.AssignStmt)
				if !ok {
					continue
				}
				if len(as.Lhs) == 2 && len(as.Rhs) == 1 {
					if call, ok := ast.Unparen(as.Rhs[0]).(*ast.CallExpr); ok && len(call.Args) == 0 {
						if sel, ok := ast.Unparen(call.Fun).(*ast.SelectorExpr); ok && sel.Sel.Name == "Unapply" {
							if rtv, ok := info.Types[sel.X]; ok && isNamed(rtv.Type, "fp", "Try") {
								pls = append(pls, payload{val: objOf(info, as.Lhs[0]), test: objOf(info, as.Lhs[1]), isErr: true, blk: b, idx: i})
							}
						}
					}
				}
				if len(as.Lhs) == 1 && len(as.Rhs) == 1 {
					if o := objOf(info, as.Lhs[0]); o != nil && isNamed(o.Type(), "fp", "Try") {
						if !tryVars[o] {
							tryVars[o] = true
							pls = append(pls, payload{test: o, blk: b, idx: i})
						}
					}
				}
			}
		}
		// state results of the returns
		mentionsPayload := func(e ast.Expr, p payload) bool {
			return nodeContains(e, true, func(x ast.Node) bool {
				if p.isErr {
					id, ok := x.(*ast.Ident)
					return ok && p.val != nil && info.Uses[id] == p.val
				}
				call, ok := x.(*ast.CallExpr)
				if !ok || len(call.Args) != 0 {
					return false
				}
				sel, ok := ast.Unparen(call.Fun).(*ast.SelectorExpr)
				return ok && sel.Sel.Name == "Get" && objOf(info, sel.X) == p.test
			})
		}
		// successEdge(cond): 0 = the true successor is the success side, 1 = the false successor, -1 = not a test of p
		successEdge := func(cond ast.Expr, p payload) int {
			cond = ast.Unparen(cond)
			if p.isErr {
				if be, ok := cond.(*ast.BinaryExpr); ok && (be.Op == token.EQL || be.Op == token.NEQ) {
					x, y := ast.Unparen(be.X), ast.Unparen(be.Y)
					if isNilIdent(info, x) {
						x, y = y, x
					}
					if isNilIdent(info, y) && objOf(info, x) == p.test && p.test != nil {
						if be.Op == token.EQL {
							return 0
						}
						return 1
					}
				}
				return -1
			}
			if m, pol, ok := successTest(info, cond); ok && m == p.test {
				if pol {
					return 0
				}
				return 1
			}
			return -1
		}
		k := 0
		for _, p := range pls {
			// is there any return using this payload as the state?
			type hit struct{ ret *ast.ReturnStmt }
			var bad *ast.ReturnStmt
			seen := map[*cfg.Block]bool{}
			any := false
			var scan func(b *cfg.Block, from int)
			scan = func(b *cfg.Block, from int) {
				if bad != nil {
					return
				}
				for i := from; i < len(b.Nodes); i++ {
					if ret, ok := b.Nodes[i].(*ast.ReturnStmt); ok && len(ret.Results) == 2 && mentionsPayload(ret.Results[1], p) {
						bad = ret
						return
					}
				}
				edge := -1
				if len(b.Succs) == 2 && len(b.Nodes) > 0 {
					if e, ok := b.Nodes[len(b.Nodes)-1].(ast.Expr); ok {
						edge = successEdge(e, p)
					}
				}
				for si, s := range b.Succs {
					if edge >= 0 && si == edge {
						continue // success established beyond this edge
					}
					if !seen[s] {
						seen[s] = true
						scan(s, 0)
					}
				}
			}
			// does any return use the payload at all?
			ast.Inspect(fb.Lit.Body, func(x ast.Node) bool {
				if ret, ok := x.(*ast.ReturnStmt); ok && len(ret.Results) == 2 && mentionsPayload(ret.Results[1], p) {
					any = true
				}
				return true
			})
			if !any {
				continue
			}
			k++
			nRet++
			key := fb.Name + "/payload#" + itoa(k)
			scan(p.blk, p.idx+1)
			if bad != nil {
				what := "the Try's payload"
				if p.val != nil {
					what = p.val.Name()
				}
				c.Add(rule, key, bad.Pos(), core.Violated, "`"+nodeString(c, bad)+"` reports "+what+" as the state on a path where the step has not been shown to succeed: after a failure the payload is the zero value, not the state at the point of failure (every Recover* then hands its handler that zero state)")
			} else {
				c.Add(rule, key, fb.Lit.Pos(), core.Discharged, "payload used as state only behind the success edge")
			}
		}
	}
	c.Floor(rule, "state results taken from a Try payload", nRet, floor)
}

// RunOnce — R-RUNONCE: a StateT method runs its receiver once.
//
// The receiver of a StateT method is a computation. Recover*, Map*, FlatMap* … run it exactly once per run of the
// result: referring to it from a handler / continuation literal (returning it as "the original result") or running it
// twice executes the failed step again — its effects happen twice and the error reported is the second run's.
func RunOnce(c *core.Ctx, rule string, p *packages.Package, floor int) {
	c.Rule(rule, "in every method of fp.StateT the receiver is referred to only (a) in the method body itself (delegation to another method, at most one run) or (b) inside a func(S)(Try[_],S) literal, where it is run at most once on any path; it never appears inside a handler / continuation literal of another shape")
	info := p.TypesInfo
	n := 0
	for _, fb := range funcBodies(c, []*packages.Package{p}) {
		if fb.Lit != nil || fb.Decl == nil || fb.Decl.Recv == nil || len(fb.Decl.Recv.List) != 1 || len(fb.Decl.Recv.List[0].Names) != 1 {
			continue
		}
		recv := info.Defs[fb.Decl.Recv.List[0].Names[0]]
		if recv == nil || !isNamed(recv.Type(), "fp", "StateT") {
			continue
		}
		n++
		var bad ast.Node
		why := ""
		var walk func(nd ast.Node, inState, inOther bool)
		walk = func(nd ast.Node, inState, inOther bool) {
			ast.Inspect(nd, func(x ast.Node) bool {
				if bad != nil {
					return false
				}
				if fl, ok := x.(*ast.FuncLit); ok && ast.Node(fl) != nd {
					shape := false
					if tv, ok := info.Types[fl]; ok {
						if sig, ok := tv.Type.Underlying().(*types.Signature); ok && stateShape(sig) != nil {
							shape = true
						}
					}
					if shape {
						// count runs of the receiver in this state function
						runs := 0
						ast.Inspect(fl.Body, func(y ast.Node) bool {
							call, ok := y.(*ast.CallExpr)
							if !ok {
								return true
							}
							if objOf(info, call.Fun) == recv {
								runs++
							}
							if sel, ok := ast.Unparen(call.Fun).(*ast.SelectorExpr); ok && sel.Sel.Name == "Run" && objOf(info, sel.X) == recv {
								runs++
							}
							return true
						})
						if runs > 1 {
							bad, why = fl, "runs the receiver "+itoa(runs)+" times inside one state function"
							return false
						}
						walk(fl.Body, true, inOther)
					} else {
						walk(fl.Body, inState, true)
					}
					return false
				}
				if id, ok := x.(*ast.Ident); ok && info.Uses[id] == recv && inOther {
					bad, why = id, "refers to the receiver "+recv.Name()+" inside a handler / continuation literal"
				}
				return true
			})
		}
		walk(fb.Body, false, false)
		if bad != nil {
			c.Add(rule, fb.Name, bad.Pos(), core.Violated, fb.Name+" "+why+": the receiver's computation is executed again (its state effects happen twice, and the error and state reported are those of the second run, not of the step that failed)")
		} else {
			c.Add(rule, fb.Name, fb.Decl.Pos(), core.Discharged, "receiver run at most once")
		}
	}
	c.Floor(rule, "StateT methods", n, floor)
}

// Rerunnable — R-RERUNNABLE: a StateT is a value that can be run any number of times.
//
// A func(S)(Try[_],S) literal that pulls from an fp.Iterator captured from the enclosing function consumes it on its
// first run: the second run of the same StateT (a retry, a Traverse that uses it for several elements, Sequence of the
// same value twice) sees an exhausted iterator and silently computes something else.
func Rerunnable(c *core.Ctx, rule string, pkgs []*packages.Package, floor int) {
	c.Rule(rule, "no func(S)(Try[_],S) literal calls a method of an fp.Iterator that is captured from the enclosing function (a one-shot cursor): the iterator is drained when the StateT is built, or converted to a persistent sequence first, so that every run of the StateT computes the same program")
	n := 0
	for _, fb := range funcBodies(c, pkgs) {
		if fb.Lit == nil {
			continue
		}
		info := fb.Pkg.TypesInfo
		tv, ok := info.Types[fb.Lit]
		if !ok {
			continue
		}
		sig, _ := tv.Type.Underlying().(*types.Signature)
		if stateShape(sig) == nil {
			continue
		}
		n++
		var bad *ast.CallExpr
		var cur types.Object
		ast.Inspect(fb.Lit.Body, func(x ast.Node) bool {
			call, ok := x.(*ast.CallExpr)
			if !ok || bad != nil {
				return true
			}
			sel, ok := ast.Unparen(call.Fun).(*ast.SelectorExpr)
			if !ok {
				return true
			}
			o, ok := objOf(info, sel.X).(*types.Var)
			if !ok || cursorKind(o.Type()) != "Iterator" {
				return true
			}
			if o.Pos() >= fb.Lit.Pos() && o.Pos() <= fb.Lit.End() {
				return true // created inside the run: fresh every time
			}
			bad, cur = call, o
			return true
		})
		if bad != nil {
			c.Add(rule, fb.Name, bad.Pos(), core.Violated, "the state function calls "+exprString(bad.Fun)+" on "+cur.Name()+", an iterator captured from the enclosing function: the first run consumes it, every later run of the same StateT sees it exhausted and returns a different result")
		} else {
			c.Add(rule, fb.Name, fb.Lit.Pos(), core.Discharged, "no captured one-shot cursor is consumed by the state function")
		}
	}
	c.Floor(rule, "state-shaped literals", n, floor)
}
