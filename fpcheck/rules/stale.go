package rules

// R-STALE — state is affine in StateT bodies.
//
// In every function literal of shape func(s S) (fp.Try[_], S): once a newer state
// ns has been produced by running a StateT-shaped function on a state variable v
// (st(v), st.Run(v), f(x)(v)), v is dead: any use of v at a program point reachable
// from that run (as handler argument, as returned state, as input to another run)
// uses a stale state.

import (
	"go/ast"
	"go/types"

	"fpcheck/core"

	"golang.org/x/tools/go/cfg"
	"golang.org/x/tools/go/packages"
)

// stateShape reports whether sig is func(S) (fp.Try[_], S) and returns S.
func stateShape(sig *types.Signature) types.Type {
	if sig == nil || sig.Params().Len() != 1 || sig.Results().Len() != 2 {
		return nil
	}
	s := sig.Params().At(0).Type()
	if !isNamed(sig.Results().At(0).Type(), "fp", "Try") {
		return nil
	}
	if !types.Identical(s, sig.Results().At(1).Type()) {
		return nil
	}
	return s
}

func Stale(c *core.Ctx, rule string, pkgs []*packages.Package, floorLits, floorRuns int) {
	c.Rule(rule, "in every func(S)(Try[_],S) literal, a state variable that was fed to a StateT run is not used at any point reachable from that run (handlers, later runs and the returned state see the newest state)")
	nLit, nRun := 0, 0
	for _, fb := range funcBodies(c, pkgs) {
		if fb.Lit == nil {
			continue
		}
		info := fb.Pkg.TypesInfo
		tv, ok := info.Types[fb.Lit]
		if !ok {
			continue
		}
		sig, _ := tv.Type.Underlying().(*types.Signature)
		S := stateShape(sig)
		if S == nil || len(fb.Lit.Type.Params.List) != 1 || len(fb.Lit.Type.Params.List[0].Names) != 1 {
			continue
		}
		nLit++
		g := newCFG(c, fb)
		// locate runs: call whose Fun has a state-shaped function type and whose single argument is an identifier of type S
		type run struct {
			blk  *cfg.Block
			idx  int
			call *ast.CallExpr
			arg  types.Object
		}
		var runs []run
		for _, b := range g.Blocks {
			for i, nd := range b.Nodes {
				inspectShallow(nd, func(x ast.Node) bool {
					call, ok := x.(*ast.CallExpr)
					if !ok || len(call.Args) != 1 {
						return true
					}
					var fsig *types.Signature
					if ftv, ok := info.Types[call.Fun]; ok {
						fsig, _ = ftv.Type.Underlying().(*types.Signature)
					}
					if sel, ok := ast.Unparen(call.Fun).(*ast.SelectorExpr); ok && sel.Sel.Name == "Run" {
						if rtv, ok := info.Types[sel.X]; ok && isNamed(rtv.Type, "fp", "StateT") {
							fsig, _ = rtv.Type.Underlying().(*types.Signature)
						}
					}
					if stateShape(fsig) == nil {
						return true
					}
					if o := objOf(info, call.Args[0]); o != nil && types.Identical(o.Type(), S) {
						runs = append(runs, run{b, i, call, o})
					}
					return true
				})
			}
		}
		for k, r := range runs {
			nRun++
			key := fb.Name + "/run#" + itoa(k+1) + ":" + exprString(r.call.Fun) + "(" + r.arg.Name() + ")"
			// uses of r.arg reachable after the run
			var bad ast.Node
			useIn := func(nd ast.Node) bool {
				return nodeContains(nd, true, func(x ast.Node) bool {
					id, ok := x.(*ast.Ident)
					if !ok || info.Uses[id] != r.arg {
						return false
					}
					// the argument of the run itself is the consumption; every other occurrence — including inside a
					// literal that is part of the StateT being run (it executes during the run) — is a later use
					return !(id.Pos() >= r.call.Args[0].Pos() && id.End() <= r.call.Args[0].End())
				})
			}
			// same node as the run: uses outside the call expression, e.g. `return st(s), s`... evaluated left to right; treat as stale too
			if useIn(r.blk.Nodes[r.idx]) {
				bad = r.blk.Nodes[r.idx]
			}
			for i := r.idx + 1; i < len(r.blk.Nodes) && bad == nil; i++ {
				if useIn(r.blk.Nodes[i]) {
					bad = r.blk.Nodes[i]
				}
			}
			seen := map[*cfg.Block]bool{}
			var walk func(b *cfg.Block)
			walk = func(b *cfg.Block) {
				if seen[b] || bad != nil {
					return
				}
				seen[b] = true
				for _, nd := range b.Nodes {
					if b == r.blk && nd == r.blk.Nodes[r.idx] {
						continue
					}
					if useIn(nd) {
						bad = nd
						return
					}
				}
				for _, s := range b.Succs {
					walk(s)
				}
			}
			for _, s := range r.blk.Succs {
				walk(s)
			}
			if bad != nil {
				c.Add(rule, key, bad.Pos(), core.Violated,
					"state "+r.arg.Name()+" was consumed by "+exprString(r.call)+" but is used again afterwards in `"+nodeString(c, bad)+"`: a stale (pre-run) state reaches a handler, a later step or the result")
			} else {
				c.Add(rule, key, r.call.Pos(), core.Discharged, "state "+r.arg.Name()+" not used after the run")
			}
		}
		if len(runs) == 0 {
			c.Add(rule, fb.Name, fb.Lit.Pos(), core.Discharged, "state-shaped literal without a run")
		}
	}
	c.Floor(rule, "state-shaped literals", nLit, floorLits)
	c.Floor(rule, "StateT runs inside them", nRun, floorRuns)
}

func nodeString(c *core.Ctx, n ast.Node) string {
	switch x := n.(type) {
	case ast.Expr:
		return exprString(x)
	case *ast.ReturnStmt:
		s := "return"
		for i, r := range x.Results {
			if i > 0 {
				s += ","
			}
			s += " " + exprString(r)
		}
		return s
	case *ast.AssignStmt:
		s := ""
		for i, l := range x.Lhs {
			if i > 0 {
				s += ", "
			}
			s += exprString(l)
		}
		s += " " + x.Tok.String() + " "
		for i, r := range x.Rhs {
			if i > 0 {
				s += ", "
			}
			s += exprString(r)
		}
		return s
	case *ast.ExprStmt:
		return exprString(x.X)
	}
	return c.RelPos(n.Pos())
}
