package rules

// C06 — every derived future completes: must-pass-through over nested call-backs. R-PANIC (shared with C02).

import (
	"go/ast"
	"go/token"
	"go/types"
	"strings"

	"fpcheck/core"

	"golang.org/x/tools/go/cfg"
	"golang.org/x/tools/go/packages"
)

func init() {
	register("C06", "every promise created by a future combinator is completed on every path of its call-back chain", func(c *core.Ctx) {
		Complete(c, "R-COMPLETE", libPkgs(c))
		PanicCapture(c, "R-PANIC", libPkgs(c), map[string]bool{"future.Apply": true, "future.Apply2": true})
		SubOrder(c, "R-SUBORDER", []*packages.Package{c.Pkg("future"), c.Pkg("fp")}, 2)
		FutStop(c, "R-FUTSTOP", []*packages.Package{c.Pkg("future"), c.Pkg("fp")}, 1)
		CallbackParam(c, "R-CBPARAM", []*packages.Package{c.Pkg("future"), c.Pkg("fp")})
	})
}

func isPromiseCtor(fn *types.Func) bool {
	return funcIs(fn, "fp", "NewPromise") || funcIs(fn, "promise", "New")
}

var completions = map[string]bool{"Success": true, "Failure": true, "Complete": true}

type completeCtx struct {
	c     *core.Ctx
	fb    *fnBody
	info  *types.Info
	np    types.Object
	memo  map[*ast.FuncLit]bool
	why   string
	depth int
	decl  *ast.FuncDecl // enclosing declaration (resolves call-backs bound to a local)
	// when the promise is held in a field of the receiver of a call-back method (failedProjection{np}.onComplete)
	npRecv  types.Object
	npField string
}

// isNP: does e denote the promise under analysis?
func (cx *completeCtx) isNP(e ast.Expr) bool {
	if cx.npField != "" {
		se, ok := ast.Unparen(e).(*ast.SelectorExpr)
		return ok && se.Sel.Name == cx.npField && objOf(cx.info, se.X) == cx.npRecv
	}
	return cx.np != nil && objOf(cx.info, e) == cx.np
}

// findLit unwraps conversions like fp.RunnableFunc(func(){...}).
func findLit(e ast.Expr) *ast.FuncLit {
	e = ast.Unparen(e)
	if fl, ok := e.(*ast.FuncLit); ok {
		return fl
	}
	if call, ok := e.(*ast.CallExpr); ok && len(call.Args) == 1 {
		return findLit(call.Args[0])
	}
	return nil
}

// completingCall: does this call complete np, or register a literal that does so on all its paths?
func (cx *completeCtx) completingCall(call *ast.CallExpr) bool {
	sel, ok := ast.Unparen(call.Fun).(*ast.SelectorExpr)
	if !ok {
		return false
	}
	if cx.isNP(sel.X) && completions[sel.Sel.Name] {
		return true
	}
	// np.helper(…): a module method of Promise every path of which completes its receiver (or registers a literal that
	// does) — e.g. `func (r Promise[T]) completeWith(f Future[T]) { f.OnComplete(func(t Try[T]) { r.Complete(t) }) }`
	if cx.isNP(sel.X) && !completions[sel.Sel.Name] && cx.depth < 3 {
		if m, ok := cx.info.Uses[sel.Sel].(*types.Func); ok && m.Pkg() != nil && strings.HasPrefix(m.Pkg().Path(), core.ModPath) {
			if fd := cx.c.FuncDecl(m.Origin()); fd != nil && fd.Body != nil && fd.Recv != nil && len(fd.Recv.List) == 1 && len(fd.Recv.List[0].Names) == 1 {
				if hp := cx.c.ByPath[m.Pkg().Path()]; hp != nil {
					if recv := hp.TypesInfo.Defs[fd.Recv.List[0].Names[0]]; recv != nil && isNamed(recv.Type(), "fp", "Promise") {
						sub := &completeCtx{c: cx.c, info: hp.TypesInfo, np: recv, memo: map[*ast.FuncLit]bool{}, depth: cx.depth + 1}
						if sub.bodyCompletes(fd.Body) {
							return true
						}
					}
				}
			}
		}
	}
	switch sel.Sel.Name {
	case "OnComplete":
		if tv, ok := cx.info.Types[sel.X]; ok && isNamed(tv.Type, "fp", "Future") && len(call.Args) >= 1 {
			return cx.callbackCompletes(call.Args[0])
		}
	case "ExecuteUnsafe":
		if len(call.Args) == 1 {
			return cx.callbackCompletes(call.Args[0])
		}
	}
	return false
}

// callbackCompletes: the registered call-back is a literal (possibly under a conversion, or bound once to a local) every
// path of which completes np, or the result of a module helper `mk(np, …)` whose single return is such a literal over
// the parameter np is passed as.
func (cx *completeCtx) callbackCompletes(arg ast.Expr) bool {
	if fl := findLit(arg); fl != nil {
		return cx.litCompletes(fl)
	}
	if id, ok := ast.Unparen(arg).(*ast.Ident); ok {
		if fl := resolveLit(cx.info, cx.decl, id); fl != nil {
			return cx.litCompletes(fl)
		}
		return false
	}
	// a method value of a small struct that holds the promise in a field: T{np}.onComplete / T{target: np}.onComplete
	if se, ok := ast.Unparen(arg).(*ast.SelectorExpr); ok && cx.depth < 3 {
		m, _ := cx.info.Uses[se.Sel].(*types.Func)
		base := ast.Unparen(se.X)
		if id, isId := base.(*ast.Ident); isId && cx.decl != nil {
			// a local bound once to the composite literal
			o := cx.info.Uses[id]
			cnt := 0
			ast.Inspect(cx.decl.Body, func(x ast.Node) bool {
				if as, ok := x.(*ast.AssignStmt); ok && len(as.Lhs) == len(as.Rhs) {
					for i, l := range as.Lhs {
						if objOf(cx.info, l) == o {
							cnt++
							base = ast.Unparen(as.Rhs[i])
						}
					}
				}
				return true
			})
			if cnt != 1 {
				return false
			}
		}
		if u, isAddr := base.(*ast.UnaryExpr); isAddr && u.Op == token.AND {
			base = ast.Unparen(u.X)
		}
		cl, isLit := base.(*ast.CompositeLit)
		if m == nil || !isLit || m.Pkg() == nil || !strings.HasPrefix(m.Pkg().Path(), core.ModPath) {
			return false
		}
		tv, ok := cx.info.Types[cl]
		if !ok {
			return false
		}
		st, ok := tv.Type.Underlying().(*types.Struct)
		if !ok {
			return false
		}
		field := ""
		for i, el := range cl.Elts {
			if kv, isKV := el.(*ast.KeyValueExpr); isKV {
				if objOf(cx.info, kv.Value) == cx.np && cx.npField == "" {
					if k, ok := kv.Key.(*ast.Ident); ok {
						field = k.Name
					}
				}
			} else if objOf(cx.info, el) == cx.np && cx.npField == "" && i < st.NumFields() {
				field = st.Field(i).Name()
			}
		}
		fd := cx.c.FuncDecl(m.Origin())
		hp := cx.c.ByPath[m.Pkg().Path()]
		if field == "" || fd == nil || fd.Body == nil || hp == nil || fd.Recv == nil || len(fd.Recv.List) != 1 || len(fd.Recv.List[0].Names) != 1 {
			return false
		}
		sub := &completeCtx{c: cx.c, info: hp.TypesInfo, memo: map[*ast.FuncLit]bool{}, depth: cx.depth + 1, decl: fd,
			npRecv: hp.TypesInfo.Defs[fd.Recv.List[0].Names[0]], npField: field}
		if sub.bodyCompletes(fd.Body) {
			return true
		}
		cx.why = sub.why
		return false
	}
	call, ok := ast.Unparen(arg).(*ast.CallExpr)
	if !ok || cx.depth >= 3 {
		return false
	}
	fn := calleeOf(cx.info, call)
	if fn == nil || fn.Pkg() == nil || !strings.HasPrefix(fn.Pkg().Path(), core.ModPath) {
		return false
	}
	fd := cx.c.FuncDecl(fn.Origin())
	hp := cx.c.ByPath[fn.Pkg().Path()]
	if fd == nil || fd.Body == nil || fd.Recv != nil || hp == nil {
		return false
	}
	// which parameter receives np
	var param types.Object
	idx := 0
	for _, f := range fd.Type.Params.List {
		for _, nm := range f.Names {
			if idx < len(call.Args) && cx.isNP(call.Args[idx]) {
				param = hp.TypesInfo.Defs[nm]
			}
			idx++
		}
	}
	if param == nil {
		return false
	}
	// single return of a literal
	var rets []*ast.ReturnStmt
	ast.Inspect(fd.Body, func(x ast.Node) bool {
		if _, ok := x.(*ast.FuncLit); ok {
			return false
		}
		if r, ok := x.(*ast.ReturnStmt); ok {
			rets = append(rets, r)
		}
		return true
	})
	if len(rets) != 1 || len(rets[0].Results) != 1 {
		return false
	}
	fl := resolveLit(hp.TypesInfo, fd, rets[0].Results[0])
	if fl == nil {
		return false
	}
	sub := &completeCtx{c: cx.c, info: hp.TypesInfo, np: param, memo: map[*ast.FuncLit]bool{}, depth: cx.depth + 1, decl: fd}
	return sub.litCompletes(fl)
}

func (cx *completeCtx) litCompletes(fl *ast.FuncLit) bool {
	if v, ok := cx.memo[fl]; ok {
		return v
	}
	cx.memo[fl] = false
	v := cx.bodyCompletes(fl.Body)
	cx.memo[fl] = v
	return v
}

// bodyCompletes: every path entry→exit of body passes a completing call.
func (cx *completeCtx) bodyCompletes(body *ast.BlockStmt) bool {
	g := cfg.New(body, mayReturn(cx.c, cx.info))
	completes := func(b *cfg.Block) bool {
		for _, nd := range b.Nodes {
			if nodeContains(nd, false, func(x ast.Node) bool {
				call, ok := x.(*ast.CallExpr)
				return ok && cx.completingCall(call)
			}) {
				return true
			}
		}
		return false
	}
	seen := map[*cfg.Block]bool{}
	var escapes func(b *cfg.Block) *cfg.Block
	escapes = func(b *cfg.Block) *cfg.Block {
		if seen[b] || !b.Live {
			return nil
		}
		seen[b] = true
		if completes(b) {
			return nil
		}
		if len(b.Succs) == 0 {
			// exit without completion — unless the block ends in a no-return call (panic)
			if len(b.Nodes) > 0 {
				if es, ok := b.Nodes[len(b.Nodes)-1].(*ast.ExprStmt); ok {
					if call, ok := es.X.(*ast.CallExpr); ok && !mayReturn(cx.c, cx.info)(call) {
						return nil
					}
				}
			}
			return b
		}
		for _, s := range b.Succs {
			if e := escapes(s); e != nil {
				return e
			}
		}
		return nil
	}
	if e := escapes(g.Blocks[0]); e != nil {
		pos := body.Rbrace
		if len(e.Nodes) > 0 {
			pos = e.Nodes[len(e.Nodes)-1].Pos()
		}
		cx.why = "a path reaches the exit at " + cx.c.RelPos(pos) + " without completing the promise or registering a call-back that does"
		return false
	}
	return true
}

func Complete(c *core.Ctx, rule string, pkgs []*packages.Package) {
	c.Rule(rule, "for every promise np created in a function that returns np.Future(): every path of the function completes np, or registers (OnComplete / ExecuteUnsafe) a literal every path of which completes np or registers, recursively, one that does")
	n := 0
	for _, fb := range funcBodies(c, pkgs) {
		if fb.Lit != nil {
			continue
		}
		info := fb.Pkg.TypesInfo
		// promise locals
		var promises []types.Object
		var poss []token.Pos
		ast.Inspect(fb.Body, func(x ast.Node) bool {
			as, ok := x.(*ast.AssignStmt)
			if !ok || len(as.Lhs) != 1 || len(as.Rhs) != 1 {
				return true
			}
			call, ok := ast.Unparen(as.Rhs[0]).(*ast.CallExpr)
			if !ok || !isPromiseCtor(calleeOf(info, call)) {
				return true
			}
			if o := objOf(info, as.Lhs[0]); o != nil {
				promises = append(promises, o)
				poss = append(poss, as.Pos())
			}
			return true
		})
		for i, np := range promises {
			// obligation only when the derived future is what is returned (the promise itself is not handed out)
			returnsFuture, returnsPromise := false, false
			ast.Inspect(fb.Body, func(x ast.Node) bool {
				if _, ok := x.(*ast.FuncLit); ok {
					return false
				}
				ret, ok := x.(*ast.ReturnStmt)
				if !ok {
					return true
				}
				for _, r := range ret.Results {
					if objOf(info, r) == np {
						returnsPromise = true
					}
					if nodeContains(r, true, func(y ast.Node) bool {
						call, ok := y.(*ast.CallExpr)
						if !ok {
							return false
						}
						sel, ok := ast.Unparen(call.Fun).(*ast.SelectorExpr)
						return ok && sel.Sel.Name == "Future" && objOf(info, sel.X) == np
					}) {
						returnsFuture = true
					}
				}
				return true
			})
			key := fb.Name + "#" + np.Name()
			if returnsPromise || !returnsFuture {
				c.Add(rule, key, poss[i], core.Skipped, "the promise itself is handed to the caller (constructor)")
				continue
			}
			n++
			cx := &completeCtx{c: c, fb: fb, info: info, np: np, memo: map[*ast.FuncLit]bool{}, decl: fb.Decl}
			if cx.bodyCompletes(fb.Body) {
				c.Add(rule, key, poss[i], core.Discharged, "completed on every path of the call-back chain")
			} else {
				c.Add(rule, key, poss[i], core.Violated, "the future derived from "+np.Name()+" can stay incomplete for ever: "+cx.why)
			}
		}
	}
	c.Floor(rule, "promise creation sites with a derived future", n, 15)
}

// PanicCapture: deferred recover handlers turn a panic into the failure and nothing else.
func PanicCapture(c *core.Ctx, rule string, pkgs []*packages.Package, mustHave map[string]bool) {
	c.Rule(rule, "a function that runs a user function under a deferred recover(): the defer is registered before the user function is called, the recovered value flows into the failure it produces, and the handler assigns the result / completes the promise only when the recovered value is non-nil; the functions the property names have such a handler")
	found := map[string]bool{}
	n := 0
	for _, fb := range funcBodies(c, pkgs) {
		for si, st := range fb.Body.List {
			ds, ok := st.(*ast.DeferStmt)
			if !ok {
				continue
			}
			info := fb.Pkg.TypesInfo
			hl, ok := ast.Unparen(ds.Call.Fun).(*ast.FuncLit)
			outerInfo := info
			var helperParams map[types.Object]bool
			if !ok {
				// `defer helper(&ret)` / `defer failOnPanic(p)`: a declared module function that calls recover() itself
				callee := calleeOf(info, ds.Call)
				if callee == nil || callee.Pkg() == nil || !strings.HasPrefix(callee.Pkg().Path(), core.ModPath) {
					continue
				}
				hfd := c.FuncDecl(callee.Origin())
				hp := c.ByPath[callee.Pkg().Path()]
				if hfd == nil || hfd.Body == nil || hp == nil {
					continue
				}
				hl = &ast.FuncLit{Type: hfd.Type, Body: hfd.Body}
				info = hp.TypesInfo
				helperParams = map[types.Object]bool{}
				for _, f := range hfd.Type.Params.List {
					for _, nm := range f.Names {
						if o := info.Defs[nm]; o != nil {
							helperParams[o] = true
						}
					}
				}
			}
			// recover() inside?
			var recVar types.Object
			var guardIf *ast.IfStmt
			ast.Inspect(hl.Body, func(x ast.Node) bool {
				is, ok := x.(*ast.IfStmt)
				if !ok || is.Init == nil {
					return true
				}
				as, ok := is.Init.(*ast.AssignStmt)
				if !ok || len(as.Rhs) != 1 {
					return true
				}
				call, ok := ast.Unparen(as.Rhs[0]).(*ast.CallExpr)
				if !ok || !isBuiltinCall(info, call, "recover") {
					return true
				}
				recVar = objOf(info, as.Lhs[0])
				be, ok := ast.Unparen(is.Cond).(*ast.BinaryExpr)
				if ok && be.Op == token.NEQ && (objOf(info, be.X) == recVar && exprString(be.Y) == "nil" || objOf(info, be.Y) == recVar && exprString(be.X) == "nil") {
					guardIf = is
				}
				return true
			})
			hasRecover := nodeContains(hl.Body, true, func(x ast.Node) bool {
				call, ok := x.(*ast.CallExpr)
				return ok && isBuiltinCall(info, call, "recover")
			})
			if !hasRecover {
				continue
			}
			n++
			name := fb.Name
			if fb.Decl != nil {
				found[c.FuncName(fb.Pkg, fb.Decl)] = true
			}
			key := name + "/defer-recover"
			// (1) registered before any user function call: no call of a function-typed variable in earlier statements
			early := false
			for _, prev := range fb.Body.List[:si] {
				if nodeContains(prev, false, func(x ast.Node) bool {
					call, ok := x.(*ast.CallExpr)
					if !ok {
						return false
					}
					if o, ok := objOf(outerInfo, call.Fun).(*types.Var); ok {
						_, isFn := o.Type().Underlying().(*types.Signature)
						return isFn
					}
					return false
				}) {
					early = true
				}
			}
			if early {
				c.Add(rule, key+"/order", ds.Pos(), core.Violated, "a user function is called before the recover handler is registered: its panic escapes instead of becoming a Failure")
				continue
			}
			if recVar == nil {
				// `p := recover()` as a plain statement
				ast.Inspect(hl.Body, func(x ast.Node) bool {
					if as, ok := x.(*ast.AssignStmt); ok && len(as.Rhs) == 1 && len(as.Lhs) == 1 {
						if call, ok := ast.Unparen(as.Rhs[0]).(*ast.CallExpr); ok && isBuiltinCall(info, call, "recover") {
							recVar = objOf(info, as.Lhs[0])
						}
					}
					return true
				})
				if recVar != nil {
					ast.Inspect(hl.Body, func(x ast.Node) bool {
						if is, ok := x.(*ast.IfStmt); ok && guardIf == nil {
							if be, ok := ast.Unparen(is.Cond).(*ast.BinaryExpr); ok && be.Op == token.NEQ && (objOf(info, be.X) == recVar && exprString(be.Y) == "nil" || objOf(info, be.Y) == recVar && exprString(be.X) == "nil") {
								guardIf = is
							}
						}
						return true
					})
				}
			}
			if recVar == nil {
				c.Add(rule, key, ds.Pos(), core.Skipped, "handler shape not recognised (the recovered value is not bound to a variable)")
				continue
			}
			if guardIf == nil {
				guardIf = &ast.IfStmt{Body: &ast.BlockStmt{}} // no non-nil branch at all: every result write is outside it
			}
			// results: named results of the enclosing function and completion calls
			isResultWrite := func(x ast.Node) bool {
				switch s := x.(type) {
				case *ast.AssignStmt:
					for _, l := range s.Lhs {
						if o, ok := objOf(info, l).(*types.Var); ok && o != recVar && helperParams == nil && (o.Pos() < hl.Pos() || o.Pos() > hl.End()) {
							return true
						}
						// helper form: a store through a pointer parameter (*ret = Failure(…))
						if st, ok := ast.Unparen(l).(*ast.StarExpr); ok && helperParams != nil && helperParams[objOf(info, st.X)] {
							return true
						}
					}
				case *ast.CallExpr:
					if sel, ok := ast.Unparen(s.Fun).(*ast.SelectorExpr); ok && completions[sel.Sel.Name] {
						if tv, ok := info.Types[sel.X]; ok && isNamed(tv.Type, "fp", "Promise") {
							return true
						}
					}
				}
				return false
			}
			// (3) no result write outside the guard
			outside := false
			ast.Inspect(hl.Body, func(x ast.Node) bool {
				if x == guardIf.Body {
					return false
				}
				if x != nil && isResultWrite(x) {
					outside = true
				}
				return true
			})
			// (2) the failure built in the guard uses the recovered value
			uses := false
			writes := false
			ast.Inspect(guardIf.Body, func(x ast.Node) bool {
				if x != nil && isResultWrite(x) {
					writes = true
					if nodeContains(x, true, func(y ast.Node) bool {
						id, ok := y.(*ast.Ident)
						return ok && info.Uses[id] == recVar
					}) {
						uses = true
					}
				}
				return true
			})
			// (4) the recovered value is carried, not interpreted: no type assertion / type switch on it, here or in a
			// module function it is handed to
			if where := typeInspected(c, fb.Pkg, hl.Body, recVar, 0); where != token.NoPos {
				c.Add(rule, key, where, core.Violated, "the handler (or a helper it passes "+recVar.Name()+" to) examines the dynamic type of the recovered value: for panic values of that type the Failure exposes something other than the value that was panicked with")
				continue
			}
			switch {
			case outside:
				c.Add(rule, key, ds.Pos(), core.Violated, "the recover handler assigns the result / completes the promise outside the `"+recVar.Name()+" != nil` branch: a normal return is turned into a failure (or overwritten)")
			case !writes:
				c.Add(rule, key, ds.Pos(), core.Violated, "the recover handler swallows the panic without producing a Failure: the result stays zero / the promise never completes")
			case !uses:
				c.Add(rule, key, ds.Pos(), core.Violated, "the Failure produced on panic does not carry the recovered value "+recVar.Name()+": the panic value is lost")
			default:
				c.Add(rule, key, ds.Pos(), core.Discharged, "panic → Failure carrying the recovered value, only when non-nil, registered first")
			}
		}
	}
	for name := range mustHave {
		if found[name] {
			c.Add(rule, name+"/has-handler", token.NoPos, core.Discharged, "runs the user function under a deferred recover")
		} else {
			c.Add(rule, name+"/has-handler", token.NoPos, core.Violated, name+" no longer runs the user function under a deferred recover(): a panic is not turned into a Failure (future never completes / panic propagates)")
		}
	}
	c.Floor(rule, "deferred recover handlers", n, 2)
}

// typeInspected reports the position of a type assertion / type switch applied to obj inside body, following obj into
// module functions it is passed to (two levels).
func typeInspected(c *core.Ctx, p *packages.Package, body ast.Node, obj types.Object, depth int) token.Pos {
	info := p.TypesInfo
	pos := token.NoPos
	ast.Inspect(body, func(x ast.Node) bool {
		if pos != token.NoPos {
			return false
		}
		switch s := x.(type) {
		case *ast.TypeAssertExpr:
			if objOf(info, s.X) == obj {
				pos = s.Pos()
			}
		case *ast.CallExpr:
			if depth >= 2 {
				return true
			}
			callee := calleeOf(info, s)
			if callee == nil || callee.Pkg() == nil || !strings.HasPrefix(callee.Pkg().Path(), core.ModPath) {
				return true
			}
			fd := c.FuncDecl(callee.Origin())
			cp := c.ByPath[callee.Pkg().Path()]
			if fd == nil || fd.Body == nil || cp == nil {
				return true
			}
			// parameter objects in order
			var params []types.Object
			for _, f := range fd.Type.Params.List {
				for _, nm := range f.Names {
					params = append(params, cp.TypesInfo.Defs[nm])
				}
			}
			for i, a := range s.Args {
				if objOf(info, a) == obj && i < len(params) && params[i] != nil {
					if w := typeInspected(c, cp, fd.Body, params[i], depth+1); w != token.NoPos {
						pos = w
					}
				}
			}
		}
		return true
	})
	return pos
}
