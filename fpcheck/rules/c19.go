package rules

// C19 — CopyOnWriteMap: lock discipline, immutable snapshots, single load, no check-then-act.

import (
	"go/ast"
	"go/token"
	"go/types"
	"sort"
	"strings"

	"fpcheck/core"

	"golang.org/x/tools/go/packages"
	"golang.org/x/tools/go/ssa"
)

func init() {
	register("C19", "CopyOnWriteMap: stores under the lock, snapshots never mutated, one load per read, decisions taken under the lock", func(c *core.Ctx) {
		CowLockset(c, "R-LOCKSET")
		CowRMW(c, "R-RMW")
		CowSnapshot(c, "R-SNAPSHOT")
		CowCTA(c)
		CowOnePublish(c, "R-ONE-PUBLISH")
	})
}

func isCow(t types.Type) bool { return isNamed(t, "mutable", "CopyOnWriteMap") }

func CowLockset(c *core.Ctx, rule string) {
	c.Rule(rule, "every Store on the snapshot cell of a CopyOnWriteMap happens with the map's mutex held, and every exit of a locking method releases it (deferred or explicit)")
	n := 0
	entryHeld, entryDef := cowEntryLocks(c)
	for _, fn := range srcFuncs(c) {
		top := topFunc(fn)
		if top.Signature.Recv() == nil || !isCow(top.Signature.Recv().Type()) {
			continue
		}
		lf := analyzeLocksFrom(fn, entryHeld[fn], entryDef[fn])
		name := fnName(fn)
		for _, b := range fn.Blocks {
			for _, ins := range b.Instrs {
				call, ok := ins.(*ssa.Call)
				if !ok {
					continue
				}
				am := atomicMethod(&call.Call)
				switch am {
				case "Store", "Swap", "CompareAndSwap":
				default:
					continue
				}
				callee := struct{ name string }{am}
				n++
				held := false
				for k := range lf.held[ins] {
					if strings.HasPrefix(k, "field:") && strings.HasSuffix(k, ".lock") || strings.HasPrefix(k, "field:") {
						held = true
					}
				}
				if held {
					c.Add(rule, name+"/"+callee.name, instrPos(ins), core.Discharged, "snapshot published under {"+lf.held[ins].String()+"}")
				} else {
					c.Add(rule, name+"/"+callee.name, instrPos(ins), core.Violated, "the snapshot cell is written without the map's mutex: a concurrent copy-on-write based on the previous snapshot overwrites this update (lost update)")
				}
			}
		}
		if lf.nLocks > 0 {
			n++
			leaks := lf.leaks()
			if len(leaks) == 0 {
				c.Add(rule, name+"/exit", fn.Pos(), core.Discharged, "mutex released on every exit")
			}
			for _, lk := range leaks {
				c.Add(rule, name+"/exit", fn.Pos(), core.Violated, "mutex "+lk+": every later writer blocks forever")
			}
		}
	}
	c.Floor(rule, "stores / locking methods", n, 3)
}

func CowSnapshot(c *core.Ctx, rule string) {
	c.Rule(rule, "no method of CopyOnWriteMap (including the literals it hands to copyOnWrite) updates or deletes from a map that was loaded from the snapshot cell: published snapshots are immutable, readers iterate them without the lock")
	e := newOwnEngine(c)
	e.scope = map[string]bool{core.ModPath: true, core.ModPath + "/mutable": true}
	e.includeMutable = true
	e.run()
	n := 0
	for _, fn := range sortedFuncs(e) {
		recv := fn.Signature.Recv()
		if recv == nil || !isCow(recv.Type()) {
			continue
		}
		n++
		name := fnName(fn)
		bad := false
		for r, w := range e.sums[fn].writes {
			if w.g != 0 || strings.HasPrefix(w.how, "call of mutable.CopyOnWriteMap.") {
				continue
			}
			bad = true
			c.Add(rule, name+"/"+r.String(), w.pos, core.Violated, name+" writes memory it did not allocate ("+r.String()+") via "+w.how+": a published snapshot is modified in place while readers may be iterating it")
		}
		if !bad {
			c.Add(rule, name, fn.Pos(), core.Discharged, "writes only freshly allocated maps")
		}
	}
	c.Floor(rule, "CopyOnWriteMap methods", n, 8)
}

func CowCTA(c *core.Ctx) {
	c.Rule("R-ONE-LOAD", "a read-only method of CopyOnWriteMap loads the snapshot at most once (and not in a loop): every read observes one consistent snapshot")
	c.Rule("R-CTA", "a method that calls copyOnWrite after reading the map outside the lock lets the literal re-derive its decision from its own parameter (a branch on the current snapshot), and does not return a value read from the map after the write: decisions and results come from inside the critical section")
	p := c.Pkg("mutable")
	info := p.TypesInfo
	nRead, nWrite := 0, 0
	// the primitives are recognised by what they do, not by name: a method that stores into the cell is a writer
	// primitive (the lazy initialisation, the critical section); a method that loads the cell — directly or through
	// another loader — is a loader; a storing method that takes a function parameter is the copy-on-write entry
	loaderNames := map[string]bool{}
	directStore := map[string]bool{}
	storerNames := map[string]bool{} // publishes: stores into the cell itself or through another method of the receiver
	cowNames := map[string]bool{}
	var cowMethods []*fnBody
	// self: the map a function works on — the receiver of a method, or the single *CopyOnWriteMap parameter of a
	// package-level helper (readSnapshot(r, f))
	self := map[*fnBody]types.Object{}
	for _, fb := range funcBodies(c, []*packages.Package{p}) {
		if fb.Lit != nil {
			continue
		}
		if fb.Decl.Recv != nil {
			if core.RecvTypeName(fb.Decl.Recv.List[0].Type) == "CopyOnWriteMap" && len(fb.Decl.Recv.List[0].Names) == 1 {
				cowMethods = append(cowMethods, fb)
				self[fb] = info.Defs[fb.Decl.Recv.List[0].Names[0]]
			}
			continue
		}
		var cands []types.Object
		for _, f := range fb.Type.Params.List {
			for _, nm := range f.Names {
				if o := info.Defs[nm]; o != nil {
					if pt, ok := o.Type().(*types.Pointer); ok && isNamed(pt.Elem(), "mutable", "CopyOnWriteMap") {
						cands = append(cands, o)
					}
				}
			}
		}
		if len(cands) == 1 {
			cowMethods = append(cowMethods, fb)
			self[fb] = cands[0]
		}
	}
	// onSelf: the name of the method called on recv (recv.m(…)), or of the package-level helper recv is passed to
	onSelf := func(call *ast.CallExpr, recv types.Object) string {
		if sel, ok := ast.Unparen(call.Fun).(*ast.SelectorExpr); ok && objOf(info, sel.X) == recv {
			return sel.Sel.Name
		}
		if fn := calleeOf(info, call); fn != nil && fn.Pkg() == p.Types && fn.Type().(*types.Signature).Recv() == nil {
			for _, a := range call.Args {
				if objOf(info, a) == recv {
					return fn.Name()
				}
			}
		}
		return ""
	}
	cellCall := func(fb *fnBody, call *ast.CallExpr, method string) bool {
		sel, ok := ast.Unparen(call.Fun).(*ast.SelectorExpr)
		if !ok || sel.Sel.Name != method {
			return false
		}
		inner, ok := ast.Unparen(sel.X).(*ast.SelectorExpr)
		if !ok || objOf(info, inner.X) != self[fb] {
			return false
		}
		callee := calleeOf(info, call)
		return callee != nil && callee.Pkg() != nil && callee.Pkg().Path() == "sync/atomic"
	}
	// accessor: a parameterless method that loads the cell and stores into it (lazy initialisation of the empty snapshot)
	accessor := map[string]bool{}
	for _, fb := range cowMethods {
		if fb.Decl.Recv == nil || fb.Type.Params.NumFields() != 0 {
			continue
		}
		ld, st := false, false
		ast.Inspect(fb.Body, func(x ast.Node) bool {
			if call, ok := x.(*ast.CallExpr); ok {
				if cellCall(fb, call, "Load") {
					ld = true
				}
				if cellCall(fb, call, "Store") {
					st = true
				}
			}
			return true
		})
		if ld && st {
			accessor[fb.Decl.Name.Name] = true
		}
	}
	// …or loads it and, when nothing is published yet, initialises through a storing method of the receiver
	// (`return r.copyOnWrite(keepSnapshot)`): still the snapshot accessor, not a publisher of its own
	stores := map[string]bool{}
	for _, fb := range cowMethods {
		ast.Inspect(fb.Body, func(x ast.Node) bool {
			if call, ok := x.(*ast.CallExpr); ok && (cellCall(fb, call, "Store") || cellCall(fb, call, "Swap") || cellCall(fb, call, "CompareAndSwap")) {
				stores[fb.Decl.Name.Name] = true
			}
			return true
		})
	}
	for _, fb := range cowMethods {
		if fb.Decl.Recv == nil || fb.Type.Params.NumFields() != 0 || accessor[fb.Decl.Name.Name] {
			continue
		}
		ld, viaStorer := false, false
		ast.Inspect(fb.Body, func(x ast.Node) bool {
			if call, ok := x.(*ast.CallExpr); ok {
				if cellCall(fb, call, "Load") {
					ld = true
				}
				if callee := onSelf(call, self[fb]); callee != "" && stores[callee] {
					viaStorer = true
				}
			}
			return true
		})
		if ld && viaStorer {
			accessor[fb.Decl.Name.Name] = true
		}
	}
	for changed := true; changed; {
		changed = false
		for _, fb := range cowMethods {
			name := fb.Decl.Name.Name
			recv := self[fb]
			ast.Inspect(fb.Body, func(x ast.Node) bool {
				call, ok := x.(*ast.CallExpr)
				if !ok {
					return true
				}
				if cellCall(fb, call, "Store") || cellCall(fb, call, "Swap") || cellCall(fb, call, "CompareAndSwap") {
					directStore[name] = true
					if !storerNames[name] {
						storerNames[name] = true
						changed = true
					}
				}
				if cellCall(fb, call, "Load") && !loaderNames[name] {
					loaderNames[name] = true
					changed = true
				}
				if callee := onSelf(call, recv); callee != "" {
					// the snapshot accessor stores only to initialise lazily: calling it does not make the caller a publisher
					if storerNames[callee] && !storerNames[name] && !accessor[callee] {
						storerNames[name] = true
						changed = true
					}
					if loaderNames[callee] && !loaderNames[name] {
						loaderNames[name] = true
						changed = true
					}
				}
				return true
			})
		}
	}
	// the copy-on-write entry: a publishing, unexported method that takes a snapshot transformer func(M) M
	for _, fb := range cowMethods {
		name := fb.Decl.Name.Name
		if !storerNames[name] || token.IsExported(name) {
			continue
		}
		for _, f := range fb.Type.Params.List {
			if tv, ok := info.Types[f.Type]; ok {
				if sig, isFn := tv.Type.Underlying().(*types.Signature); isFn && sig.Params().Len() == 1 && sig.Results().Len() == 1 && types.Identical(sig.Params().At(0).Type(), sig.Results().At(0).Type()) {
					cowNames[name] = true
				}
			}
		}
	}
	// reads: the cell's Load, unexported loaders (the snapshot accessor, even when it lazily initialises), and exported
	// methods that only read
	var loaderList, cowList []string
	loaderList = append(loaderList, "Load")
	for n := range loaderNames {
		if cowNames[n] {
			continue
		}
		if accessor[n] || !storerNames[n] {
			loaderList = append(loaderList, n)
		}
	}
	for n := range cowNames {
		cowList = append(cowList, n)
	}
	sort.Strings(loaderList)
	sort.Strings(cowList)
	c.Table("R-CTA primitives", "reads: "+strings.Join(loaderList, ","), "copy-on-write entry: "+strings.Join(cowList, ","))
	cowEntryNames = cowNames
	cowAccessorNames = accessor
	// reexamines: the method's critical section branches on the snapshot it is handed (directly: the literal given to the
	// copy-on-write entry tests its parameter; indirectly: every publishing method it calls does). A caller may then
	// read optimistically before calling it; a blind publisher (Updated) may not be guarded by such a read.
	litBranchesOnParam := func(lit *ast.FuncLit) bool {
		if lit == nil || len(lit.Type.Params.List) != 1 || len(lit.Type.Params.List[0].Names) != 1 {
			return false
		}
		om := info.Defs[lit.Type.Params.List[0].Names[0]]
		derived := map[types.Object]bool{om: true}
		mentions := func(n ast.Node) bool {
			return n != nil && nodeContains(n, true, func(x ast.Node) bool {
				id, ok := x.(*ast.Ident)
				return ok && derived[info.Uses[id]]
			})
		}
		for changed := true; changed; {
			changed = false
			ast.Inspect(lit.Body, func(x ast.Node) bool {
				if as, ok := x.(*ast.AssignStmt); ok {
					for i, l := range as.Lhs {
						rhs := as.Rhs[0]
						if i < len(as.Rhs) {
							rhs = as.Rhs[i]
						}
						if o := objOf(info, l); o != nil && !derived[o] && mentions(rhs) {
							derived[o] = true
							changed = true
						}
					}
				}
				return true
			})
		}
		found := false
		ast.Inspect(lit.Body, func(x ast.Node) bool {
			switch s := x.(type) {
			case *ast.IfStmt:
				if mentions(s.Cond) || mentions(s.Init) {
					found = true
				}
			case *ast.SwitchStmt:
				if mentions(s.Tag) || mentions(s.Init) {
					found = true
				}
			}
			return true
		})
		return found
	}
	reexamines := map[string]bool{}
	for _, fb := range cowMethods {
		ok, any := true, false
		ast.Inspect(fb.Body, func(x ast.Node) bool {
			if call, isCall := x.(*ast.CallExpr); isCall {
				if callee := onSelf(call, self[fb]); callee != "" && cowNames[callee] && len(call.Args) > 0 {
					any = true
					lit, _ := ast.Unparen(call.Args[0]).(*ast.FuncLit)
					if !litBranchesOnParam(lit) {
						ok = false
					}
				}
			}
			return true
		})
		if any && ok {
			reexamines[fb.Decl.Name.Name] = true
		}
	}
	for changed := true; changed; {
		changed = false
		for _, fb := range cowMethods {
			name := fb.Decl.Name.Name
			if reexamines[name] || !storerNames[name] || directStore[name] || cowNames[name] || accessor[name] {
				continue
			}
			ok, any := true, false
			ast.Inspect(fb.Body, func(x ast.Node) bool {
				if call, isCall := x.(*ast.CallExpr); isCall {
					if callee := onSelf(call, self[fb]); callee != "" && storerNames[callee] && !accessor[callee] {
						any = true
						if !reexamines[callee] {
							ok = false
						}
					}
				}
				return true
			})
			if any && ok {
				reexamines[name] = true
				changed = true
			}
		}
	}
	for _, fb := range cowMethods {
		recv := self[fb]
		isRecvCall := func(call *ast.CallExpr, names ...string) bool {
			callee := onSelf(call, recv)
			if sel, ok := ast.Unparen(call.Fun).(*ast.SelectorExpr); ok && callee == "" {
				if inner, ok := ast.Unparen(sel.X).(*ast.SelectorExpr); ok && objOf(info, inner.X) == recv { // r.value.Load()
					callee = sel.Sel.Name
				}
			}
			if callee == "" {
				return false
			}
			for _, n := range names {
				if callee == n {
					return true
				}
			}
			return false
		}
		var cow []*ast.CallExpr
		var reads []*ast.CallExpr
		readInLoop := false
		var walk func(n ast.Node, inLoop, inLit bool)
		walk = func(n ast.Node, inLoop, inLit bool) {
			ast.Inspect(n, func(x ast.Node) bool {
				switch s := x.(type) {
				case nil:
					return false
				case *ast.ForStmt:
					if s != n {
						walk(s.Body, true, inLit)
						return false
					}
				case *ast.RangeStmt:
					if s != n {
						walk(s.X, inLoop, inLit)
						walk(s.Body, true, inLit)
						return false
					}
				case *ast.FuncLit:
					if s != n {
						walk(s.Body, inLoop, true)
						return false
					}
				case *ast.CallExpr:
					if isRecvCall(s, cowList...) {
						cow = append(cow, s)
					}
					if isRecvCall(s, loaderList...) {
						reads = append(reads, s)
						if inLoop {
							readInLoop = true
						}
					}
				}
				return true
			})
		}
		walk(fb.Body, false, false)
		name := fb.Name
		if directStore[fb.Decl.Name.Name] || cowNames[fb.Decl.Name.Name] || accessor[fb.Decl.Name.Name] {
			continue // the primitives themselves (double-checked initialisation / the critical section)
		}
		if len(cow) == 0 && storerNames[fb.Decl.Name.Name] {
			// publishes through another method of the receiver (the critical section is judged there); what remains to
			// judge here is the result: it must not be read back from the map after the publishing call returned
			var pubEnd token.Pos
			ast.Inspect(fb.Body, func(x ast.Node) bool {
				if call, ok := x.(*ast.CallExpr); ok {
					if callee := onSelf(call, recv); callee != "" && storerNames[callee] && !accessor[callee] {
						if pubEnd == token.NoPos || call.End() < pubEnd {
							pubEnd = call.End()
						}
					}
				}
				return true
			})
			if pubEnd != token.NoPos {
				nWrite++
				// check-then-act through a publishing method: a read of the map outside the lock that guards the
				// publishing call (a branch before it tests the read) needs a publisher that re-examines the snapshot
				var pubCall *ast.CallExpr
				ast.Inspect(fb.Body, func(x ast.Node) bool {
					if call, ok := x.(*ast.CallExpr); ok && call.End() == pubEnd {
						if callee := onSelf(call, recv); callee != "" && storerNames[callee] && !accessor[callee] {
							pubCall = call
						}
					}
					return true
				})
				if pubCall != nil {
					var pre []*ast.CallExpr
					for _, a := range reads {
						if a.End() <= pubCall.Pos() {
							pre = append(pre, a)
						}
					}
					var guardRead *ast.CallExpr
					if len(pre) > 0 {
						derivedFrom := map[types.Object]*ast.CallExpr{}
						readIn := func(n ast.Node) *ast.CallExpr {
							if n == nil {
								return nil
							}
							var hit *ast.CallExpr
							ast.Inspect(n, func(x ast.Node) bool {
								if _, isLit := x.(*ast.FuncLit); isLit {
									return false
								}
								if call, ok := x.(*ast.CallExpr); ok && hit == nil {
									for _, a := range pre {
										if a == call {
											hit = a
										}
									}
								}
								if id, ok := x.(*ast.Ident); ok && hit == nil {
									if a := derivedFrom[info.Uses[id]]; a != nil {
										hit = a
									}
								}
								return true
							})
							return hit
						}
						for changed := true; changed; {
							changed = false
							ast.Inspect(fb.Body, func(x ast.Node) bool {
								if _, isLit := x.(*ast.FuncLit); isLit {
									return false
								}
								if as, ok := x.(*ast.AssignStmt); ok && as.End() <= pubCall.Pos() {
									for i, l := range as.Lhs {
										rhs := as.Rhs[0]
										if i < len(as.Rhs) {
											rhs = as.Rhs[i]
										}
										if o := objOf(info, l); o != nil && derivedFrom[o] == nil {
											if a := readIn(rhs); a != nil {
												derivedFrom[o] = a
												changed = true
											}
										}
									}
								}
								return true
							})
						}
						ast.Inspect(fb.Body, func(x ast.Node) bool {
							if _, isLit := x.(*ast.FuncLit); isLit {
								return false
							}
							if x == nil || x.Pos() >= pubCall.Pos() || guardRead != nil {
								return x != nil && guardRead == nil
							}
							switch st := x.(type) {
							case *ast.IfStmt:
								if a := readIn(st.Init); a != nil {
									guardRead = a
								} else if a := readIn(st.Cond); a != nil {
									guardRead = a
								}
							case *ast.SwitchStmt:
								if a := readIn(st.Init); a != nil {
									guardRead = a
								} else if a := readIn(st.Tag); a != nil {
									guardRead = a
								}
							}
							return true
						})
					}
					callee := onSelf(pubCall, recv)
					// a step literal handed to the publisher (modify(r, func(om) (M, R) {…})) that branches on the
					// snapshot it receives is the re-examination
					stepReexamines := false
					for _, a := range pubCall.Args {
						if sl, ok := ast.Unparen(a).(*ast.FuncLit); ok && litBranchesOnParam(sl) {
							stepReexamines = true
						}
					}
					switch {
					case guardRead == nil:
						c.Add("R-CTA", name+"/check-then-act", pubCall.Pos(), core.Discharged, "no branch on a read outside the critical section precedes the publishing call")
					case stepReexamines:
						c.Add("R-CTA", name+"/check-then-act", pubCall.Pos(), core.Discharged, "optimistic read; the step handed to "+callee+" re-examines the snapshot it is given")
					case reexamines[callee]:
						c.Add("R-CTA", name+"/check-then-act", pubCall.Pos(), core.Discharged, "optimistic read; the publishing method "+callee+" re-examines the current snapshot inside its critical section")
					default:
						c.Add("R-CTA", name+"/check-then-act", guardRead.Pos(), core.Violated, "the method decides on a read of the map outside the lock ("+exprString(guardRead)+") and then publishes through "+callee+", which writes without re-examining the current snapshot: between check and act another goroutine can have stored a value, which is overwritten (two ComputeIfAbsent calls return different values)")
					}
				}
				var bad *ast.CallExpr
				ast.Inspect(fb.Body, func(x ast.Node) bool {
					if _, ok := x.(*ast.FuncLit); ok {
						return false
					}
					ret, ok := x.(*ast.ReturnStmt)
					if !ok || ret.Pos() < pubEnd {
						return true
					}
					for _, res := range ret.Results {
						for _, a := range reads {
							if a.Pos() >= pubEnd && a.Pos() >= res.Pos() && a.End() <= res.End() && bad == nil {
								bad = a
							}
						}
					}
					return true
				})
				if bad != nil {
					c.Add("R-CTA", name+"/result", bad.Pos(), core.Violated, "the result is read back from the map ("+exprString(bad)+") after the publishing call returned: a concurrent Removed/Updated makes it differ from what was stored (or panic on a missing key)")
				} else {
					c.Add("R-CTA", name+"/result", fb.Decl.Pos(), core.Discharged, "result does not depend on a read after the write")
				}
			}
			continue
		}
		if len(cow) == 0 {
			if len(reads) == 0 {
				continue
			}
			nRead++
			if len(reads) == 1 && !readInLoop {
				c.Add("R-ONE-LOAD", name, fb.Decl.Pos(), core.Discharged, "one snapshot load")
			} else {
				c.Add("R-ONE-LOAD", name, reads[len(reads)-1].Pos(), core.Violated, "a read-only operation loads the snapshot "+itoa(len(reads))+" times (or in a loop): parts of its answer can come from different versions of the map")
			}
			continue
		}
		nWrite++
		// reads outside the literal, before / after the write
		first := cow[0]
		var before, after []*ast.CallExpr
		for _, r := range reads {
			if r.End() <= first.Pos() {
				before = append(before, r)
			} else if r.Pos() >= first.End() {
				after = append(after, r)
			}
		}
		lit, _ := ast.Unparen(first.Args[0]).(*ast.FuncLit)
		if len(before) > 0 {
			rederives := false
			if lit != nil && len(lit.Type.Params.List) == 1 && len(lit.Type.Params.List[0].Names) == 1 {
				om := info.Defs[lit.Type.Params.List[0].Names[0]]
				derived := map[types.Object]bool{om: true}
				mentions := func(n ast.Node) bool {
					return n != nil && nodeContains(n, true, func(x ast.Node) bool {
						id, ok := x.(*ast.Ident)
						return ok && derived[info.Uses[id]]
					})
				}
				for changed := true; changed; {
					changed = false
					ast.Inspect(lit.Body, func(x ast.Node) bool {
						if as, ok := x.(*ast.AssignStmt); ok {
							for i, l := range as.Lhs {
								rhs := as.Rhs[0]
								if i < len(as.Rhs) {
									rhs = as.Rhs[i]
								}
								if o := objOf(info, l); o != nil && !derived[o] && mentions(rhs) {
									derived[o] = true
									changed = true
								}
							}
						}
						return true
					})
				}
				ast.Inspect(lit.Body, func(x ast.Node) bool {
					switch s := x.(type) {
					case *ast.IfStmt:
						if mentions(s.Cond) || mentions(s.Init) {
							rederives = true
						}
					case *ast.SwitchStmt:
						if mentions(s.Tag) || mentions(s.Init) {
							rederives = true
						}
					}
					return true
				})
			}
			if rederives {
				c.Add("R-CTA", name+"/check-then-act", first.Pos(), core.Discharged, "the critical section re-examines the current snapshot before writing")
			} else {
				c.Add("R-CTA", name+"/check-then-act", first.Pos(), core.Violated, "the method reads the map ("+exprString(before[0])+") outside the lock and then writes unconditionally inside copyOnWrite: between check and act another goroutine can have stored a value, which is overwritten (two ComputeIfAbsent calls return different values)")
			}
		} else {
			c.Add("R-CTA", name+"/check-then-act", first.Pos(), core.Discharged, "no read outside the critical section precedes the write")
		}
		// results must not come from a read after the write
		badRet := false
		ast.Inspect(fb.Body, func(x ast.Node) bool {
			if _, ok := x.(*ast.FuncLit); ok {
				return false
			}
			ret, ok := x.(*ast.ReturnStmt)
			if !ok || ret.Pos() < first.End() {
				return true
			}
			for _, res := range ret.Results {
				for _, a := range after {
					if a.Pos() >= res.Pos() && a.End() <= res.End() {
						badRet = true
					}
				}
			}
			return true
		})
		// …nor be the value the method meant to store when the critical section can decide to keep the snapshot
		// (someone else's value won): then the answer is what is stored, which only the literal knows
		var intended *ast.Ident
		if lit != nil && len(lit.Type.Params.List) == 1 && len(lit.Type.Params.List[0].Names) == 1 {
			om := info.Defs[lit.Type.Params.List[0].Names[0]]
			keeps := nodeContains(lit.Body, true, func(x ast.Node) bool {
				ret, ok := x.(*ast.ReturnStmt)
				return ok && len(ret.Results) == 1 && objOf(info, ret.Results[0]) == om
			})
			storedVals, assignedInLit := map[types.Object]bool{}, map[types.Object]bool{}
			ast.Inspect(lit.Body, func(x ast.Node) bool {
				as, ok := x.(*ast.AssignStmt)
				if !ok || len(as.Lhs) != len(as.Rhs) {
					return true
				}
				for i, l := range as.Lhs {
					if _, isIdx := ast.Unparen(l).(*ast.IndexExpr); isIdx {
						if o := objOf(info, as.Rhs[i]); o != nil {
							storedVals[o] = true
						}
					} else if o := objOf(info, l); o != nil {
						assignedInLit[o] = true
					}
				}
				return true
			})
			if keeps {
				ast.Inspect(fb.Body, func(x ast.Node) bool {
					if _, ok := x.(*ast.FuncLit); ok {
						return false
					}
					ret, ok := x.(*ast.ReturnStmt)
					if !ok || ret.Pos() < first.End() || len(ret.Results) != 1 {
						return true
					}
					if id, ok := ast.Unparen(ret.Results[0]).(*ast.Ident); ok {
						if o := info.Uses[id]; o != nil && storedVals[o] && !assignedInLit[o] && (o.Pos() < lit.Pos() || o.Pos() > lit.End()) {
							// unless the method first branches on an outcome the critical section recorded
							// (`if kept != nil { return *kept }; return nv`): then nv is returned only when it was stored
							outcomeTested := nodeContains(fb.Body, false, func(y ast.Node) bool {
								is, ok := y.(*ast.IfStmt)
								if !ok || is.Pos() < first.End() || is.Pos() >= ret.Pos() {
									return false
								}
								return nodeContains(is.Cond, false, func(z ast.Node) bool {
									zid, ok := z.(*ast.Ident)
									return ok && assignedInLit[info.Uses[zid]]
								})
							})
							if !outcomeTested {
								intended = id
							}
						}
					}
					return true
				})
			}
		}
		if intended != nil {
			c.Add("R-CTA", name+"/result", intended.Pos(), core.Violated, "the method returns "+intended.Name+", the value it meant to store, although the critical section can keep the current snapshot (another goroutine's value won): the loser of a race returns a value that was never stored — concurrent ComputeIfAbsent calls return different values")
		} else if badRet {
			c.Add("R-CTA", name+"/result", after[0].Pos(), core.Violated, "the result is read back from the map ("+exprString(after[0])+") after the critical section: a concurrent Removed/Updated makes it differ from what was stored (or panic on a missing key)")
		} else {
			c.Add("R-CTA", name+"/result", fb.Decl.Pos(), core.Discharged, "result does not depend on a read after the write")
		}
	}
	c.Floor("R-ONE-LOAD", "read-only methods", nRead, 3)
	c.Floor("R-CTA", "writing methods", nWrite, 3)
	_ = token.NoPos
}

// CowRMW: the snapshot a new version is derived from is read under the lock.
func CowRMW(c *core.Ctx, rule string) {
	c.Rule(rule, "in a method of CopyOnWriteMap that publishes a new snapshot (Store on the cell), every value read from the cell — by Load on the cell or by a receiver method that returns the snapshot — that flows into the published value is read while the mutex is held: read-modify-write happens inside one critical section")
	// receiver methods that return what they load from the cell
	loaders := map[*types.Func]bool{}
	isCellLoad := func(call *ssa.Call) bool {
		return atomicMethod(&call.Call) == "Load"
	}
	var methods []*ssa.Function
	for _, fn := range srcFuncs(c) {
		if fn.Parent() == nil && fn.Signature.Recv() != nil && isCow(fn.Signature.Recv().Type()) {
			methods = append(methods, fn)
		}
	}
	flows := func(from ssa.Value, to map[ssa.Value]bool) bool {
		seen := map[ssa.Value]bool{}
		work := []ssa.Value{from}
		for len(work) > 0 {
			v := work[len(work)-1]
			work = work[:len(work)-1]
			if seen[v] {
				continue
			}
			seen[v] = true
			if to[v] {
				return true
			}
			if refs := v.Referrers(); refs != nil {
				for _, r := range *refs {
					if rv, ok := r.(ssa.Value); ok {
						work = append(work, rv)
					}
					if st, ok := r.(*ssa.Store); ok && st.Val == v {
						work = append(work, st.Addr)
					}
				}
			}
		}
		return false
	}
	for _, fn := range methods {
		// returns a loaded value?
		rets := map[ssa.Value]bool{}
		for _, b := range fn.Blocks {
			for _, ins := range b.Instrs {
				if r, ok := ins.(*ssa.Return); ok {
					for _, v := range r.Results {
						rets[v] = true
					}
				}
			}
		}
		for _, b := range fn.Blocks {
			for _, ins := range b.Instrs {
				if call, ok := ins.(*ssa.Call); ok && isCellLoad(call) && flows(call, rets) {
					if o, ok := fn.Object().(*types.Func); ok {
						loaders[o.Origin()] = true
					}
				}
			}
		}
	}
	// receiver methods that store one of their parameters into the cell (publish(nm) { r.value.Store(nm) })
	storers := map[*types.Func][]int{}
	for _, fn := range methods {
		for _, b := range fn.Blocks {
			for _, ins := range b.Instrs {
				call, ok := ins.(*ssa.Call)
				if !ok {
					continue
				}
				if am := atomicMethod(&call.Call); am != "Store" && am != "Swap" && am != "CompareAndSwap" {
					continue
				}
				for pi, p := range fn.Params {
					if pi == 0 {
						continue
					}
					to := map[ssa.Value]bool{}
					for _, a := range call.Call.Args[1:] {
						to[a] = true
					}
					if flows(p, to) {
						if o, ok := fn.Object().(*types.Func); ok {
							storers[o.Origin()] = append(storers[o.Origin()], pi)
						}
					}
				}
			}
		}
	}
	entryHeld, entryDef := cowEntryLocks(c)
	n := 0
	for _, fn := range methods {
		lf := analyzeLocksFrom(fn, entryHeld[fn], entryDef[fn])
		stored := map[ssa.Value]bool{}
		hasStore := false
		for _, b := range fn.Blocks {
			for _, ins := range b.Instrs {
				if call, ok := ins.(*ssa.Call); ok {
					if am := atomicMethod(&call.Call); am == "Store" || am == "Swap" || am == "CompareAndSwap" {
						hasStore = true
						for _, a := range call.Call.Args[1:] {
							stored[a] = true
						}
					}
					if cf := calleeFunc(&call.Call); cf != nil {
						for _, pi := range storers[cf] {
							if pi < len(call.Call.Args) {
								hasStore = true
								stored[call.Call.Args[pi]] = true
							}
						}
					}
				}
			}
		}
		if !hasStore {
			continue
		}
		name := fnName(fn)
		k := 0
		for _, b := range fn.Blocks {
			for _, ins := range b.Instrs {
				call, ok := ins.(*ssa.Call)
				if !ok {
					continue
				}
				isRead := isCellLoad(call)
				if cf := calleeFunc(&call.Call); cf != nil && loaders[cf] {
					isRead = true
				}
				if !isRead || !flows(call, stored) {
					continue
				}
				k++
				n++
				key := name + "/read#" + itoa(k)
				if len(lf.held[ins]) > 0 {
					c.Add(rule, key, instrPos(ins), core.Discharged, "snapshot read under {"+lf.held[ins].String()+"}")
				} else {
					c.Add(rule, key, instrPos(ins), core.Violated, "the snapshot that the published value is derived from is read before the mutex is taken: two writers can start from the same snapshot and the second Store discards the first writer's update (lost update; ComputeIfAbsent callers see different values)")
				}
			}
		}
	}
	// control dependence (double-checked initialisation): the innermost condition that decides whether a Store
	// happens, if it looks at the cell at all, looks at a value read under the lock
	nDec := 0
	for _, fn := range methods {
		lf := analyzeLocks(fn)
		name := fnName(fn)
		isRead := func(v ssa.Value) bool {
			call, ok := v.(*ssa.Call)
			if !ok {
				return false
			}
			if isCellLoad(call) {
				return true
			}
			cf := calleeFunc(&call.Call)
			return cf != nil && loaders[cf]
		}
		// reads(v): cell reads in the backward slice of v (operands of comparisons, phis, conversions)
		var slice func(v ssa.Value, seen map[ssa.Value]bool, out *[]*ssa.Call)
		slice = func(v ssa.Value, seen map[ssa.Value]bool, out *[]*ssa.Call) {
			if v == nil || seen[v] {
				return
			}
			seen[v] = true
			if isRead(v) {
				*out = append(*out, v.(*ssa.Call))
				return
			}
			switch x := v.(type) {
			case *ssa.BinOp:
				slice(x.X, seen, out)
				slice(x.Y, seen, out)
			case *ssa.UnOp:
				slice(x.X, seen, out)
			case *ssa.Phi:
				for _, e := range x.Edges {
					slice(e, seen, out)
				}
			case *ssa.ChangeType:
				slice(x.X, seen, out)
			case *ssa.ChangeInterface:
				slice(x.X, seen, out)
			case *ssa.MakeInterface:
				slice(x.X, seen, out)
			case *ssa.TypeAssert:
				slice(x.X, seen, out)
			case *ssa.Extract:
				slice(x.Tuple, seen, out)
			case *ssa.Call:
				// len(m), m.Size() …: look through the arguments / receiver
				for _, a := range x.Call.Args {
					slice(a, seen, out)
				}
				if x.Call.IsInvoke() {
					slice(x.Call.Value, seen, out)
				}
			}
		}
		k := 0
		for _, b := range fn.Blocks {
			for _, ins := range b.Instrs {
				call, ok := ins.(*ssa.Call)
				if !ok {
					continue
				}
				if atomicMethod(&call.Call) != "Store" {
					continue
				}
				for d := b.Idom(); d != nil; d = d.Idom() {
					if len(d.Instrs) == 0 {
						continue
					}
					ifi, ok := d.Instrs[len(d.Instrs)-1].(*ssa.If)
					if !ok {
						continue
					}
					// the Store must lie on exactly one side of d
					side := 0
					for _, sc := range d.Succs {
						if sc == b || sc.Dominates(b) {
							side++
						}
					}
					if side != 1 {
						continue
					}
					var reads []*ssa.Call
					slice(ifi.Cond, map[ssa.Value]bool{}, &reads)
					if len(reads) == 0 {
						continue
					}
					k++
					nDec++
					key := name + "/decision#" + itoa(k)
					unlocked := ""
					for _, r := range reads {
						if len(lf.held[r]) == 0 {
							unlocked = instrPosString(c, r)
						}
					}
					if unlocked != "" {
						c.Add(rule, key, instrPos(ifi), core.Violated, "the condition that decides whether the Store at "+instrPosString(c, ins)+" happens examines a value read from the cell at "+unlocked+", before the mutex was taken: another goroutine may have published a snapshot in between, which this Store then overwrites (lost update)")
					} else {
						c.Add(rule, key, instrPos(ifi), core.Discharged, "the deciding condition examines a value read under the lock")
					}
					break // innermost deciding condition only
				}
			}
		}
	}
	c.Floor(rule, "snapshot reads feeding a Store", n, 1)
	c.Floor(rule, "conditions deciding a Store on a cell read", nDec, 1)
}

// CowOnePublish — R-ONE-PUBLISH: one operation, one publication.
//
// A method "publishes" when it calls copyOnWrite (the only place a new snapshot is stored, see R-LOCKSET) or calls a
// publishing method on its own receiver. An operation that publishes more than once — two publishing calls in
// sequence, or one inside a loop — is visible to concurrent readers in its intermediate states, i.e. it is not applied
// atomically at one instant. Publishing calls on mutually exclusive branches count once.
// cowAccessorNames: the snapshot accessors found by CowCTA (they store only to initialise lazily).
var cowAccessorNames = map[string]bool{}

func CowOnePublish(c *core.Ctx, rule string) {
	c.Rule(rule, "every method of CopyOnWriteMap publishes at most one new snapshot per call: at most one publishing call (copyOnWrite or a publishing method of the same receiver) on any path, and none inside a loop")
	p := c.Pkg("mutable")
	info := p.TypesInfo
	type meth struct {
		fb   *fnBody
		recv types.Object
	}
	var ms []meth
	for _, fb := range funcBodies(c, []*packages.Package{p}) {
		if fb.Lit != nil || fb.Decl.Recv == nil || core.RecvTypeName(fb.Decl.Recv.List[0].Type) != "CopyOnWriteMap" || len(fb.Decl.Recv.List[0].Names) != 1 {
			continue
		}
		ms = append(ms, meth{fb, info.Defs[fb.Decl.Recv.List[0].Names[0]]})
	}
	publishes := map[string]bool{}
	for n := range cowEntryNames {
		publishes[n] = true
	}
	if len(publishes) == 0 {
		publishes["copyOnWrite"] = true
	}
	recvCallee := func(m meth, call *ast.CallExpr) string {
		sel, ok := ast.Unparen(call.Fun).(*ast.SelectorExpr)
		if !ok || objOf(info, sel.X) != m.recv {
			return ""
		}
		return sel.Sel.Name
	}
	for changed := true; changed; {
		changed = false
		for _, m := range ms {
			if publishes[m.fb.Decl.Name.Name] || cowAccessorNames[m.fb.Decl.Name.Name] {
				continue // the accessor's lazy initialisation publishes the empty snapshot, not a new version
			}
			ast.Inspect(m.fb.Body, func(x ast.Node) bool {
				if call, ok := x.(*ast.CallExpr); ok && publishes[recvCallee(m, call)] {
					publishes[m.fb.Decl.Name.Name] = true
					changed = true
				}
				return true
			})
		}
	}
	n := 0
	for _, m := range ms {
		name := m.fb.Decl.Name.Name
		if cowEntryNames[name] || name == "copyOnWrite" || !publishes[name] {
			continue
		}
		n++
		// max number of publishing calls on a path; loops multiply
		inLoop := false
		var loopCall *ast.CallExpr
		var count func(nd ast.Node, loop bool) int
		countList := func(list []ast.Stmt, loop bool) int {
			t := 0
			for _, s := range list {
				t += count(s, loop)
			}
			return t
		}
		count = func(nd ast.Node, loop bool) int {
			switch s := nd.(type) {
			case nil:
				return 0
			case *ast.BlockStmt:
				return countList(s.List, loop)
			case *ast.IfStmt:
				t := count(s.Init, loop) + count(s.Cond, loop)
				a, b := count(s.Body, loop), 0
				if s.Else != nil {
					b = count(s.Else, loop)
				}
				if b > a {
					a = b
				}
				return t + a
			case *ast.ForStmt:
				return count(s.Init, loop) + count(s.Cond, true) + count(s.Post, true) + count(s.Body, true)
			case *ast.RangeStmt:
				return count(s.X, loop) + count(s.Body, true)
			case *ast.SwitchStmt:
				t := count(s.Init, loop) + count(s.Tag, loop)
				mx := 0
				for _, cl := range s.Body.List {
					if k := countList(cl.(*ast.CaseClause).Body, loop); k > mx {
						mx = k
					}
				}
				return t + mx
			case *ast.TypeSwitchStmt:
				mx := 0
				for _, cl := range s.Body.List {
					if k := countList(cl.(*ast.CaseClause).Body, loop); k > mx {
						mx = k
					}
				}
				return mx
			case *ast.FuncLit:
				// a literal handed to copyOnWrite runs inside that one publication; literals stored or deferred are counted as if run once
				return count(s.Body, loop)
			}
			t := 0
			ast.Inspect(nd, func(x ast.Node) bool {
				if x == nil || x == nd {
					return true
				}
				switch y := x.(type) {
				case *ast.BlockStmt, *ast.IfStmt, *ast.ForStmt, *ast.RangeStmt, *ast.SwitchStmt, *ast.TypeSwitchStmt, *ast.FuncLit:
					t += count(y, loop)
					return false
				case *ast.CallExpr:
					if publishes[recvCallee(m, y)] {
						t++
						if loop {
							inLoop, loopCall = true, y
						}
					}
				}
				return true
			})
			if call, ok := nd.(*ast.CallExpr); ok && publishes[recvCallee(m, call)] {
				t++
				if loop {
					inLoop, loopCall = true, call
				}
			}
			return t
		}
		k := count(m.fb.Body, false)
		switch {
		case inLoop:
			c.Add(rule, m.fb.Name, loopCall.Pos(), core.Violated, "publishes a new snapshot inside a loop ("+exprString(loopCall.Fun)+"): one call of "+name+" is visible to concurrent readers as a series of intermediate maps, not as one atomic step")
		case k > 1:
			c.Add(rule, m.fb.Name, m.fb.Decl.Pos(), core.Violated, "publishes "+itoa(k)+" snapshots on one path: the operation is not applied at one instant")
		default:
			c.Add(rule, m.fb.Name, m.fb.Decl.Pos(), core.Discharged, "at most one publication per call")
		}
	}
	c.Floor(rule, "publishing methods", n, 4)
}

func instrPosString(c *core.Ctx, ins ssa.Instruction) string { return c.RelPos(instrPos(ins)) }

// cowEntryLocks: unexported methods of CopyOnWriteMap that are only ever called, on the same receiver, from methods
// (or their literals) that hold the map's mutex run inside their callers' critical sections. The result maps such a
// helper to the locks held / deferred unlocks registered at every one of its call sites (keys use the helper's own
// receiver name).
func cowEntryLocks(c *core.Ctx) (map[*ssa.Function]lockSet, map[*ssa.Function]lockSet) {
	var all []*ssa.Function
	byObj := map[*types.Func]*ssa.Function{}
	for _, fn := range srcFuncs(c) {
		top := topFunc(fn)
		if top.Signature.Recv() == nil || !isCow(top.Signature.Recv().Type()) {
			continue
		}
		all = append(all, fn)
		if fn.Parent() == nil {
			if o, ok := fn.Object().(*types.Func); ok {
				byObj[o.Origin()] = fn
			}
		}
	}
	held := map[*ssa.Function]lockSet{}
	def := map[*ssa.Function]lockSet{}
	rename := func(s lockSet, to string) lockSet {
		out := lockSet{}
		for k := range s {
			if strings.HasPrefix(k, "field:") {
				if i := strings.Index(k, "."); i > 0 {
					out["field:"+to+k[i:]] = true
					continue
				}
			}
			out[k] = true
		}
		return out
	}
	for round := 0; round < 3; round++ {
		type acc struct {
			h, d  lockSet
			n     int
			other bool
		}
		accs := map[*ssa.Function]*acc{}
		for _, fn := range all {
			// a literal inherits nothing by itself; analyse it from its own start (locks taken inside it)
			lf := analyzeLocksFrom(fn, held[fn], def[fn])
			for _, b := range fn.Blocks {
				for _, ins := range b.Instrs {
					call, ok := ins.(*ssa.Call)
					if !ok {
						continue
					}
					cf := calleeFunc(&call.Call)
					if cf == nil {
						continue
					}
					h := byObj[cf]
					if h == nil || token.IsExported(h.Name()) {
						continue
					}
					a := accs[h]
					if a == nil {
						a = &acc{}
						accs[h] = a
					}
					rname := "r"
					if len(h.Params) > 0 {
						rname = h.Params[0].Name()
					}
					hs, ds := rename(lf.held[ins], rname), rename(lf.deferred[ins], rname)
					if a.n == 0 {
						a.h, a.d = hs, ds
					} else {
						a.h, a.d = intersect(a.h, hs), intersect(a.d, ds)
					}
					a.n++
				}
			}
		}
		for h, a := range accs {
			if a.n > 0 {
				held[h], def[h] = a.h, a.d
			}
		}
	}
	return held, def
}

// cowEntryNames: the copy-on-write entry methods recognised by CowCTA (a storing method with a function parameter);
// CowOnePublish runs after it.
var cowEntryNames = map[string]bool{}

// atomicMethod returns the name of the sync/atomic method a call invokes (Value.Load, Pointer[T].Store, …), "" otherwise.
// It goes through the types.Func so that methods of instantiated generic types (atomic.Pointer[T]) are recognised.
func atomicMethod(cc *ssa.CallCommon) string {
	f := calleeFunc(cc)
	if f == nil || f.Pkg() == nil || f.Pkg().Path() != "sync/atomic" {
		return ""
	}
	if sig, ok := f.Type().(*types.Signature); !ok || sig.Recv() == nil {
		return ""
	}
	return f.Name()
}
