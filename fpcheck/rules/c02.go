package rules

// C02 — failure short-circuits; handlers only on failure; suppliers deferred; panics captured.

import (
	"go/ast"
	"go/token"
	"go/types"
	"strings"

	"fpcheck/core"

	"golang.org/x/tools/go/packages"
)

func init() {
	register("C02", "placement of continuations, handlers and suppliers relative to the success test; panic capture", func(c *core.Ctx) {
		pkgs := []*packages.Package{c.Pkg("fp"), c.Pkg("option"), c.Pkg("try"), c.Pkg("either"), c.Pkg("statet"), c.Pkg("seq"), c.Pkg("iterator"), c.Pkg("list")}
		Short(c, "R-SHORT", pkgs)
		FoldStop(c, "R-FOLDSTOP", pkgs, 4)
		LoopStop(c, "R-LOOPSTOP", pkgs)
		RunOnce(c, "R-RUNONCE", c.Pkg("fp"), 10)
		SupplyOnce(c, "R-SUPPLYONCE", []*packages.Package{c.Pkg("fp"), c.Pkg("option"), c.Pkg("try"), c.Pkg("either"), c.Pkg("statet"), c.Pkg("future")}, 40)
		Supplier(c, "R-SUPPLIER", []*packages.Package{c.Pkg("option"), c.Pkg("try"), c.Pkg("either"), c.Pkg("statet"), c.Pkg("future")})
		EffOrder(c, "R-EFFORDER", []*packages.Package{c.Pkg("option"), c.Pkg("try"), c.Pkg("either"), c.Pkg("future"), c.Pkg("statet")})
		PanicCapture(c, "R-PANIC", libPkgs(c), map[string]bool{"try.Of": true, "try.Call": true, "try.CallUnit": true, "future.Apply": true, "future.Apply2": true})
	})
}

// successObservers: observer name -> polarity (true = holds on success).
var successObservers = map[string]map[string]bool{
	"Try":    {"IsSuccess": true, "IsFailure": false},
	"Option": {"IsDefined": true, "IsEmpty": false},
	"Either": {"IsRight": true, "IsLeft": false},
}

func monadKind(t types.Type) string {
	for k := range successObservers {
		if isNamed(t, "fp", k) {
			return k
		}
	}
	return ""
}

// payloadType: the success payload of a monadic type.
func payloadType(t types.Type) types.Type {
	nt := namedOf(t)
	if nt == nil || nt.TypeArgs().Len() == 0 {
		return nil
	}
	return nt.TypeArgs().At(nt.TypeArgs().Len() - 1)
}

// successTest decodes `m.IsSuccess()`, `!m.IsEmpty()` …: returns the tested object and whether cond true means success.
func successTest(info *types.Info, cond ast.Expr) (types.Object, bool, bool) {
	cond = ast.Unparen(cond)
	neg := false
	for {
		if u, ok := cond.(*ast.UnaryExpr); ok && u.Op == token.NOT {
			cond, neg = ast.Unparen(u.X), !neg
			continue
		}
		break
	}
	call, ok := cond.(*ast.CallExpr)
	if !ok || len(call.Args) != 0 {
		return nil, false, false
	}
	sel, ok := call.Fun.(*ast.SelectorExpr)
	if !ok {
		return nil, false, false
	}
	o := objOf(info, sel.X)
	if o == nil {
		return nil, false, false
	}
	k := monadKind(o.Type())
	if k == "" {
		return nil, false, false
	}
	pol, ok := successObservers[k][sel.Sel.Name]
	if !ok {
		return nil, false, false
	}
	return o, pol != neg, true
}

func terminates(list []ast.Stmt) bool {
	if len(list) == 0 {
		return false
	}
	switch s := list[len(list)-1].(type) {
	case *ast.ReturnStmt:
		return true
	case *ast.ExprStmt:
		if call, ok := s.X.(*ast.CallExpr); ok {
			if id, ok := call.Fun.(*ast.Ident); ok && id.Name == "panic" {
				return true
			}
		}
	case *ast.BranchStmt:
		return true
	}
	return false
}

// variablesIn: variable (and constant) objects mentioned in n, other than functions, types and packages.
func variablesIn(info *types.Info, n ast.Node) map[types.Object]bool {
	out := map[types.Object]bool{}
	ast.Inspect(n, func(x ast.Node) bool {
		if id, ok := x.(*ast.Ident); ok {
			switch o := info.Uses[id].(type) {
			case *types.Var:
				if !o.IsField() {
					out[o] = true
				}
			case *types.Const:
				out[o] = true
			case *types.Nil:
			}
		}
		if bl, ok := x.(*ast.BasicLit); ok {
			_ = bl
			out[types.Universe.Lookup("true")] = true // a literal counts as a foreign value
		}
		return true
	})
	return out
}

func Short(c *core.Ctx, rule string, pkgs []*packages.Package) {
	c.Rule(rule, "around every success test of a Try/Option/Either value m (if/else, negated or early-return form): on the failure side no continuation (a function parameter taking m's payload) is called and the source iterator is not pulled; on the success side no handler (a function parameter not taking the payload) is called and a continuation receives a value extracted from m; a function with continuations and no handler returns, on the failure side, m itself or a failure built from m alone; a function with handlers and no continuation returns, on the success side, m itself or its payload")
	nTests := 0
	for _, fb := range funcBodies(c, pkgs) {
		if fb.Lit != nil && fb.Decl == nil {
			continue
		}
		info := fb.Pkg.TypesInfo
		// function-typed parameters of the enclosing declaration and of this literal
		var fparams []*types.Var
		addParams := func(ft *ast.FuncType) {
			for _, f := range ft.Params.List {
				for _, nm := range f.Names {
					if v, ok := info.Defs[nm].(*types.Var); ok {
						// a StateT / Future operand has a function as its underlying type but is a monadic value being run, not a
						// handler or continuation
						if _, isFn := v.Type().Underlying().(*types.Signature); isFn && !isMonadType(v.Type()) {
							fparams = append(fparams, v)
						}
					}
				}
			}
		}
		if fb.Decl != nil {
			addParams(fb.Decl.Type)
		}
		if fb.Lit != nil {
			addParams(fb.Lit.Type)
		}
		if len(fparams) == 0 {
			continue
		}
		k := 0
		inLoop := false
		var walk func(list []ast.Stmt)
		walk = func(list []ast.Stmt) {
			for i, st := range list {
				is, ok := st.(*ast.IfStmt)
				if !ok {
					switch s := st.(type) {
					case *ast.ForStmt:
						old := inLoop
						inLoop = true
						walk(s.Body.List)
						inLoop = old
					case *ast.RangeStmt:
						old := inLoop
						inLoop = true
						walk(s.Body.List)
						inLoop = old
					case *ast.BlockStmt:
						walk(s.List)
					}
					continue
				}
				m, onTrue, ok := successTest(info, is.Cond)
				if !ok {
					walk(is.Body.List)
					if eb, ok := is.Else.(*ast.BlockStmt); ok {
						walk(eb.List)
					}
					continue
				}
				// the tested value must be an operand of this body: a parameter/receiver, or a local defined here
				// (captured cache variables of iterator closures are cursor state, not operands)
				if m.Pos() < fb.Pos() || m.Pos() > fb.Body.End() {
					walk(is.Body.List)
					if eb, ok := is.Else.(*ast.BlockStmt); ok {
						walk(eb.List)
					}
					continue
				}
				nTests++
				k++
				key := fb.Name + "/test#" + itoa(k) + ":" + m.Name()
				// value clauses apply when the function's result is the same kind of monad as the tested value
				sameKindResult := false
				if fb.Type.Results != nil && len(fb.Type.Results.List) >= 1 {
					if tv, ok := info.Types[fb.Type.Results.List[0].Type]; ok && monadKind(tv.Type) == monadKind(m.Type()) {
						sameKindResult = true
					}
				}
				var thenL, elseL []ast.Stmt
				thenL = is.Body.List
				exclusiveElse := false
				switch e := is.Else.(type) {
				case *ast.BlockStmt:
					elseL, exclusiveElse = e.List, true
				case *ast.IfStmt:
					elseL, exclusiveElse = []ast.Stmt{e}, true
				case nil:
					if terminates(thenL) {
						elseL, exclusiveElse = list[i+1:], true
					}
				}
				succ, fail := thenL, elseL
				failExclusive := exclusiveElse
				succExclusive := true
				if !onTrue {
					succ, fail = elseL, thenL
					failExclusive, succExclusive = true, exclusiveElse
				}
				payload := payloadType(m.Type())
				var conts, handlers []*types.Var
				for _, fp := range fparams {
					sig := fp.Type().Underlying().(*types.Signature)
					isCont := false
					for j := 0; j < sig.Params().Len(); j++ {
						if payload != nil && types.Identical(sig.Params().At(j).Type(), payload) {
							isCont = true
						}
					}
					if isCont {
						conts = append(conts, fp)
					} else {
						handlers = append(handlers, fp)
					}
				}
				callsOf := func(list []ast.Stmt, vs []*types.Var) *ast.CallExpr {
					var hit *ast.CallExpr
					for _, s := range list {
						ast.Inspect(s, func(x ast.Node) bool {
							if _, ok := x.(*ast.FuncLit); ok {
								return false
							}
							if call, ok := x.(*ast.CallExpr); ok && hit == nil {
								o := objOf(info, call.Fun)
								if sel, ok := ast.Unparen(call.Fun).(*ast.SelectorExpr); ok && (sel.Sel.Name == "Apply" || sel.Sel.Name == "Run") {
									o = objOf(info, sel.X)
								}
								for _, v := range vs {
									if o == v {
										hit = call
									}
								}
							}
							return true
						})
					}
					return hit
				}
				bad := false
				if failExclusive {
					if call := callsOf(fail, conts); call != nil {
						bad = true
						c.Add(rule, key+"/cont-on-failure", call.Pos(), core.Violated, "continuation `"+exprString(call)+"` is invoked on the failure side of `"+exprString(is.Cond)+"`: a user function positioned after the failure runs")
					}
					for _, s := range fail {
						if nodeContains(s, false, func(x ast.Node) bool {
							call, ok := x.(*ast.CallExpr)
							if !ok {
								return false
							}
							sel, ok := ast.Unparen(call.Fun).(*ast.SelectorExpr)
							if !ok || sel.Sel.Name != "Next" {
								return false
							}
							tv, ok := info.Types[sel.X]
							return ok && isNamed(tv.Type, "fp", "Iterator")
						}) {
							bad = true
							c.Add(rule, key+"/pull-on-failure", s.Pos(), core.Violated, "the source iterator is pulled after a failed step: later elements are consumed (and their functions may run) after the failure")
						}
					}
				}
				if succExclusive && len(succ) > 0 {
					if call := callsOf(succ, handlers); call != nil && handlerLike(info, call, fparams) {
						bad = true
						c.Add(rule, key+"/handler-on-success", call.Pos(), core.Violated, "handler `"+exprString(call)+"` is invoked on the success side of `"+exprString(is.Cond)+"`: successes do not pass through untouched")
					}
					if call := callsOf(succ, conts); call != nil {
						// continuation receives a value extracted from m
						derived := map[types.Object]bool{m: true}
						for _, s := range succ {
							ast.Inspect(s, func(x ast.Node) bool {
								if as, ok := x.(*ast.AssignStmt); ok {
									for i, l := range as.Lhs {
										r := as.Rhs[0]
										if i < len(as.Rhs) {
											r = as.Rhs[i]
										}
										if o := objOf(info, l); o != nil {
											for v := range variablesIn(info, r) {
												if derived[v] {
													derived[o] = true
												}
											}
										}
									}
								}
								return true
							})
						}
						gets := false
						for _, a := range call.Args {
							for v := range variablesIn(info, a) {
								if derived[v] {
									gets = true
								}
							}
						}
						if !gets {
							bad = true
							c.Add(rule, key+"/cont-arg", call.Pos(), core.Violated, "the continuation is called with `"+exprString(call)+"`, none of whose arguments derives from the tested value "+m.Name())
						}
					}
				}
				// inside a loop a failed step must end the fold
				if inLoop && failExclusive && len(fail) > 0 && !nodeContains(&ast.BlockStmt{List: fail}, false, func(x ast.Node) bool {
					switch b := x.(type) {
					case *ast.ReturnStmt:
						return true
					case *ast.BranchStmt:
						return b.Tok == token.BREAK
					case *ast.CallExpr:
						id, ok := b.Fun.(*ast.Ident)
						return ok && id.Name == "panic"
					}
					return false
				}) {
					bad = true
					c.Add(rule, key+"/continues-after-failure", is.Pos(), core.Violated, "the loop goes on after a failed step (the failure side neither returns nor breaks): later elements are pulled and their functions run after the first failure")
				}
				// return-value clauses
				if sameKindResult && failExclusive && len(conts) > 0 && len(handlers) == 0 && !isFoldLike(fb) {
					for _, s := range fail {
						ast.Inspect(s, func(x ast.Node) bool {
							if _, ok := x.(*ast.FuncLit); ok {
								return false
							}
							ret, ok := x.(*ast.ReturnStmt)
							if !ok || len(ret.Results) == 0 {
								return true
							}
							res := ret.Results[0]
							// locals computed from the failed operand alone (err := m.Failed().Get()) stand for it
							fromM := map[types.Object]bool{}
							for changed := true; changed; {
								changed = false
								ast.Inspect(fb.Body, func(y ast.Node) bool {
									as, ok := y.(*ast.AssignStmt)
									if !ok || len(as.Lhs) != len(as.Rhs) {
										return true
									}
									for i, r := range as.Rhs {
										o := objOf(info, as.Lhs[i])
										if o == nil || fromM[o] || o == m {
											continue
										}
										only := true
										any := false
										for v := range variablesIn(info, r) {
											any = true
											if v != m && !fromM[v] {
												only = false
											}
										}
										if only && any {
											fromM[o] = true
											changed = true
										}
									}
									return true
								})
							}
							for v := range variablesIn(info, res) {
								if v != m && !fromM[v] && !sameStateVar(v) {
									bad = true
									c.Add(rule, key+"/failure-result", ret.Pos(), core.Violated, "on the failure side the function returns `"+exprString(res)+"`, which depends on "+v.Name()+" instead of only on the failed operand "+m.Name()+": the operand's own error is not carried unchanged")
									break
								}
							}
							return true
						})
					}
				}
				if sameKindResult && succExclusive && len(handlers) > 0 && len(conts) == 0 {
					for _, s := range succ {
						ast.Inspect(s, func(x ast.Node) bool {
							if _, ok := x.(*ast.FuncLit); ok {
								return false
							}
							ret, ok := x.(*ast.ReturnStmt)
							if !ok || len(ret.Results) == 0 {
								return true
							}
							res := ret.Results[0]
							for v := range variablesIn(info, res) {
								if v != m && !sameStateVar(v) {
									bad = true
									c.Add(rule, key+"/success-result", ret.Pos(), core.Violated, "on the success side the function returns `"+exprString(res)+"`, which depends on "+v.Name()+": a success is not passed through untouched")
									break
								}
							}
							return true
						})
					}
				}
				if !bad {
					c.Add(rule, key, is.Pos(), core.Discharged, "continuations only on success, handlers only on failure")
				}
				walk(is.Body.List)
				if eb, ok := is.Else.(*ast.BlockStmt); ok {
					walk(eb.List)
				}
			}
		}
		walk(fb.Body.List)
	}
	c.Floor(rule, "success tests in functions with function parameters", nTests, 40)
}

// handlerLike: the call really is an invocation of a handler parameter (not of a predicate/selector used to decide).
func handlerLike(info *types.Info, call *ast.CallExpr, fparams []*types.Var) bool {
	o := objOf(info, call.Fun)
	if o == nil {
		return true
	}
	if sig, ok := o.Type().Underlying().(*types.Signature); ok && sig.Results().Len() == 1 {
		if b, ok := sig.Results().At(0).Type().Underlying().(*types.Basic); ok && b.Kind() == types.Bool {
			return false // predicates (isDefinedAt, p) are consulted, not handlers
		}
	}
	return true
}

// isFoldLike: in folds the failure result is the failed step itself (`return t`), already covered by the
// variable rule; kept as a hook for shapes that need exemption.
func isFoldLike(fb *fnBody) bool { return false }

// sameStateVar: state variables threaded next to the monadic value (ns, s) do not carry the error.
func sameStateVar(v types.Object) bool {
	return false
}

// Supplier: zero-argument supplier parameters are called lazily.
func Supplier(c *core.Ctx, rule string, pkgs []*packages.Package) {
	c.Rule(rule, "in the monad packages a supplier parameter (func() X, no arguments) of a combinator that also takes a monadic operand is invoked only inside a function literal handed to another combinator (FlatMap/Map of the preceding operand — the circuit breaker) or under a test of that operand, never unconditionally in the combinator's body")
	n := 0
	for _, p := range pkgs {
		if p == nil {
			continue
		}
		info := p.TypesInfo
		for _, f := range p.Syntax {
			for _, d := range f.Decls {
				fd, ok := d.(*ast.FuncDecl)
				if !ok || fd.Body == nil {
					continue
				}
				var suppliers []*types.Var
				hasMonadOperand := fd.Recv != nil
				for _, fl := range fd.Type.Params.List {
					for _, nm := range fl.Names {
						v, _ := info.Defs[nm].(*types.Var)
						if v == nil {
							continue
						}
						if sig, ok := v.Type().Underlying().(*types.Signature); ok && sig.Params().Len() == 0 && sig.Results().Len() == 1 {
							suppliers = append(suppliers, v)
						} else if monadKind(v.Type()) != "" || isNamed(v.Type(), "fp", "Future") || isNamed(v.Type(), "fp", "StateT") {
							hasMonadOperand = true
						}
					}
				}
				if len(suppliers) == 0 || !hasMonadOperand {
					continue
				}
				name := c.FuncName(p, fd)
				for _, sv := range suppliers {
					n++
					var eager *ast.CallExpr
					var walk func(n ast.Node, guarded bool)
					walk = func(nd ast.Node, guarded bool) {
						ast.Inspect(nd, func(x ast.Node) bool {
							switch s := x.(type) {
							case nil:
								return false
							case *ast.FuncLit:
								return false // deferred
							case *ast.BlockStmt:
								// what follows a guard clause (`if test { …; return }`) runs under the negated test
								g := guarded
								for _, st := range s.List {
									walk(st, g)
									if is, ok := st.(*ast.IfStmt); ok && len(is.Body.List) > 0 {
										if _, isRet := is.Body.List[len(is.Body.List)-1].(*ast.ReturnStmt); isRet {
											g = true
										}
									}
								}
								return false
							case *ast.SwitchStmt:
								{
									walk(s.Init, guarded)
									walk(s.Tag, guarded)
									for _, cc := range s.Body.List {
										cl := cc.(*ast.CaseClause)
										for _, e := range cl.List {
											walk(e, guarded)
										}
										for _, st := range cl.Body {
											walk(st, true)
										}
									}
									return false
								}
							case *ast.IfStmt:
								{
									walk(s.Cond, guarded)
									walk(s.Body, true)
									if s.Else != nil {
										walk(s.Else, true)
									}
									return false
								}
							case *ast.CallExpr:
								if objOf(info, s.Fun) == sv && !guarded && eager == nil {
									eager = s
								}
							}
							return true
						})
					}
					walk(fd.Body, false)
					if eager != nil {
						c.Add(rule, name+"#"+sv.Name(), eager.Pos(), core.Violated, "supplier "+sv.Name()+" is evaluated eagerly in the body of "+name+": it runs even when an earlier operand has already failed")
					} else {
						c.Add(rule, name+"#"+sv.Name(), fd.Pos(), core.Discharged, "supplier invoked only inside a deferred literal / under a test")
					}
				}
			}
		}
	}
	c.Floor(rule, "supplier parameters", n, 40)
	_ = strings.HasPrefix
}
