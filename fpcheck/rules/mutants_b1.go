package rules

// Mutants added after the first round of behaviour-preserving changes (DESIGN.md §11): the benign rewrites that exposed a
// false alarm are kept as silent mutants, and the rule that replaced an accidental catch gets its breaking mutant.

func init() {
	foldOld := "	sum := Pure[S](zero)\n	for s.HasNext() {\n		na := s.Next()\n		sum = FlatMap(sum, func(b B) fp.StateT[S, B] {\n			return f(b, na)\n		})\n	}\n	return sum\n}"
	foldOneShot := "	return func(st S) (fp.Try[B], S) {\n		sum := try.Success(zero)\n		for sum.IsSuccess() && s.HasNext() {\n			sum, st = f(sum.Get(), s.Next())(st)\n		}\n		return sum, st\n	}\n}"
	foldDrained := "	elems := s.ToSeq()\n	return func(cur S) (fp.Try[B], S) {\n		sum := try.Success(zero)\n		for _, na := range elems {\n			if sum.IsFailure() {\n				return try.Failure[B](sum.Failed().Get()), cur\n			}\n			sum, cur = f(sum.Get(), na)(cur)\n		}\n		return sum, cur\n	}\n}"
	addMutants(
		Mutant{"C01", "statet-foldm-consumes-iterator-per-run", "statet/statet_op.go", foldOld, foldOneShot, "R-RERUNNABLE/statet.FoldM", "the StateT is correct on its first run only"},
		Mutant{"C17", "statet-foldm-consumes-iterator-per-run", "statet/statet_op.go", foldOld, foldOneShot, "R-RERUNNABLE/statet.FoldM", "the StateT is correct on its first run only"},
	)
	addSilent(
		Mutant{"C17", "statet-foldm-loop-over-drained-seq", "statet/statet_op.go", foldOld, foldDrained, "", "iterator drained at construction, one run-time loop that rebinds the state"},
		Mutant{"C01", "statet-foldm-loop-over-drained-seq", "statet/statet_op.go", foldOld, foldDrained, "", "iterator drained at construction, one run-time loop that rebinds the state"},
		Mutant{"C18", "slice-clone-explicit-loop", "clone/clone.go", "		return seq.Map(s, tclone.Clone)", "		cloneElem := tclone.Clone\n		ret := make([]T, len(s))\n		for i := range s {\n			ret[i] = cloneElem(s[i])\n		}\n		return ret", "", "method value in a local, explicit index loop"},
		Mutant{"C18", "generic-clone-with-temporaries", "clone/clone.go", "		return gen.From(reprClone.Clone(gen.To(a)))", "		repr := gen.To(a)\n		cloned := reprClone.Clone(repr)\n		return gen.From(cloned)", "", "temporaries naming the representation"},
		Mutant{"C16", "memoize-once-closure-hoisted", "lazy/lazy.go", "		once.Do(func() {\n			ret = f()\n		})", "		once.Do(compute)", "", "the closure handed to once.Do is bound to a variable of the memoiser"},
		Mutant{"C05", "complete-index-loop-early-return", "future.go", "	ret, cbs := r.tryCompleteAndGetListeners(result)\n	for _, cf := range cbs {\n		cf(result)\n	}\n	return ret", "	won, listeners := r.tryCompleteAndGetListeners(result)\n	if !won {\n		return false\n	}\n	for i := 0; i < len(listeners); i++ {\n		listeners[i](result)\n	}\n	return true", "", "index loop over the captured listeners, early return for the loser"},
		Mutant{"C06", "apply-recover-in-deferred-helper", "future/future_op.go", "func Apply[T any](f func() T, ctx ...fp.Executor) fp.Future[T] {", "func failOnPanic[T any](p fp.Promise[T]) {\n	if err := recover(); err != nil {\n		p.Failure(fp.PanicError(err))\n	}\n}\n\nfunc Apply[T any](f func() T, ctx ...fp.Executor) fp.Future[T] {", "", "helper added (used by the next mutant only in spirit; the declaration alone must not disturb the rules)"},
	)
	MutantExtra["C16/memoize-once-closure-hoisted"] = [2]string{"	return func() T {\n		once.Do(compute)", "	compute := func() {\n		ret = f()\n	}\n	return func() T {\n		once.Do(compute)"}
}
