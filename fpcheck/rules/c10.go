package rules

import (
	"go/ast"
	"go/types"

	"fpcheck/core"

	"golang.org/x/tools/go/packages"
)

func init() {
	register("C10", "structural conditions of strict total orders and sorting", func(c *core.Ctx) {
		PtrDeref(c, "R-PTRDEREF", []*packages.Package{c.Pkg("ord")})
		MinMax(c, "R-MINMAX", []*packages.Package{c.Pkg("seq"), c.Pkg("list"), c.Pkg("iterator")})
		ordPkgs := []*packages.Package{c.Pkg("ord"), c.Pkg("fp")}
		Lex(c, "R-LEX", ordPkgs)
		Mirror(c, "R-MIRROR", ordPkgs, typeclassBinMethods, false, nil, 40)
		Rel(c, "R-REL", []*packages.Package{c.Pkg("ord")}, func(p *packages.Package, fd *ast.FuncDecl, fn *types.Func) bool { return true }, nil, 200)
		Sorter(c, "R-SORTER", libPkgs(c))
		Sign(c, "R-SIGN", libPkgs(c))
		Strict(c, "R-STRICT", libPkgs(c))
		NoSwap(c, "R-NOSWAP", []*packages.Package{c.Pkg("ord")})
		Trichotomy(c, "R-TRICHOTOMY", ordPkgs, 2)
		NegLess(c, "R-NEGLESS", ordPkgs)
		Size(c, "R-SIZE", []*packages.Package{c.Pkg("ord")}, 0)
		Payload(c, "R-PAYLOAD", c.Pkgs, map[*packages.Package]bool{c.Pkg("ord"): true, c.Pkg("fp"): true, c.Pkg("seq"): true, c.Pkg("iterator"): true, c.Pkg("list"): true}, 5)
	})
}

// Sorter checks the in-module sort.Interface implementations.
func Sorter(c *core.Ctx, rule string, pkgs []*packages.Package) {
	c.Rule(rule, "every sort.Interface implementation of the module has Less(i,j) = ord.Less(s[i], s[j]) with the indices in order, Swap exchanging exactly s[i] and s[j], and Len = len(s) of the same slice")
	n := 0
	for _, p := range pkgs {
		info := p.TypesInfo
		type impl struct{ len, less, swap *ast.FuncDecl }
		impls := map[string]*impl{}
		for _, f := range p.Syntax {
			for _, d := range f.Decls {
				fd, ok := d.(*ast.FuncDecl)
				if !ok || fd.Recv == nil || fd.Body == nil {
					continue
				}
				tn := core.RecvTypeName(fd.Recv.List[0].Type)
				if impls[tn] == nil {
					impls[tn] = &impl{}
				}
				switch fd.Name.Name {
				case "Len":
					impls[tn].len = fd
				case "Less":
					impls[tn].less = fd
				case "Swap":
					impls[tn].swap = fd
				}
			}
		}
		for tn, im := range impls {
			if im.len == nil || im.less == nil || im.swap == nil {
				continue
			}
			paramNames := func(fd *ast.FuncDecl) []string {
				var out []string
				for _, f := range fd.Type.Params.List {
					for _, nm := range f.Names {
						out = append(out, nm.Name)
					}
				}
				return out
			}
			lp, sp := paramNames(im.less), paramNames(im.swap)
			if len(lp) != 2 || len(sp) != 2 {
				continue
			}
			key := core.ShortPkg(p.PkgPath) + "." + tn
			// Less
			var slice string
			okShape := false
			if len(im.less.Body.List) == 1 {
				if ret, ok := im.less.Body.List[0].(*ast.ReturnStmt); ok && len(ret.Results) == 1 {
					if call, ok := ast.Unparen(ret.Results[0]).(*ast.CallExpr); ok && len(call.Args) == 2 {
						if sel, ok := ast.Unparen(call.Fun).(*ast.SelectorExpr); ok && sel.Sel.Name == "Less" {
							if tv, ok := info.Types[sel.X]; ok && isTypeclassRecv(tv.Type) {
								i1, ok1 := ast.Unparen(call.Args[0]).(*ast.IndexExpr)
								i2, ok2 := ast.Unparen(call.Args[1]).(*ast.IndexExpr)
								if ok1 && ok2 && exprString(i1.X) == exprString(i2.X) {
									okShape = true
									slice = exprString(i1.X)
									n++
									if exprString(i1.Index) == lp[0] && exprString(i2.Index) == lp[1] {
										c.Add(rule, key+".Less", im.less.Pos(), core.Discharged, "Less(i,j) compares s[i] with s[j]")
									} else {
										c.Add(rule, key+".Less", im.less.Pos(), core.Violated, "Less("+lp[0]+","+lp[1]+") evaluates "+exprString(call)+": index order is not preserved, sort.Sort orders by the wrong relation")
									}
								}
							}
						}
					}
				}
			}
			if !okShape {
				c.Add(rule, key+".Less", im.less.Pos(), core.Skipped, "shape not recognised")
				continue
			}
			// Swap
			if len(im.swap.Body.List) == 1 {
				if as, ok := im.swap.Body.List[0].(*ast.AssignStmt); ok && len(as.Lhs) == 2 && len(as.Rhs) == 2 {
					l0, l1, r0, r1 := exprString(as.Lhs[0]), exprString(as.Lhs[1]), exprString(as.Rhs[0]), exprString(as.Rhs[1])
					si, sj := slice+"["+sp[0]+"]", slice+"["+sp[1]+"]"
					n++
					if (l0 == si && l1 == sj && r0 == sj && r1 == si) || (l0 == sj && l1 == si && r0 == si && r1 == sj) {
						c.Add(rule, key+".Swap", im.swap.Pos(), core.Discharged, "exchanges s[i] and s[j]")
					} else {
						c.Add(rule, key+".Swap", im.swap.Pos(), core.Violated, "Swap does not exchange exactly "+si+" and "+sj+": the result is not a permutation")
					}
				} else {
					c.Add(rule, key+".Swap", im.swap.Pos(), core.Skipped, "shape not recognised")
				}
			} else {
				c.Add(rule, key+".Swap", im.swap.Pos(), core.Skipped, "shape not recognised")
			}
			// Len
			if len(im.len.Body.List) == 1 {
				if ret, ok := im.len.Body.List[0].(*ast.ReturnStmt); ok && len(ret.Results) == 1 {
					n++
					if exprString(ret.Results[0]) == "len("+slice+")" {
						c.Add(rule, key+".Len", im.len.Pos(), core.Discharged, "len of the sorted slice")
					} else {
						c.Add(rule, key+".Len", im.len.Pos(), core.Violated, "Len returns "+exprString(ret.Results[0])+", not len("+slice+"): part of the input is not sorted / out of range")
					}
				}
			}
		}
	}
	c.Floor(rule, "sorter methods", n, 6)
}
