package rules

func init() {
	addMutants(
		Mutant{"C04", "seq-append-in-place", "seq.go", `		tail := Seq[T](items)
		ret := make(Seq[T], r.Size()+tail.Size())

		copy(ret, r)

		for i := range tail {
			ret[i+r.Size()] = tail[i]
		}

		return ret`, `		return append(r, items...)`, "fp.Seq.Append", "Append writes the spare capacity of its receiver"},
		Mutant{"C04", "seq-reverse-in-place", "seq.go", `	ret := make(Seq[T], r.Size())

	for i := range r {
		ret[r.Size()-i-1] = r[i]
	}

	return ret`, `	for i, j := 0, len(r)-1; i < j; i, j = i+1, j-1 {
		r[i], r[j] = r[j], r[i]
	}
	return r`, "fp.Seq.Reverse", "Reverse permutes its receiver"},
		Mutant{"C04", "hamt-updated-mutable", "immutable/map.go", `	return m.set(key, value, false)`, `	return m.set(key, value, true)`, "immutable.hamt.Updated", "persistent Updated runs the trie in in-place mode"},
		Mutant{"C04", "hamt-set-no-clone", "immutable/map.go", `	other := m
	if !mutable {
		other = m.clone()
	}
	other.hasher = hasher`, `	other := m
	other.hasher = hasher`, "immutable.hamt.Updated", "path copy of the root removed"},
		Mutant{"C04", "arraynode-set-unguarded", "immutable/map.go", `	// Update in-place if mutable.
	if mutable {
		if idx != -1 {
			n.entries[idx] = mapEntry[K, V]{key, value}`, `	// Update in-place if mutable.
	if mutable || idx != -1 {
		if idx != -1 {
			n.entries[idx] = mapEntry[K, V]{key, value}`, "immutable.hamt.Updated", "array node overwrites an existing entry in place"},
		Mutant{"C04", "gomap-updated-in-place", "map.go", `func (r UnsafeGoMap[K, V]) Updated(k K, v V) MapBase[K, V] {
	n := UnsafeGoMap[K, V]{}
	for ek, ev := range r {
		n[ek] = ev
	}

	n[k] = v
	return n`, `func (r UnsafeGoMap[K, V]) Updated(k K, v V) MapBase[K, V] {
	r[k] = v
	return r`, "fp.UnsafeGoMap.Updated", "map updated in place"},
		Mutant{"C04", "seq-sort-in-place", "seq/seq_op.go", `	ns := make(fp.Seq[T], len(r))
	copy(ns, r)
	sort.Sort(&seqSorter[T]{ns, ord})`, `	ns := r
	sort.Sort(&seqSorter[T]{ns, ord})`, "seq.Sort", "sorts the argument"},
		Mutant{"C04", "distinct-reuses-input", "seq/seq_op.go", `	return Fold(s, make(fp.Seq[V], 0, s.Size()), func(acc fp.Seq[V], a V) fp.Seq[V] {`, `	return Fold(s, s[:0], func(acc fp.Seq[V], a V) fp.Seq[V] {`, "seq.Distinct", "accumulates into the input's backing array through the fold call-back"},
		Mutant{"C04", "list-toseq-alias-sort", "list/list_op.go", `	if len(r) > 0 {
		ret := make([]T, len(r))
		copy(ret, r)
		return ret
	}
	return nil`, `	return r`, "list.Sort", "list.Seq.ToSeq hands out the backing array which Sort then permutes"},
	)
}
