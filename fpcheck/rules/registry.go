// Package rules holds one file per rule family and the per-property wiring.
package rules

import "fpcheck/core"

type Property struct {
	Explanation string
	Run         func(c *core.Ctx)
}

var Registry = map[string]Property{}

func register(id, explanation string, run func(c *core.Ctx)) {
	Registry[id] = Property{Explanation: explanation, Run: run}
}
