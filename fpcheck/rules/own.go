package rules

// E1 — ownership / freshness / effect summaries on SSA.
//
// A small field-sensitive, flow-insensitive points-to analysis per declared
// function (its function literals are analysed in the same object space), with
// interprocedural summaries:
//   writes   which parameter-rooted objects (access paths, depth <= 3) the function may write, each with a
//            guard = set of bool parameters that must be true for the write to happen (the trie's `mutable` flag);
//   rets     what each result may address (fresh / parameter path / global / unknown / call-back result) and, for
//            fresh results, what their contents reach;
//   invokes  calls of function-typed parameters and where their arguments come from (fold-threaded accumulators).
// Summaries are a least fixpoint over the module. Interface calls are the join over in-module implementations
// (package mutable excluded: explicitly mutable surface). A table supplies the effects of the external functions.

import (
	"fmt"
	"go/constant"
	"go/token"
	"go/types"
	"os"
	"sort"
	"strings"
	"time"

	"fpcheck/core"

	"golang.org/x/tools/go/ssa"
)

type locKind int

const (
	kParam locKind = iota
	kFresh
	kGlobal
	kUnknown
	kCB // result of invoking function-typed parameter `param`
)

type loc struct {
	kind  locKind
	param int
	path  string // kParam: selectors joined by "/": f<idx>, e (element), ? (any field), * (anything deeper)
	site  int    // kFresh: instruction ordinal
	idx   int
	desc  string
	typ   string // kFresh: type of the allocated object (summary nodes are merged per type)
}

func (l *loc) String() string {
	switch l.kind {
	case kParam:
		if l.path == "" {
			return fmt.Sprintf("P%d", l.param)
		}
		return fmt.Sprintf("P%d/%s", l.param, l.path)
	case kFresh:
		return "fresh(" + l.desc + ")"
	case kGlobal:
		return "global"
	case kUnknown:
		return "unknown"
	case kCB:
		return fmt.Sprintf("cb(P%d)", l.param)
	}
	return "?"
}

const (
	selWhole = -1
	selElem  = -2
	selAny   = -3
)

type locKey struct {
	kind  locKind
	param int
	path  string
	site  int
	idx   int
}

type ptr struct {
	l   *loc
	sel int
}

type guard uint32 // bit k: bool parameter k must be true

type ptsSet map[ptr]guard

// add joins (p,g) into s; reports change. Guard join = intersection of requirements.
func (s ptsSet) add(p ptr, g guard) bool {
	if old, ok := s[p]; ok {
		n := old & g
		if n != old {
			s[p] = n
			return true
		}
		return false
	}
	s[p] = g
	return true
}

type srcRef struct {
	kind  locKind // kParam, kFresh, kGlobal, kUnknown, kCB
	param int
	path  string
}

func (s srcRef) String() string {
	switch s.kind {
	case kParam:
		return fmt.Sprintf("P%d/%s", s.param, s.path)
	case kFresh:
		return fmt.Sprintf("fresh%d", s.param)
	case kGlobal:
		return "G"
	case kUnknown:
		return "U"
	case kCB:
		return fmt.Sprintf("cb%d", s.param)
	}
	return "?"
}

type writeInfo struct {
	g     guard
	pos   token.Pos
	how   string
	fresh bool
}

type invokeSum struct {
	param int
	args  []map[srcRef]bool
}

type ownSummary struct {
	writes    map[srcRef]writeInfo
	own       []map[srcRef]guard
	nodes     []map[int]map[srcRef]bool // returned fresh shape graph: node -> selector -> targets (kFresh.param = node index)
	nodeTypes []string
	invokes   []invokeSum
	ownF      []map[int]map[srcRef]guard // struct-valued result j, field k: what that field may address (nil: not told apart)
}

func (s *ownSummary) key() string {
	var parts []string
	for k, w := range s.writes {
		parts = append(parts, fmt.Sprintf("w:%s:%d", k, w.g))
	}
	for j := range s.own {
		for k, g := range s.own[j] {
			parts = append(parts, fmt.Sprintf("o%d:%s:%d", j, k, g))
		}
	}
	for j := range s.ownF {
		for k, m := range s.ownF[j] {
			for r, g := range m {
				parts = append(parts, fmt.Sprintf("f%d.%d:%s:%d", j, k, r, g))
			}
		}
	}
	for n, edges := range s.nodes {
		for sel, ts := range edges {
			for t := range ts {
				parts = append(parts, fmt.Sprintf("n%d.%d:%s", n, sel, t))
			}
		}
	}
	for _, iv := range s.invokes {
		for k, a := range iv.args {
			for r := range a {
				parts = append(parts, fmt.Sprintf("i%d.%d:%s", iv.param, k, r))
			}
		}
	}
	sort.Strings(parts)
	return strings.Join(parts, ";")
}

type ownEngine struct {
	c              *core.Ctx
	prog           *ssa.Program
	sums           map[*ssa.Function]*ownSummary
	byMethod       map[string][]*ssa.Function // method name -> in-module implementations (package mutable excluded)
	assumedRO      map[string]bool
	last           map[*ssa.Function]*funcOwn
	steps          int
	opaqueRecv     func(types.Type) bool
	scope          map[string]bool
	includeMutable bool
	implCache      map[implKey][]*ssa.Function
	msCache        map[types.Type]*types.MethodSet
}

type funcOwn struct {
	e          *ownEngine
	top        *ssa.Function
	funcs      []*ssa.Function
	locs       map[locKey]*loc
	siteID     map[any]int
	pts        map[ssa.Value]ptsSet
	tuples     map[ssa.Value][]ptsSet
	contents   map[*loc]map[int]ptsSet
	written    map[*loc]writeInfo
	retPts     map[*ssa.Function][]ptsSet
	blockGuard map[*ssa.BasicBlock]guard
	closureOf  map[*loc]*ssa.Function
	litIndex   map[*ssa.Function]int
	callees    map[*ssa.Function]bool
	valFields  map[ssa.Value]map[int]ptsSet // struct-valued call results whose fields the callee's summary tells apart
	retF       []map[int]ptsSet             // per result of the declared function: per-field sets of a returned struct value
	retFlat    []bool                       // …some return of that result could not be told apart
	invokes    []struct {
		param int
		args  []ptsSet
	}
	changed bool
	iters   int
	marks   map[int]int
}

func pointerLike(t types.Type) bool {
	return pointerLikeD(t, 0)
}

func pointerLikeD(t types.Type, d int) bool {
	if t == nil || d > 6 {
		return true
	}
	switch x := t.Underlying().(type) {
	case *types.Basic:
		return x.Kind() == types.UnsafePointer
	case *types.Pointer, *types.Slice, *types.Map, *types.Chan, *types.Signature, *types.Interface:
		return true
	case *types.Struct:
		for i := 0; i < x.NumFields(); i++ {
			if pointerLikeD(x.Field(i).Type(), d+1) {
				return true
			}
		}
		return false
	case *types.Array:
		return pointerLikeD(x.Elem(), d+1)
	case *types.Tuple:
		for i := 0; i < x.Len(); i++ {
			if pointerLikeD(x.At(i).Type(), d+1) {
				return true
			}
		}
		return false
	}
	if _, ok := t.(*types.TypeParam); ok {
		return true
	}
	return true
}

func newOwnEngine(c *core.Ctx) *ownEngine {
	prog, _ := c.SSA()
	e := &ownEngine{c: c, prog: prog, sums: map[*ssa.Function]*ownSummary{}, byMethod: map[string][]*ssa.Function{}, assumedRO: map[string]bool{}, last: map[*ssa.Function]*funcOwn{}, implCache: map[implKey][]*ssa.Function{}, msCache: map[types.Type]*types.MethodSet{}}
	return e
}

// run computes summaries for the given declared functions to a fixpoint (dependency-driven worklist).
func (e *ownEngine) run() {
	for _, fn := range srcFuncs(e.c) {
		if fn.Parent() != nil || fn.Signature.Recv() == nil {
			continue
		}
		if !e.includeMutable && fn.Pkg != nil && strings.HasSuffix(fn.Pkg.Pkg.Path(), "/mutable") {
			continue
		}
		e.byMethod[fn.Name()] = append(e.byMethod[fn.Name()], fn)
	}
	inScope := e.scope
	if inScope == nil {
		inScope = map[string]bool{}
		for _, p := range libPkgs(e.c) {
			inScope[p.PkgPath] = true
		}
	}
	var tops []*ssa.Function
	for _, fn := range srcFuncs(e.c) {
		if fn.Parent() == nil && fn.Pkg != nil && inScope[fn.Pkg.Pkg.Path()] {
			tops = append(tops, fn)
		}
	}
	// callee-first initial order (post-order over static callees) keeps re-analysis low
	isTop := map[*ssa.Function]bool{}
	for _, fn := range tops {
		isTop[fn] = true
	}
	visited := map[*ssa.Function]bool{}
	var ordered []*ssa.Function
	var dfs func(fn *ssa.Function)
	dfs = func(fn *ssa.Function) {
		if visited[fn] || !isTop[fn] {
			return
		}
		visited[fn] = true
		var all []*ssa.Function
		collectLiterals(fn, &all)
		for _, f := range all {
			for _, b := range f.Blocks {
				for _, ins := range b.Instrs {
					ci, ok := ins.(ssa.CallInstruction)
					if !ok {
						continue
					}
					cc := ci.Common()
					if cc.IsInvoke() {
						for _, im := range e.implementations(cc) {
							dfs(im)
						}
					} else if cal := cc.StaticCallee(); cal != nil {
						if org := cal.Origin(); org != nil {
							cal = org
						}
						dfs(cal)
					}
				}
			}
		}
		ordered = append(ordered, fn)
	}
	for _, fn := range tops {
		dfs(fn)
	}
	tops = ordered
	rdeps := map[*ssa.Function]map[*ssa.Function]bool{}
	inQueue := map[*ssa.Function]bool{}
	queue := append([]*ssa.Function{}, tops...)
	for _, fn := range tops {
		inQueue[fn] = true
	}
	steps := 0
	for len(queue) > 0 && steps < 40*len(tops) {
		fn := queue[0]
		queue = queue[1:]
		inQueue[fn] = false
		steps++
		if os.Getenv("FPCHECK_DEBUG") != "" && steps%500 == 0 {
			fmt.Fprintf(os.Stderr, "own: step %d queue %d (%s)\n", steps, len(queue), fnName(fn))
		}
		t0 := time.Now()
		fo := e.analyze(fn)
		if d := time.Since(t0); d > 500*time.Millisecond && os.Getenv("FPCHECK_DEBUG") != "" {
			fmt.Fprintf(os.Stderr, "own: slow %s %v locs=%d iters=%d marks=%v\n", fnName(fn), d, len(fo.locs), fo.iters, fo.marks)
		}
		for callee := range fo.callees {
			if rdeps[callee] == nil {
				rdeps[callee] = map[*ssa.Function]bool{}
			}
			rdeps[callee][fn] = true
		}
		s := fo.summary()
		old := e.sums[fn]
		e.sums[fn] = s
		if old == nil || old.key() != s.key() {
			for d := range rdeps[fn] {
				if !inQueue[d] {
					inQueue[d] = true
					queue = append(queue, d)
				}
			}
		}
	}
	e.steps = steps
}

func (e *ownEngine) analyze(top *ssa.Function) *funcOwn {
	fo := &funcOwn{e: e, top: top, locs: map[locKey]*loc{}, siteID: map[any]int{}, pts: map[ssa.Value]ptsSet{},
		tuples: map[ssa.Value][]ptsSet{}, contents: map[*loc]map[int]ptsSet{}, written: map[*loc]writeInfo{},
		retPts: map[*ssa.Function][]ptsSet{}, blockGuard: map[*ssa.BasicBlock]guard{}, closureOf: map[*loc]*ssa.Function{}, litIndex: map[*ssa.Function]int{}, callees: map[*ssa.Function]bool{}}
	fo.valFields = map[ssa.Value]map[int]ptsSet{}
	if nr := top.Signature.Results().Len(); nr > 0 {
		fo.retF = make([]map[int]ptsSet, nr)
		fo.retFlat = make([]bool, nr)
		for j := range fo.retF {
			fo.retF[j] = map[int]ptsSet{}
		}
	}
	collectLiterals(top, &fo.funcs)
	for _, f := range fo.funcs {
		for _, b := range f.Blocks {
			for _, ins := range b.Instrs {
				fo.siteID[ins] = len(fo.siteID) + 1
			}
		}
	}
	for i, f := range fo.funcs {
		fo.litIndex[f] = i
		n := f.Signature.Results().Len()
		fo.retPts[f] = make([]ptsSet, n)
		for j := range fo.retPts[f] {
			fo.retPts[f][j] = ptsSet{}
		}
		fo.computeBlockGuards(f)
	}
	for iter := 0; iter < 200; iter++ {
		fo.iters = iter
		fo.changed = false
		for _, f := range fo.funcs {
			for _, b := range f.Blocks {
				for _, ins := range b.Instrs {
					fo.process(f, b, ins)
				}
			}
		}
		if !fo.changed {
			break
		}
	}
	return fo
}

func (fo *funcOwn) boolParamBit(v ssa.Value) (guard, bool) {
	p, ok := v.(*ssa.Parameter)
	if !ok || p.Parent() != fo.top {
		return 0, false
	}
	if b, ok := p.Type().Underlying().(*types.Basic); !ok || b.Kind() != types.Bool {
		return 0, false
	}
	for i, q := range fo.top.Params {
		if q == p && i < 32 {
			return 1 << uint(i), true
		}
	}
	return 0, false
}

// condGuard: the guard that holds on successor index si of an If on cond.
func (fo *funcOwn) condGuard(cond ssa.Value, si int) guard {
	return fo.truthGuard(cond, si == 0, 0)
}

// truthGuard: the bool parameters known to be true when v evaluates to want. A short-circuit `a && b` (or the negation
// of `a || b`) reaches the branch as a phi of constants and the last operand (go/ssa materialises the case expressions
// of a tagless switch this way); the guard is what every edge that can produce `want` agrees on.
func (fo *funcOwn) truthGuard(v ssa.Value, want bool, depth int) guard {
	for {
		if u, ok := v.(*ssa.UnOp); ok && u.Op == token.NOT {
			v, want = u.X, !want
			continue
		}
		break
	}
	if bit, ok := fo.boolParamBit(v); ok {
		if want {
			return bit
		}
		return 0
	}
	phi, ok := v.(*ssa.Phi)
	if !ok || depth > 4 {
		return 0
	}
	first := true
	var out guard
	for i, e := range phi.Edges {
		if c, ok := e.(*ssa.Const); ok && c.Value != nil && c.Value.Kind() == constant.Bool {
			if constant.BoolVal(c.Value) != want {
				continue
			}
		}
		g := fo.blockGuard[phi.Block().Preds[i]] | fo.truthGuard(e, want, depth+1)
		if first {
			out, first = g, false
		} else {
			out &= g
		}
	}
	return out
}

func (fo *funcOwn) computeBlockGuards(f *ssa.Function) {
	// two rounds: a phi condition reads the guards of its predecessor blocks
	for round := 0; round < 2; round++ {
		for _, b := range f.Blocks {
			if len(b.Instrs) == 0 {
				continue
			}
			iff, ok := b.Instrs[len(b.Instrs)-1].(*ssa.If)
			if !ok {
				continue
			}
			for si, t := range b.Succs {
				g := fo.condGuard(iff.Cond, si)
				if g == 0 || len(t.Preds) != 1 {
					continue
				}
				for _, d := range f.Blocks {
					if t.Dominates(d) {
						fo.blockGuard[d] |= g
					}
				}
			}
		}
	}
}

func (fo *funcOwn) mkLoc(kind locKind, param int, path string, site any, idx int, desc string) *loc {
	sid := 0
	if site != nil {
		if id, ok := fo.siteID[site]; ok {
			sid = id
		} else {
			panic(fmt.Sprintf("own: allocation site without ordinal: %v", site))
		}
	}
	key := locKey{kind, param, path, sid, idx}
	if l, ok := fo.locs[key]; ok {
		return l
	}
	l := &loc{kind: kind, param: param, path: path, site: sid, idx: idx, desc: desc}
	fo.locs[key] = l
	return l
}

func (fo *funcOwn) fresh(site any, idx int, desc string, typ types.Type) *loc {
	l := fo.mkLoc(kFresh, 0, "", site, idx, desc)
	if l.typ == "" {
		if typ != nil {
			l.typ = typ.String()
		} else {
			l.typ = desc
		}
	}
	return l
}

func (fo *funcOwn) freshT(site any, idx int, desc string, typ string) *loc {
	l := fo.mkLoc(kFresh, 0, "", site, idx, desc)
	if l.typ == "" {
		l.typ = typ
	}
	return l
}

func (fo *funcOwn) set(v ssa.Value) ptsSet {
	s, ok := fo.pts[v]
	if !ok {
		s = ptsSet{}
		fo.pts[v] = s
	}
	return s
}

func (fo *funcOwn) add(v ssa.Value, p ptr, g guard) {
	if fo.set(v).add(p, g) {
		fo.mark(504)
	}
}

func (fo *funcOwn) addAll(v ssa.Value, s ptsSet, g guard) {
	dst := fo.set(v)
	for p, pg := range s {
		if dst.add(p, pg|g) {
			fo.mark(512)
		}
	}
}

// union adds s into a temporary set (does not count as analysis progress).
func union(dst ptsSet, s ptsSet, g guard) {
	for p, pg := range s {
		dst.add(p, pg|g)
	}
}

func (fo *funcOwn) addSet(dst ptsSet, s ptsSet, g guard) {
	for p, pg := range s {
		if dst.add(p, pg|g) {
			fo.mark(520)
		}
	}
}

// ptsOf returns the points-to set of an operand.
func (fo *funcOwn) ptsOf(v ssa.Value) ptsSet {
	switch x := v.(type) {
	case *ssa.Parameter:
		if s, ok := fo.pts[v]; ok && x.Parent() != fo.top {
			return s
		}
		if !pointerLike(x.Type()) {
			return nil
		}
		if x.Parent() == fo.top {
			for i, q := range fo.top.Params {
				if q == x {
					return ptsSet{ptr{fo.mkLoc(kParam, i, "", nil, 0, ""), selWhole}: 0}
				}
			}
		}
		// unbound literal parameter
		li := fo.litIndex[x.Parent()]
		for i, q := range x.Parent().Params {
			if q == x {
				s := fo.set(v)
				if len(s) == 0 {
					s[ptr{fo.mkLoc(kParam, 1000*li+i, "", nil, 0, ""), selWhole}] = 0
				}
				return s
			}
		}
	case *ssa.Global:
		return ptsSet{ptr{fo.mkLoc(kGlobal, 0, "", nil, 0, ""), selWhole}: 0}
	case *ssa.Const, *ssa.Function, *ssa.Builtin:
		return nil
	}
	return fo.pts[v]
}

func childPath(path, sel string) string {
	if strings.HasSuffix(path, "*") {
		return path
	}
	if path == "" {
		return sel
	}
	if strings.Count(path, "/") >= 2 {
		return path + "/*"
	}
	return path + "/" + sel
}

func selName(sel int) string {
	switch sel {
	case selWhole, selAny:
		return "?"
	case selElem:
		return "e"
	}
	return fmt.Sprintf("f%d", sel)
}

// loadEach enumerates the pointers stored at p.
func (fo *funcOwn) loadEach(p ptr, f func(q ptr, g guard)) {
	switch p.l.kind {
	case kParam:
		f(ptr{fo.mkLoc(kParam, p.l.param, childPath(p.l.path, selName(p.sel)), nil, 0, ""), selWhole}, 0)
	case kFresh:
		m := fo.contents[p.l]
		if p.sel == selWhole || p.sel == selAny {
			for _, s := range m {
				for q, g := range s {
					f(q, g)
				}
			}
		} else {
			for q, g := range m[p.sel] {
				f(q, g)
			}
			for q, g := range m[selAny] {
				f(q, g)
			}
		}
	case kGlobal:
		f(ptr{p.l, selWhole}, 0)
		f(fo.unknownPtr(), 0)
	case kUnknown, kCB:
		f(ptr{p.l, selWhole}, 0)
	}
}

// load: the pointers stored at p (allocates; prefer loadEach on hot paths).
func (fo *funcOwn) load(p ptr) ptsSet {
	out := ptsSet{}
	fo.loadEach(p, func(q ptr, g guard) { out.add(q, g) })
	return out
}

func (fo *funcOwn) storeInto(p ptr, vals ptsSet) {
	if p.l.kind != kFresh || len(vals) == 0 {
		return
	}
	m := fo.contents[p.l]
	if m == nil {
		m = map[int]ptsSet{}
		fo.contents[p.l] = m
	}
	sel := p.sel
	if sel == selWhole {
		sel = selAny
	}
	if m[sel] == nil {
		m[sel] = ptsSet{}
	}
	fo.addSet(m[sel], vals, 0)
}

// valueParamFields: v is a struct-valued parameter of the declared function (typically a value receiver). Its
// pointer-like fields are named by the access paths "vK" (field K of the value itself, as opposed to "fK", field K of
// what a pointer refers to), so that a write through one field is not attributed to what the other fields refer to.
// Function-typed fields stay on the whole-parameter location (they are the call-backs of the declared function).
func (fo *funcOwn) valueParamFields(v ssa.Value) map[int]ptsSet {
	par, ok := v.(*ssa.Parameter)
	if !ok || par.Parent() != fo.top {
		return nil
	}
	st, ok := par.Type().Underlying().(*types.Struct)
	if !ok {
		return nil
	}
	idx := -1
	for i, q := range fo.top.Params {
		if q == par {
			idx = i
		}
	}
	if idx < 0 {
		return nil
	}
	out := map[int]ptsSet{}
	for k := 0; k < st.NumFields(); k++ {
		ft := st.Field(k).Type()
		if !pointerLike(ft) {
			continue
		}
		if _, isFunc := ft.Underlying().(*types.Signature); isFunc {
			out[k] = ptsSet{ptr{fo.mkLoc(kParam, idx, "", nil, 0, ""), selWhole}: 0}
			continue
		}
		if _, isStruct := ft.Underlying().(*types.Struct); isStruct {
			// nested struct value: stays flat (everything the parameter holds)
			out[k] = ptsSet{ptr{fo.mkLoc(kParam, idx, "", nil, 0, ""), selWhole}: 0}
			continue
		}
		out[k] = ptsSet{ptr{fo.mkLoc(kParam, idx, fmt.Sprintf("v%d", k), nil, 0, ""), selWhole}: 0}
	}
	return out
}

// fieldsOf: the per-field points-to sets of a struct *value*, when its fields can be told apart: a struct-valued
// parameter of the declared function, the result of a call whose summary keeps the fields apart, or a load of a local
// struct that was only ever written field by field.
func (fo *funcOwn) fieldsOf(v ssa.Value) (map[int]ptsSet, bool) {
	switch a := v.(type) {
	case *ssa.Parameter:
		if vf := fo.valueParamFields(a); vf != nil {
			return vf, true
		}
	case *ssa.Call:
		if vf, ok := fo.valFields[a]; ok {
			return vf, true
		}
	case *ssa.UnOp:
		if a.Op != token.MUL {
			return nil, false
		}
		st, ok := a.Type().Underlying().(*types.Struct)
		if !ok {
			return nil, false
		}
		src := fo.ptsOf(a.X)
		if len(src) == 0 {
			return nil, false
		}
		for p := range src {
			if p.sel != selWhole || p.l.kind != kFresh {
				return nil, false
			}
			if m := fo.contents[p.l]; m != nil && len(m[selAny]) > 0 {
				return nil, false
			}
		}
		out := map[int]ptsSet{}
		for k := 0; k < st.NumFields(); k++ {
			if !pointerLike(st.Field(k).Type()) {
				continue
			}
			set := ptsSet{}
			for p, g := range src {
				fo.loadEach(ptr{p.l, k}, func(q ptr, qg guard) { set.add(q, g|qg) })
			}
			out[k] = set
		}
		return out, true
	case *ssa.MakeInterface:
		return fo.fieldsOf(a.X)
	case *ssa.ChangeType:
		return fo.fieldsOf(a.X)
	}
	return nil, false
}

// projectValueField: caller side of a "vK" path component — the pointers field K of the struct value arg holds.
// ok=false: arg is not in a shape whose fields can be told apart (the caller then keeps the whole value: a superset).
func (fo *funcOwn) projectValueField(arg ssa.Value, k int) (map[*loc]guard, bool) {
	vf, ok := fo.fieldsOf(arg)
	if !ok {
		return nil, false
	}
	out := map[*loc]guard{}
	for p, g := range vf[k] {
		if old, has := out[p.l]; has {
			out[p.l] = old & g
		} else {
			out[p.l] = g
		}
	}
	return out, true
}

func (fo *funcOwn) write(l *loc, g guard, pos token.Pos, how string) {
	if old, ok := fo.written[l]; ok {
		if old.g == g && strings.HasPrefix(old.how, "call of") && !strings.HasPrefix(how, "call of") {
			old.pos, old.how = pos, how // prefer the direct write as the witness
			fo.written[l] = old
		}
		n := old.g & g
		if n != old.g {
			old.g = n
			if n == 0 {
				old.pos, old.how = pos, how
			}
			fo.written[l] = old
			fo.mark(648)
		}
		return
	}
	fo.written[l] = writeInfo{g: g, pos: pos, how: how}
	fo.mark(653)
}

// edgeGuard: guard that holds when control flows pred -> b.
func (fo *funcOwn) edgeGuard(pred, b *ssa.BasicBlock) guard {
	g := fo.blockGuard[pred]
	if len(pred.Instrs) > 0 {
		if iff, ok := pred.Instrs[len(pred.Instrs)-1].(*ssa.If); ok {
			for si, s := range pred.Succs {
				if s == b {
					// only if the other successor is a different block
					if len(pred.Succs) == 2 && pred.Succs[0] != pred.Succs[1] {
						g |= fo.condGuard(iff.Cond, si)
					}
				}
			}
		}
	}
	return g
}

func (fo *funcOwn) process(f *ssa.Function, b *ssa.BasicBlock, ins ssa.Instruction) {
	bg := fo.blockGuard[b]
	switch x := ins.(type) {
	case *ssa.Alloc:
		fo.add(x, ptr{fo.fresh(x, 0, "local "+x.Comment, x.Type()), selWhole}, 0)
	case *ssa.MakeSlice:
		fo.add(x, ptr{fo.fresh(x, 0, "make slice", x.Type()), selWhole}, 0)
	case *ssa.MakeMap:
		fo.add(x, ptr{fo.fresh(x, 0, "make map", x.Type()), selWhole}, 0)
	case *ssa.MakeChan:
		fo.add(x, ptr{fo.fresh(x, 0, "make chan", x.Type()), selWhole}, 0)
	case *ssa.FieldAddr:
		for p, g := range fo.ptsOf(x.X) {
			sel := p.sel
			if sel == selWhole {
				sel = x.Field
			}
			fo.add(x, ptr{p.l, sel}, g)
		}
	case *ssa.IndexAddr:
		for p, g := range fo.ptsOf(x.X) {
			sel := p.sel
			if sel == selWhole {
				sel = selElem
			}
			fo.add(x, ptr{p.l, sel}, g)
		}
	case *ssa.UnOp:
		if x.Op == token.MUL && pointerLike(x.Type()) {
			dst := fo.set(x)
			for p, g := range fo.ptsOf(x.X) {
				fo.loadEach(p, func(q ptr, qg guard) {
					if dst.add(q, qg|g) {
						fo.mark(707)
					}
				})
			}
		}
		if x.Op == token.ARROW && pointerLike(x.Type()) {
			fo.add(x, ptr{fo.mkLoc(kUnknown, 0, "", nil, 0, ""), selWhole}, 0)
		}
	case *ssa.Store:
		vals := ptsSet(nil)
		if pointerLike(x.Val.Type()) {
			vals = fo.ptsOf(x.Val)
		}
		var vfields map[int]ptsSet
		switch x.Val.(type) {
		case *ssa.Parameter, *ssa.Call:
			vfields, _ = fo.fieldsOf(x.Val)
		}
		for p, g := range fo.ptsOf(x.Addr) {
			fo.write(p.l, g|bg, instrPos(ins), "store")
			if vfields != nil && p.sel == selWhole && p.l.kind == kFresh {
				// spill of a struct-valued parameter (value receiver): keep its fields apart
				for k, fs := range vfields {
					fo.storeInto(ptr{p.l, k}, fs)
				}
				continue
			}
			fo.storeInto(p, vals)
		}
	case *ssa.Phi:
		for i, e := range x.Edges {
			fo.addAll(x, fo.ptsOf(e), fo.edgeGuard(b.Preds[i], b))
		}
	case *ssa.ChangeType:
		fo.addAll(x, fo.ptsOf(x.X), 0)
	case *ssa.ChangeInterface:
		fo.addAll(x, fo.ptsOf(x.X), 0)
	case *ssa.MakeInterface:
		fo.addAll(x, fo.ptsOf(x.X), 0)
	case *ssa.SliceToArrayPointer:
		fo.addAll(x, fo.ptsOf(x.X), 0)
	case *ssa.Slice:
		fo.addAll(x, fo.ptsOf(x.X), 0)
	case *ssa.Convert:
		_, fromStr := x.X.Type().Underlying().(*types.Basic)
		_, toSlice := x.Type().Underlying().(*types.Slice)
		if fromStr && toSlice {
			fo.add(x, ptr{fo.fresh(x, 0, "string conversion", x.Type()), selWhole}, 0)
		} else if pointerLike(x.Type()) {
			fo.addAll(x, fo.ptsOf(x.X), 0)
		}
	case *ssa.TypeAssert:
		if x.CommaOk {
			fo.tupleSet(x, 2)
			fo.addSet(fo.tuples[x][0], fo.ptsOf(x.X), 0)
		} else {
			fo.addAll(x, fo.ptsOf(x.X), 0)
		}
	case *ssa.Field:
		if pointerLike(x.Type()) {
			if vf, ok := fo.fieldsOf(x.X); ok && vf[x.Field] != nil {
				fo.addAll(x, vf[x.Field], 0)
			} else {
				fo.addAll(x, fo.ptsOf(x.X), 0)
			}
		}
	case *ssa.Index:
		if pointerLike(x.Type()) {
			fo.addAll(x, fo.ptsOf(x.X), 0)
		}
	case *ssa.Lookup:
		if _, isMap := x.X.Type().Underlying().(*types.Map); isMap {
			res := ptsSet{}
			for p, g := range fo.ptsOf(x.X) {
				for q, qg := range fo.load(ptr{p.l, selElem}) {
					res.add(q, g|qg)
				}
			}
			if x.CommaOk {
				fo.tupleSet(x, 2)
				fo.addSet(fo.tuples[x][0], res, 0)
			} else {
				fo.addAll(x, res, 0)
			}
		}
	case *ssa.Range:
		fo.addAll(x, fo.ptsOf(x.X), 0)
	case *ssa.Next:
		fo.tupleSet(x, 3)
		if !x.IsString {
			for p, g := range fo.ptsOf(x.Iter) {
				ld := fo.load(ptr{p.l, selElem})
				fo.addSet(fo.tuples[x][1], ld, g)
				fo.addSet(fo.tuples[x][2], ld, g)
			}
		}
	case *ssa.Extract:
		if t, ok := fo.tuples[x.Tuple]; ok && x.Index < len(t) && pointerLike(x.Type()) {
			fo.addAll(x, t[x.Index], 0)
		}
	case *ssa.MapUpdate:
		vals := ptsSet{}
		union(vals, fo.ptsOf(x.Key), 0)
		union(vals, fo.ptsOf(x.Value), 0)
		for p, g := range fo.ptsOf(x.Map) {
			fo.write(p.l, g|bg, instrPos(ins), "map update")
			fo.storeInto(ptr{p.l, selElem}, vals)
		}
	case *ssa.MakeClosure:
		g := x.Fn.(*ssa.Function)
		l := fo.fresh(x, 0, "closure "+g.Name(), nil)
		fo.closureOf[l] = g
		fo.add(x, ptr{l, selWhole}, 0)
		for i, bnd := range x.Bindings {
			bp := fo.ptsOf(bnd)
			fo.storeInto(ptr{l, selAny}, bp)
			if i < len(g.FreeVars) {
				fo.addAll(g.FreeVars[i], bp, 0)
			}
		}
	case *ssa.Call:
		fo.call(f, b, ins, &x.Call, x)
	case *ssa.Defer:
		fo.call(f, b, ins, &x.Call, nil)
	case *ssa.Go:
		fo.call(f, b, ins, &x.Call, nil)
	case *ssa.Return:
		for j, r := range x.Results {
			if j < len(fo.retPts[f]) && pointerLike(r.Type()) {
				fo.addSet(fo.retPts[f][j], fo.ptsOf(r), bg)
			}
			if f == fo.top && j < len(fo.retF) {
				if _, isStruct := r.Type().Underlying().(*types.Struct); isStruct && pointerLike(r.Type()) {
					if vf, ok := fo.fieldsOf(r); ok {
						for k, set := range vf {
							if fo.retF[j][k] == nil {
								fo.retF[j][k] = ptsSet{}
							}
							fo.addSet(fo.retF[j][k], set, bg)
						}
					} else if !fo.retFlat[j] {
						fo.retFlat[j] = true
						fo.mark(901)
					}
				}
			}
		}
	}
}

func (fo *funcOwn) tupleSet(v ssa.Value, n int) {
	if _, ok := fo.tuples[v]; !ok {
		t := make([]ptsSet, n)
		for i := range t {
			t[i] = ptsSet{}
		}
		fo.tuples[v] = t
	}
}

// setResult records the points-to set of result j of a call.
func (fo *funcOwn) setResult(res *ssa.Call, n, j int, s ptsSet, g guard) {
	if res == nil {
		return
	}
	if n == 1 {
		fo.addAll(res, s, g)
		return
	}
	fo.tupleSet(res, n)
	if j < len(fo.tuples[res]) {
		fo.addSet(fo.tuples[res][j], s, g)
	}
}

func (fo *funcOwn) unknownPtr() ptr { return ptr{fo.mkLoc(kUnknown, 0, "", nil, 0, ""), selWhole} }

func (fo *funcOwn) call(f *ssa.Function, b *ssa.BasicBlock, ins ssa.Instruction, cc *ssa.CallCommon, res *ssa.Call) {
	bg := fo.blockGuard[b]
	nres := cc.Signature().Results().Len()
	pos := instrPos(ins)
	// builtins
	if bi, ok := cc.Value.(*ssa.Builtin); ok {
		switch bi.Name() {
		case "append":
			if len(cc.Args) == 2 && res != nil {
				src := ptsSet{}
				for p := range fo.ptsOf(cc.Args[1]) {
					union(src, fo.load(ptr{p.l, selElem}), 0)
				}
				nl := fo.fresh(ins, 0, "append", res.Type())
				fo.add(res, ptr{nl, selWhole}, 0)
				for p, g := range fo.ptsOf(cc.Args[0]) {
					fo.add(res, p, g)
					fo.write(p.l, g|bg, pos, "append (may write spare capacity of the backing array)")
					fo.storeInto(ptr{p.l, selElem}, src)
					fo.storeInto(ptr{nl, selElem}, fo.load(ptr{p.l, selElem}))
				}
				fo.storeInto(ptr{nl, selElem}, src)
			}
		case "copy":
			if len(cc.Args) == 2 {
				src := ptsSet{}
				for p := range fo.ptsOf(cc.Args[1]) {
					union(src, fo.load(ptr{p.l, selElem}), 0)
				}
				for p, g := range fo.ptsOf(cc.Args[0]) {
					fo.write(p.l, g|bg, pos, "copy into")
					fo.storeInto(ptr{p.l, selElem}, src)
				}
			}
		case "delete", "clear":
			if len(cc.Args) >= 1 {
				for p, g := range fo.ptsOf(cc.Args[0]) {
					fo.write(p.l, g|bg, pos, bi.Name())
				}
			}
		}
		return
	}
	var args []ssa.Value
	if cc.IsInvoke() {
		args = append([]ssa.Value{cc.Value}, cc.Args...)
		impls := fo.e.implementations(cc)
		if len(impls) == 0 {
			fo.externalResult(res, nres, args)
			return
		}
		for _, im := range impls {
			fo.apply(im, args, ins, res, nres, bg)
		}
		return
	}
	args = cc.Args
	if callee := cc.StaticCallee(); callee != nil {
		if org := callee.Origin(); org != nil {
			callee = org
		}
		// bound-method / thunk wrappers: unwrap to the real method when it is a module method
		if callee.Synthetic != "" && callee.Parent() == nil {
			if o, ok := callee.Object().(*types.Func); ok && o != nil {
				if real := fo.e.prog.FuncValue(o.Origin()); real != nil {
					callee = real
				}
			}
		}
		if callee.Parent() != nil && fo.litIndex[callee] > 0 || callee == fo.top && false {
			// direct call of one of our own literals
			fo.bindLiteral(callee, args, res, nres)
			return
		}
		if callee.Blocks != nil && callee.Pkg != nil && modulePkg(callee.Pkg.Pkg) {
			fo.apply(callee, args, ins, res, nres, bg)
			return
		}
		fo.external(callee, args, ins, res, nres, bg)
		return
	}
	// dynamic call of a function value
	handled := false
	for p := range fo.ptsOf(cc.Value) {
		if g := fo.closureOf[p.l]; g != nil {
			if _, ours := fo.litIndex[g]; ours {
				fo.bindLiteral(g, args, res, nres)
				handled = true
			} else {
				handled = true
				fo.externalResult(res, nres, args)
			}
			continue
		}
		if p.l.kind == kParam && p.l.path == "" && p.l.param < 1000 {
			// call-back parameter of the declared function
			handled = true
			inv := struct {
				param int
				args  []ptsSet
			}{param: p.l.param}
			for _, a := range args {
				s := ptsSet{}
				union(s, fo.ptsOf(a), 0)
				inv.args = append(inv.args, s)
			}
			fo.recordInvoke(inv.param, inv.args)
			for j := 0; j < nres; j++ {
				fo.setResult(res, nres, j, ptsSet{ptr{fo.mkLoc(kCB, p.l.param, "", nil, 0, ""), selWhole}: 0}, 0)
			}
		}
	}
	if !handled && len(fo.ptsOf(cc.Value)) > 0 {
		for j := 0; j < nres; j++ {
			fo.setResult(res, nres, j, ptsSet{fo.unknownPtr(): 0}, 0)
		}
	}
}

func (fo *funcOwn) recordInvoke(param int, args []ptsSet) {
	for i := range fo.invokes {
		if fo.invokes[i].param == param && len(fo.invokes[i].args) == len(args) {
			for k := range args {
				fo.addSet(fo.invokes[i].args[k], args[k], 0)
			}
			return
		}
	}
	fo.invokes = append(fo.invokes, struct {
		param int
		args  []ptsSet
	}{param, args})
	fo.mark(985)
}

// bindLiteral: a literal of this function is called with args.
func (fo *funcOwn) bindLiteral(g *ssa.Function, args []ssa.Value, res *ssa.Call, nres int) {
	for k, a := range args {
		if k < len(g.Params) && pointerLike(g.Params[k].Type()) {
			fo.bindParam(g.Params[k], fo.ptsOf(a))
		}
	}
	for j := 0; j < nres && j < len(fo.retPts[g]); j++ {
		fo.setResult(res, nres, j, fo.retPts[g][j], 0)
	}
}

func (fo *funcOwn) bindParam(p *ssa.Parameter, s ptsSet) {
	dst := fo.set(p)
	// drop the placeholder "unbound literal parameter" root once a binding exists
	for q := range dst {
		if q.l.kind == kParam && q.l.param >= 1000 && len(s) > 0 {
			delete(dst, q)
			fo.mark(1006)
		}
	}
	fo.addSet(dst, s, 0)
}

// implementations: in-module methods that may be the target of an interface call.
func (e *ownEngine) implementations(cc *ssa.CallCommon) []*ssa.Function {
	it, ok := cc.Value.Type().Underlying().(*types.Interface)
	if !ok {
		return nil
	}
	ck := implKey{it, cc.Method.Name()}
	if out, ok := e.implCache[ck]; ok {
		return out
	}
	out := e.implementationsSlow(cc, it)
	e.implCache[ck] = out
	return out
}

type implKey struct {
	it   *types.Interface
	name string
}

func (e *ownEngine) implementationsSlow(cc *ssa.CallCommon, it *types.Interface) []*ssa.Function {
	var out []*ssa.Function
	for _, fn := range e.byMethod[cc.Method.Name()] {
		sig := fn.Signature
		if sig.Params().Len() != cc.Signature().Params().Len() || sig.Results().Len() != cc.Signature().Results().Len() {
			continue
		}
		rt := sig.Recv().Type()
		ms := e.msCache[rt]
		if ms == nil {
			if _, isPtr := rt.(*types.Pointer); !isPtr {
				ms = types.NewMethodSet(types.NewPointer(rt))
			} else {
				ms = types.NewMethodSet(rt)
			}
			e.msCache[rt] = ms
		}
		all := true
		for i := 0; i < it.NumMethods(); i++ {
			m := it.Method(i)
			if ms.Lookup(m.Pkg(), m.Name()) == nil {
				all = false
				break
			}
		}
		if all {
			out = append(out, fn)
		}
	}
	return out
}

func (fo *funcOwn) externalResult(res *ssa.Call, nres int, args []ssa.Value) {
	if res == nil {
		return
	}
	for j := 0; j < nres; j++ {
		rt := res.Call.Signature().Results().At(j).Type()
		if !pointerLike(rt) {
			continue
		}
		s := ptsSet{ptr{fo.fresh(res, 100+j, "result of external call", rt), selWhole}: 0}
		for _, a := range args {
			for p := range fo.ptsOf(a) {
				s.add(p, 0)
			}
		}
		fo.setResult(res, nres, j, s, 0)
	}
}

// mapLocs resolves a callee-side parameter path to caller-side locations.
func (fo *funcOwn) mapLocs(args []ssa.Value, param int, path string) map[*loc]guard {
	cur := map[*loc]guard{}
	if param >= len(args) {
		return cur
	}
	for p, g := range fo.ptsOf(args[param]) {
		if old, ok := cur[p.l]; ok {
			cur[p.l] = old & g
		} else {
			cur[p.l] = g
		}
	}
	if path == "" {
		return cur
	}
	for ci, sel := range strings.Split(path, "/") {
		if strings.HasPrefix(sel, "v") {
			// field of a struct *value*: project it when the argument's shape allows, else keep the whole value
			var k int
			fmt.Sscanf(sel, "v%d", &k)
			if ci == 0 {
				if pr, ok := fo.projectValueField(args[param], k); ok {
					cur = pr
				}
			}
			continue
		}
		next := map[*loc]guard{}
		step := func(l *loc, g guard, s int) {
			fo.loadEach(ptr{l, s}, func(q ptr, qg guard) {
				ng := g | qg
				if old, ok := next[q.l]; ok {
					next[q.l] = old & ng
				} else {
					next[q.l] = ng
				}
			})
		}
		switch {
		case sel == "*":
			// transitive closure
			seen := map[*loc]bool{}
			var work []*loc
			for l, g := range cur {
				next[l] = g
				work = append(work, l)
			}
			for len(work) > 0 {
				l := work[len(work)-1]
				work = work[:len(work)-1]
				if seen[l] {
					continue
				}
				seen[l] = true
				for q := range fo.load(ptr{l, selWhole}) {
					if _, ok := next[q.l]; !ok {
						next[q.l] = next[l]
						work = append(work, q.l)
					}
				}
			}
		case sel == "?":
			for l, g := range cur {
				step(l, g, selWhole)
			}
		case sel == "e":
			for l, g := range cur {
				step(l, g, selElem)
			}
		default:
			var fi int
			fmt.Sscanf(sel, "f%d", &fi)
			for l, g := range cur {
				step(l, g, fi)
			}
		}
		cur = next
	}
	return cur
}

// mapGuard translates a callee guard through the actual arguments. ok=false: the guarded effect cannot happen.
func (fo *funcOwn) mapGuard(g guard, args []ssa.Value) (guard, bool) {
	var out guard
	for k := 0; k < 32; k++ {
		if g&(1<<uint(k)) == 0 {
			continue
		}
		if k >= len(args) {
			continue
		}
		switch a := args[k].(type) {
		case *ssa.Const:
			if a.Value != nil && a.Value.Kind() == constant.Bool {
				if !constant.BoolVal(a.Value) {
					return 0, false
				}
				continue
			}
		default:
			if bit, ok := fo.boolParamBit(a); ok {
				out |= bit
			}
		}
	}
	return out, true
}

func (fo *funcOwn) refPts(args []ssa.Value, r srcRef, ins ssa.Instruction, j int) ptsSet {
	out := ptsSet{}
	switch r.kind {
	case kParam:
		for l, g := range fo.mapLocs(args, r.param, r.path) {
			out.add(ptr{l, selWhole}, g)
		}
	case kGlobal:
		out.add(ptr{fo.mkLoc(kGlobal, 0, "", nil, 0, ""), selWhole}, 0)
	case kUnknown:
		out.add(fo.unknownPtr(), 0)
	case kCB:
		if r.param < len(args) {
			resolved := false
			for p := range fo.ptsOf(args[r.param]) {
				if g := fo.closureOf[p.l]; g != nil {
					if _, ours := fo.litIndex[g]; ours {
						for _, rs := range fo.retPts[g] {
							for q, qg := range rs {
								out.add(q, qg)
							}
						}
						resolved = true
					}
				} else if p.l.kind == kParam && p.l.path == "" && p.l.param < 1000 {
					out.add(ptr{fo.mkLoc(kCB, p.l.param, "", nil, 0, ""), selWhole}, 0)
					resolved = true
				}
			}
			if !resolved {
				out.add(fo.unknownPtr(), 0)
			}
		}
	}
	return out
}

// apply instantiates callee's summary at a call site.
func (fo *funcOwn) apply(callee *ssa.Function, args []ssa.Value, ins ssa.Instruction, res *ssa.Call, nres int, bg guard) {
	fo.callees[callee] = true
	sum := fo.e.sums[callee]
	if sum == nil {
		return
	}
	pos := instrPos(ins)
	name := fnName(callee)
	opaque := false
	if fo.e.opaqueRecv != nil && callee.Signature.Recv() != nil && fo.e.opaqueRecv(callee.Signature.Recv().Type()) {
		opaque = true // a method of a mutable-surface type manages its own state; judged by that type's own property
	}
	for r, w := range sum.writes {
		if opaque {
			break
		}
		mg, ok := fo.mapGuard(w.g, args)
		if !ok {
			continue
		}
		switch r.kind {
		case kParam:
			for l, g := range fo.mapLocs(args, r.param, r.path) {
				fo.write(l, mg|g|bg, pos, "call of "+name+" ("+w.how+")")
			}
		case kGlobal:
			fo.write(fo.mkLoc(kGlobal, 0, "", nil, 0, ""), mg|bg, pos, "call of "+name)
		case kUnknown:
			fo.write(fo.mkLoc(kUnknown, 0, "", nil, 0, ""), mg|bg, pos, "call of "+name+" ("+w.how+")")
		case kCB:
			for p := range fo.refPts(args, r, ins, 0) {
				fo.write(p.l, mg|bg, pos, "call of "+name+" (writes a call-back result)")
			}
		}
	}
	nodeLoc := make([]*loc, len(sum.nodes))
	for k := range sum.nodes {
		nodeLoc[k] = fo.freshT(ins, 1000+k, "object created by "+name, sum.nodeTypes[k])
	}
	resolve := func(r srcRef, j int) ptsSet {
		if r.kind == kFresh {
			if r.param >= 0 && r.param < len(nodeLoc) {
				return ptsSet{ptr{nodeLoc[r.param], selWhole}: 0}
			}
			return ptsSet{ptr{fo.freshT(ins, 500+j, "object created by "+name, "?"), selWhole}: 0}
		}
		return fo.refPts(args, r, ins, j)
	}
	for k, edges := range sum.nodes {
		for sel, ts := range edges {
			for t := range ts {
				fo.storeInto(ptr{nodeLoc[k], sel}, resolve(t, 0))
			}
		}
	}
	for j := 0; j < nres && j < len(sum.own); j++ {
		for r, g := range sum.own[j] {
			mg, ok := fo.mapGuard(g, args)
			if !ok {
				continue
			}
			fo.setResult(res, nres, j, resolve(r, j), mg)
		}
	}
	if res != nil && nres == 1 && len(sum.ownF) == 1 && sum.ownF[0] != nil {
		if fo.valFields[res] == nil {
			fo.valFields[res] = map[int]ptsSet{}
		}
		for k, refs := range sum.ownF[0] {
			if fo.valFields[res][k] == nil {
				fo.valFields[res][k] = ptsSet{}
			}
			for r, g := range refs {
				mg, ok := fo.mapGuard(g, args)
				if !ok {
					continue
				}
				fo.addSet(fo.valFields[res][k], resolve(r, 0), mg)
			}
		}
	}
	for _, iv := range sum.invokes {
		if iv.param >= len(args) {
			continue
		}
		argSets := make([]ptsSet, len(iv.args))
		for k, refs := range iv.args {
			argSets[k] = ptsSet{}
			for r := range refs {
				if r.kind == kFresh {
					argSets[k].add(ptr{fo.freshT(ins, 200+k, "value passed by "+name+" to its call-back", "?"), selWhole}, 0)
					continue
				}
				union(argSets[k], fo.refPts(args, r, ins, 0), 0)
			}
			_ = resolve
		}
		fo.invokeValue(args[iv.param], argSets, pos, name, bg)
	}
}

// invokeValue: fv (a function value of this function) is called by a callee with the given argument sets.
func (fo *funcOwn) invokeValue(fv ssa.Value, argSets []ptsSet, pos token.Pos, via string, bg guard) {
	if fn, ok := fv.(*ssa.Function); ok {
		fo.applyToSets(fn, argSets, pos, via, bg)
		return
	}
	for p := range fo.ptsOf(fv) {
		if g := fo.closureOf[p.l]; g != nil {
			if _, ours := fo.litIndex[g]; ours {
				for k, s := range argSets {
					if k < len(g.Params) && pointerLike(g.Params[k].Type()) {
						fo.bindParam(g.Params[k], s)
					}
				}
			}
			continue
		}
		if p.l.kind == kParam && p.l.path == "" && p.l.param < 1000 {
			fo.recordInvoke(p.l.param, argSets)
		}
	}
}

// applyToSets: a named module function is used as a call-back; apply its write summary to argument sets.
func (fo *funcOwn) applyToSets(fn *ssa.Function, argSets []ptsSet, pos token.Pos, via string, bg guard) {
	if org := fn.Origin(); org != nil {
		fn = org
	}
	fo.callees[fn] = true
	sum := fo.e.sums[fn]
	if sum == nil {
		return
	}
	for r, w := range sum.writes {
		if r.kind != kParam || r.param >= len(argSets) || w.g != 0 {
			continue
		}
		for p := range argSets[r.param] {
			if r.path == "" {
				fo.write(p.l, bg, pos, "call-back "+fnName(fn)+" invoked by "+via)
			}
		}
	}
}

// external effects table.
func (fo *funcOwn) external(callee *ssa.Function, args []ssa.Value, ins ssa.Instruction, res *ssa.Call, nres int, bg guard) {
	pkg := ""
	if callee.Pkg != nil {
		pkg = callee.Pkg.Pkg.Path()
	}
	name := callee.Name()
	recv := ""
	if callee.Signature.Recv() != nil {
		recv = typeBaseName(callee.Signature.Recv().Type())
	}
	full := pkg + "." + name
	if recv != "" {
		full = pkg + "." + recv + "." + name
	}
	pos := instrPos(ins)
	writeArg := func(i int, how string) {
		if i < len(args) {
			for p, g := range fo.ptsOf(args[i]) {
				fo.write(p.l, g|bg, pos, how)
			}
		}
	}
	switch {
	case pkg == "sort" && (name == "Sort" || name == "Stable") && recv == "":
		// sort.Sort(x): runs x.Swap — apply the in-module Swap implementations
		handled := false
		for _, im := range fo.e.byMethod["Swap"] {
			if im.Signature.Params().Len() == 2 {
				// receiver type must match the dynamic type of some argument object: approximate by applying
				// the summary only when the argument's static make-interface source type matches
				if mi, ok := args[0].(*ssa.MakeInterface); ok {
					if namedOf(mi.X.Type()) != nil && namedOf(im.Signature.Recv().Type()) != nil && namedOf(mi.X.Type()).Obj() == namedOf(im.Signature.Recv().Type()).Obj() {
						fo.apply(im, []ssa.Value{mi.X, nil, nil}[:1], ins, nil, 0, bg)
						handled = true
					}
				}
			}
		}
		if !handled {
			for l := range fo.mapLocs(args, 0, "*") {
				fo.write(l, bg, pos, "sort."+name+" permutes its argument")
			}
		}
	case pkg == "sort" && (name == "Slice" || name == "SliceStable" || name == "Strings" || name == "Ints" || name == "Float64s"):
		writeArg(0, "sort."+name+" sorts its argument in place")
	case pkg == "slices" && (strings.HasPrefix(name, "Sort") || name == "Reverse"):
		writeArg(0, "slices."+name+" reorders its argument in place")
	case pkg == "encoding/json" && name == "Unmarshal":
		writeArg(1, "json.Unmarshal writes its target")
	case pkg == "encoding/json" && recv == "Decoder" && name == "Decode":
		writeArg(1, "Decoder.Decode writes its target")
	case pkg == "sync/atomic" && (strings.HasPrefix(name, "Store") || strings.HasPrefix(name, "CompareAndSwap") || strings.HasPrefix(name, "Swap") || strings.HasPrefix(name, "Add")):
		if len(args) > 0 {
			vals := ptsSet{}
			for _, a := range args[1:] {
				union(vals, fo.ptsOf(a), 0)
			}
			for p := range fo.ptsOf(args[0]) {
				fo.storeInto(p, vals)
			}
		}
	case pkg == "sync/atomic" && recv == "Value" && (name == "Store" || name == "Swap" || name == "CompareAndSwap"):
		vals := ptsSet{}
		for _, a := range args[1:] {
			union(vals, fo.ptsOf(a), 0)
		}
		for p := range fo.ptsOf(args[0]) {
			fo.storeInto(ptr{p.l, selAny}, vals)
		}
	case pkg == "sync/atomic" && strings.HasPrefix(name, "Load") && recv == "":
		if len(args) > 0 {
			for p, g := range fo.ptsOf(args[0]) {
				fo.setResult(res, nres, 0, fo.load(p), g)
			}
		}
		return
	case pkg == "sync/atomic" && recv == "Value" && name == "Load":
		for p, g := range fo.ptsOf(args[0]) {
			fo.setResult(res, nres, 0, fo.load(ptr{p.l, selAny}), g)
		}
		return
	case pkg == "sync":
		// Mutex/Once/WaitGroup state is synchronisation, not data
		return
	case (pkg == "bytes" && recv == "Buffer" || pkg == "strings" && recv == "Builder") && (strings.HasPrefix(name, "Write") || name == "Reset" || name == "Grow" || name == "Truncate"):
		writeArg(0, recv+"."+name)
	case pkg == "runtime" || pkg == "unsafe":
		// SetFinalizer, KeepAlive …
	default:
		fo.e.assumedRO[full] = true
	}
	fo.externalResult(res, nres, args)
}

func (fo *funcOwn) toRef(l *loc) (srcRef, bool) {
	switch l.kind {
	case kParam:
		if l.param >= 1000 {
			return srcRef{kind: kUnknown}, false
		}
		return srcRef{kind: kParam, param: l.param, path: l.path}, true
	case kFresh:
		return srcRef{kind: kFresh, param: -1}, true
	case kGlobal:
		return srcRef{kind: kGlobal}, true
	case kUnknown:
		return srcRef{kind: kUnknown}, true
	case kCB:
		return srcRef{kind: kCB, param: l.param}, true
	}
	return srcRef{}, false
}

func (fo *funcOwn) summary() *ownSummary {
	s := &ownSummary{writes: map[srcRef]writeInfo{}}
	for l, w := range fo.written {
		if l.kind == kFresh {
			continue
		}
		r, ok := fo.toRef(l)
		if !ok {
			continue // write to an unbound literal parameter: judged where the literal is bound
		}
		if old, ok := s.writes[r]; ok {
			if w.g&old.g != old.g {
				old.g &= w.g
				s.writes[r] = old
			}
			continue
		}
		s.writes[r] = w
	}
	n := fo.top.Signature.Results().Len()
	s.own = make([]map[srcRef]guard, n)
	// returned fresh shape graph
	nodeIdx := map[*loc]int{}
	var order []*loc
	var visit func(l *loc)
	visit = func(l *loc) {
		if _, ok := nodeIdx[l]; ok || l.kind != kFresh {
			return
		}
		nodeIdx[l] = -1
		order = append(order, l)
		for _, set := range fo.contents[l] {
			for q := range set {
				visit(q.l)
			}
		}
	}
	for j := 0; j < n; j++ {
		for p := range fo.retPts[fo.top][j] {
			visit(p.l)
		}
	}
	// one summary node per allocated type (merges recursive structure; deterministic order)
	typeSet := map[string]bool{}
	for _, l := range order {
		typeSet[l.typ] = true
	}
	var typs []string
	for t := range typeSet {
		typs = append(typs, t)
	}
	sort.Strings(typs)
	const maxNodes = 12
	if len(typs) > maxNodes {
		typs = typs[:maxNodes]
	}
	typIdx := map[string]int{}
	for i, t := range typs {
		typIdx[t] = i
	}
	for _, l := range order {
		if k, ok := typIdx[l.typ]; ok {
			nodeIdx[l] = k
		} else {
			nodeIdx[l] = -1
		}
	}
	ref := func(l *loc) (srcRef, bool) {
		if l.kind == kFresh {
			if k, ok := nodeIdx[l]; ok {
				return srcRef{kind: kFresh, param: k}, true
			}
			return srcRef{kind: kFresh, param: -1}, true
		}
		return fo.toRef(l)
	}
	s.nodes = make([]map[int]map[srcRef]bool, len(typs))
	s.nodeTypes = typs
	for k := range s.nodes {
		s.nodes[k] = map[int]map[srcRef]bool{}
	}
	for _, l := range order {
		k := nodeIdx[l]
		if k < 0 {
			continue
		}
		for sel, set := range fo.contents[l] {
			for q := range set {
				if r, ok := ref(q.l); ok {
					if s.nodes[k][sel] == nil {
						s.nodes[k][sel] = map[srcRef]bool{}
					}
					s.nodes[k][sel][r] = true
				}
			}
		}
	}
	for j := 0; j < n; j++ {
		s.own[j] = map[srcRef]guard{}
		for p, g := range fo.retPts[fo.top][j] {
			r, ok := ref(p.l)
			if !ok {
				r = srcRef{kind: kUnknown}
			}
			if old, has := s.own[j][r]; has {
				s.own[j][r] = old & g
			} else {
				s.own[j][r] = g
			}
		}
	}
	s.ownF = make([]map[int]map[srcRef]guard, n)
	for j := 0; j < n && j < len(fo.retF); j++ {
		if fo.retFlat[j] || len(fo.retF[j]) == 0 {
			continue
		}
		s.ownF[j] = map[int]map[srcRef]guard{}
		for k, set := range fo.retF[j] {
			s.ownF[j][k] = map[srcRef]guard{}
			for p, g := range set {
				r, ok := ref(p.l)
				if !ok {
					r = srcRef{kind: kUnknown}
				}
				if old, has := s.ownF[j][k][r]; has {
					s.ownF[j][k][r] = old & g
				} else {
					s.ownF[j][k][r] = g
				}
			}
		}
	}
	for _, iv := range fo.invokes {
		is := invokeSum{param: iv.param}
		for _, a := range iv.args {
			m := map[srcRef]bool{}
			for p := range a {
				if r, ok := fo.toRef(p.l); ok {
					m[r] = true
				}
			}
			is.args = append(is.args, m)
		}
		s.invokes = append(s.invokes, is)
	}
	return s
}

func (fo *funcOwn) mark(line int) {
	fo.changed = true
	if fo.iters > 100 && os.Getenv("FPCHECK_DEBUG") != "" {
		if fo.marks == nil {
			fo.marks = map[int]int{}
		}
		fo.marks[line]++
	}
}

func sortFuncs(fns []*ssa.Function) {
	sort.Slice(fns, func(i, j int) bool {
		if fns[i].Pos() != fns[j].Pos() {
			return fns[i].Pos() < fns[j].Pos()
		}
		return fns[i].String() < fns[j].String()
	})
}
