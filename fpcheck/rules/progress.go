package rules

// R-PROGRESS — loop progress on cursor loops.
//
// For every `for` loop whose condition is exactly an observer call on one
// cursor variable x (fp.List: IsEmpty/NonEmpty, fp.Iterator: HasNext/IsEmpty/
// NonEmpty, possibly negated), every path from the loop body back to the loop
// head must contain a progress event on x: an assignment to x (List cursors are
// immutable values) or, for iterators, any use of x or of an alias of x other
// than an observer call (Next, NextOption, Find, passing it on, capturing it).
// The condition can only change through such an event, so a progress-free
// back-edge path is an infinite loop on every input that enters the loop.

import (
	"go/ast"
	"go/token"
	"go/types"

	"fpcheck/core"

	"golang.org/x/tools/go/cfg"
	"golang.org/x/tools/go/packages"
)

var cursorObservers = map[string]bool{"HasNext": true, "IsEmpty": true, "NonEmpty": true}

func cursorKind(t types.Type) string {
	switch {
	case isNamed(t, "fp", "Iterator"):
		return "Iterator"
	case isNamed(t, "fp", "List"):
		return "List"
	}
	return ""
}

func Progress(c *core.Ctx, rule string, pkgs []*packages.Package) {
	c.Rule(rule, "every cursor loop `for x.HasNext()/NonEmpty()/!IsEmpty()` has a progress event on x (assignment / consuming use) on every path back to the loop head")
	n := 0
	for _, fb := range funcBodies(c, pkgs) {
		info := fb.Pkg.TypesInfo
		var loops []*ast.ForStmt
		inspectShallow(fb.Body, func(x ast.Node) bool {
			if fs, ok := x.(*ast.ForStmt); ok && fs.Cond != nil {
				loops = append(loops, fs)
			}
			return true
		})
		if len(loops) == 0 {
			continue
		}
		var g *cfg.CFG
		for _, fs := range loops {
			cond := ast.Unparen(fs.Cond)
			for {
				if u, ok := cond.(*ast.UnaryExpr); ok && u.Op == token.NOT {
					cond = ast.Unparen(u.X)
					continue
				}
				break
			}
			call, ok := cond.(*ast.CallExpr)
			if !ok || len(call.Args) != 0 {
				continue
			}
			sel, ok := call.Fun.(*ast.SelectorExpr)
			if !ok || !cursorObservers[sel.Sel.Name] {
				continue
			}
			xobj := objOf(info, sel.X)
			if xobj == nil {
				continue
			}
			kind := cursorKind(xobj.Type())
			if kind == "" {
				continue
			}
			n++
			if g == nil {
				g = newCFG(c, fb)
			}
			aliases := map[types.Object]bool{xobj: true}
			if kind == "Iterator" && fb.Decl != nil {
				ast.Inspect(fb.Decl.Body, func(nd ast.Node) bool {
					if as, ok := nd.(*ast.AssignStmt); ok && len(as.Lhs) == len(as.Rhs) {
						for i := range as.Lhs {
							l, r := objOf(info, as.Lhs[i]), objOf(info, as.Rhs[i])
							if l != nil && r != nil && (aliases[l] || aliases[r]) {
								aliases[l], aliases[r] = true, true
							}
						}
					}
					return true
				})
			}
			progressIn := func(nd ast.Node) bool {
				if kind == "List" {
					return nodeContains(nd, true, func(x ast.Node) bool {
						if as, ok := x.(*ast.AssignStmt); ok {
							for _, l := range as.Lhs {
								if objOf(info, l) == xobj {
									return true
								}
							}
						}
						return false
					})
				}
				// Iterator: any mention of x / alias that is not the receiver of an observer call
				observerRecv := map[*ast.Ident]bool{}
				ast.Inspect(nd, func(x ast.Node) bool {
					if ce, ok := x.(*ast.CallExpr); ok {
						if s, ok := ce.Fun.(*ast.SelectorExpr); ok && cursorObservers[s.Sel.Name] && len(ce.Args) == 0 {
							if id, ok := ast.Unparen(s.X).(*ast.Ident); ok {
								observerRecv[id] = true
							}
						}
					}
					return true
				})
				return nodeContains(nd, true, func(x ast.Node) bool {
					if id, ok := x.(*ast.Ident); ok && !observerRecv[id] {
						if o := info.Uses[id]; o != nil && aliases[o] {
							return true
						}
					}
					return false
				})
			}
			var head, body *cfg.Block
			for _, b := range g.Blocks {
				if b.Stmt == fs && b.Kind == cfg.KindForLoop {
					head = b
				}
				if b.Stmt == fs && b.Kind == cfg.KindForBody {
					body = b
				}
			}
			key := fb.Name + "/for:" + exprString(fs.Cond)
			if head == nil || body == nil {
				c.Add(rule, key, fs.Pos(), core.Undecided, "loop blocks not found in the control-flow graph")
				continue
			}
			seen := map[*cfg.Block]bool{}
			var stuck func(b *cfg.Block) bool
			stuck = func(b *cfg.Block) bool {
				if b == head {
					return true
				}
				if seen[b] {
					return false
				}
				seen[b] = true
				for _, nd := range b.Nodes {
					if progressIn(nd) {
						return false
					}
				}
				for _, s := range b.Succs {
					if stuck(s) {
						return true
					}
				}
				return false
			}
			if stuck(body) {
				c.Add(rule, key, fs.Pos(), core.Violated,
					"a path from the loop body back to `"+exprString(fs.Cond)+"` contains no progress event on the "+kind+" cursor "+xobj.Name()+": the loop never terminates once entered")
			} else {
				c.Add(rule, key, fs.Pos(), core.Discharged, "every back-edge path advances "+xobj.Name())
			}
		}
	}
	c.Floor(rule, "cursor loops", n, 25)
}
