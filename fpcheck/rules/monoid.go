package rules

// C11 rules: R-IDENT (operator/identity table), R-NAME, R-MUSTUSE, R-ACC.

import (
	"go/ast"
	"go/constant"
	"go/token"
	"go/types"
	"strings"

	"fpcheck/core"

	"golang.org/x/tools/go/packages"
)

// binOpOfLit: `func(a, b T) T { return a OP b }` (either operand order) → OP.
func binOpOfLit(info *types.Info, fl *ast.FuncLit) (token.Token, bool) {
	if fl == nil || len(fl.Body.List) != 1 {
		return 0, false
	}
	ret, ok := fl.Body.List[0].(*ast.ReturnStmt)
	if !ok || len(ret.Results) != 1 {
		return 0, false
	}
	be, ok := ast.Unparen(ret.Results[0]).(*ast.BinaryExpr)
	if !ok {
		return 0, false
	}
	var ps []types.Object
	for _, f := range fl.Type.Params.List {
		for _, n := range f.Names {
			ps = append(ps, info.Defs[n])
		}
	}
	if len(ps) != 2 {
		return 0, false
	}
	x, y := objOf(info, be.X), objOf(info, be.Y)
	if (x == ps[0] && y == ps[1]) || (x == ps[1] && y == ps[0]) {
		return be.Op, true
	}
	return 0, false
}

// resolver of "combine" expressions to a function literal, through semigroup method values.
type instResolver struct {
	c *core.Ctx
}

// litOf resolves e (in package p) to the literal implementing a binary combine.
func (r *instResolver) litOf(p *packages.Package, e ast.Expr, depth int) (*packages.Package, *ast.FuncLit) {
	if depth > 6 {
		return nil, nil
	}
	info := p.TypesInfo
	e = ast.Unparen(e)
	switch x := e.(type) {
	case *ast.FuncLit:
		return p, x
	case *ast.CallExpr:
		// conversion fp.SemigroupFunc[T](lit) / semigroup.New(lit) / F[T]() returning such
		if tv, ok := info.Types[x.Fun]; ok && tv.IsType() && len(x.Args) == 1 {
			return r.litOf(p, x.Args[0], depth+1)
		}
		if callee := calleeOf(info, x); callee != nil {
			if funcIs(callee, "semigroup", "New") && len(x.Args) == 1 {
				return r.litOf(p, x.Args[0], depth+1)
			}
			// a constructor whose body is a single return of an instance expression
			if fd := r.c.FuncDecl(callee); fd != nil && fd.Body != nil && len(fd.Body.List) == 1 {
				if ret, ok := fd.Body.List[0].(*ast.ReturnStmt); ok && len(ret.Results) == 1 {
					if dp := r.pkgOf(callee); dp != nil {
						return r.litOf(dp, ret.Results[0], depth+1)
					}
				}
			}
		}
	case *ast.SelectorExpr:
		// X.Combine method value, or pkg.Var
		if x.Sel.Name == "Combine" {
			return r.litOf(p, x.X, depth+1)
		}
		if v, ok := info.Uses[x.Sel].(*types.Var); ok {
			return r.varInit(v, depth)
		}
	case *ast.Ident:
		if v, ok := info.Uses[x].(*types.Var); ok {
			return r.varInit(v, depth)
		}
	case *ast.IndexExpr: // instantiation F[T]
		return r.litOf(p, x.X, depth+1)
	}
	return nil, nil
}

func (r *instResolver) pkgOf(o types.Object) *packages.Package {
	if o.Pkg() == nil {
		return nil
	}
	return r.c.ByPath[o.Pkg().Path()]
}

func (r *instResolver) varInit(v *types.Var, depth int) (*packages.Package, *ast.FuncLit) {
	p := r.pkgOf(v)
	if p == nil || v.Parent() != v.Pkg().Scope() {
		return nil, nil
	}
	for _, f := range p.Syntax {
		for _, d := range f.Decls {
			gd, ok := d.(*ast.GenDecl)
			if !ok || gd.Tok != token.VAR {
				continue
			}
			for _, sp := range gd.Specs {
				vs := sp.(*ast.ValueSpec)
				for i, nm := range vs.Names {
					if p.TypesInfo.Defs[nm] == v && i < len(vs.Values) {
						return r.litOf(p, vs.Values[i], depth+1)
					}
				}
			}
		}
	}
	return nil, nil
}

// constOfEmpty resolves an "empty" expression to a constant; zero=true for fp.Zero[T] (the zero value).
func constOfEmpty(info *types.Info, e ast.Expr) (val constant.Value, zero bool, ok bool) {
	e = ast.Unparen(e)
	if ix, isIx := e.(*ast.IndexExpr); isIx {
		e = ix.X
	}
	switch x := e.(type) {
	case *ast.FuncLit:
		if len(x.Body.List) == 1 {
			if ret, ok := x.Body.List[0].(*ast.ReturnStmt); ok && len(ret.Results) == 1 {
				if tv, ok := info.Types[ret.Results[0]]; ok && tv.Value != nil {
					return tv.Value, false, true
				}
			}
		}
	case *ast.SelectorExpr:
		if fn, ok := info.Uses[x.Sel].(*types.Func); ok && funcIs(fn.Origin(), "fp", "Zero") {
			return nil, true, true
		}
	case *ast.Ident:
		if fn, ok := info.Uses[x].(*types.Func); ok && funcIs(fn.Origin(), "fp", "Zero") {
			return nil, true, true
		}
	}
	return nil, false, false
}

func isZeroConst(v constant.Value) bool {
	switch v.Kind() {
	case constant.Int, constant.Float:
		return constant.Sign(v) == 0
	case constant.String:
		return constant.StringVal(v) == ""
	case constant.Bool:
		return !constant.BoolVal(v)
	}
	return false
}

func identityOK(op token.Token, v constant.Value, zero bool) (bool, string) {
	switch op {
	case token.ADD, token.OR, token.XOR:
		if zero || isZeroConst(v) {
			return true, ""
		}
		return false, "identity of " + op.String() + " is the zero value"
	case token.MUL:
		if !zero && v.Kind() != constant.Bool && v.Kind() != constant.String && constant.Compare(v, token.EQL, constant.MakeInt64(1)) {
			return true, ""
		}
		return false, "identity of * is 1"
	case token.LOR:
		if zero || (v.Kind() == constant.Bool && !constant.BoolVal(v)) {
			return true, ""
		}
		return false, "identity of || is false"
	case token.LAND:
		if !zero && v.Kind() == constant.Bool && constant.BoolVal(v) {
			return true, ""
		}
		return false, "identity of && is true"
	case token.SUB, token.QUO, token.REM, token.SHL, token.SHR, token.AND_NOT:
		return false, op.String() + " is not associative"
	}
	return true, "" // other operators: not judged
}

type monoidSite struct {
	p       *packages.Package
	name    string // enclosing decl / var name
	pos     token.Pos
	empty   ast.Expr // nil: Empty is the zero value (SemigroupFunc used as Monoid)
	combine ast.Expr
}

// monoidSites finds monoid.New(empty, combine), fp.monoid{zero:,combine:} literals and
// fp.SemigroupFunc[T](lit) conversions used where an fp.Monoid is expected.
func monoidSites(c *core.Ctx, pkgs []*packages.Package) []monoidSite {
	var out []monoidSite
	for _, p := range pkgs {
		info := p.TypesInfo
		for _, f := range p.Syntax {
			for _, d := range f.Decls {
				var name string
				var body ast.Node
				switch x := d.(type) {
				case *ast.FuncDecl:
					if x.Body == nil {
						continue
					}
					name, body = c.FuncName(p, x), x
				case *ast.GenDecl:
					if x.Tok != token.VAR {
						continue
					}
					body = x
				}
				if body == nil {
					continue
				}
				ast.Inspect(body, func(n ast.Node) bool {
					if vs, ok := n.(*ast.ValueSpec); ok && name == "" || ok && len(vs.Names) > 0 {
						if _, isGen := d.(*ast.GenDecl); isGen && len(vs.Names) > 0 {
							name = core.ShortPkg(p.PkgPath) + "." + vs.Names[0].Name
						}
					}
					switch x := n.(type) {
					case *ast.CallExpr:
						if callee := calleeOf(info, x); callee != nil && funcIs(callee, "monoid", "New") && len(x.Args) == 2 {
							out = append(out, monoidSite{p, name, x.Pos(), x.Args[0], x.Args[1]})
						}
						if tv, ok := info.Types[x.Fun]; ok && tv.IsType() && isNamed(tv.Type, "fp", "SemigroupFunc") && len(x.Args) == 1 {
							// used as Monoid? look at the type the conversion result is assigned/returned as
							if usedAsMonoid(info, body, x) {
								out = append(out, monoidSite{p, name, x.Pos(), nil, x.Args[0]})
							}
						}
					case *ast.CompositeLit:
						if tv, ok := info.Types[x]; ok {
							if nt := namedOf(tv.Type); nt != nil && nt.Obj().Name() == "monoid" && len(x.Elts) == 2 {
								var em, cb ast.Expr
								for i, el := range x.Elts {
									if kv, ok := el.(*ast.KeyValueExpr); ok {
										switch exprString(kv.Key) {
										case "zero":
											em = kv.Value
										case "combine":
											cb = kv.Value
										}
									} else if i == 0 {
										em = el
									} else {
										cb = el
									}
								}
								if em != nil && cb != nil {
									out = append(out, monoidSite{p, name, x.Pos(), em, cb})
								}
							}
						}
					}
					return true
				})
			}
		}
	}
	return out
}

// usedAsMonoid: the conversion expression is returned from a function whose result is fp.Monoid,
// or initialises a variable declared as fp.Monoid.
func usedAsMonoid(info *types.Info, scope ast.Node, conv *ast.CallExpr) bool {
	res := false
	ast.Inspect(scope, func(n ast.Node) bool {
		switch x := n.(type) {
		case *ast.FuncDecl:
			if x.Type.Results != nil && len(x.Type.Results.List) == 1 {
				if tv, ok := info.Types[x.Type.Results.List[0].Type]; ok && isNamed(tv.Type, "fp", "Monoid") {
					ast.Inspect(x.Body, func(m ast.Node) bool {
						if r, ok := m.(*ast.ReturnStmt); ok && len(r.Results) == 1 && ast.Unparen(r.Results[0]) == conv {
							res = true
						}
						return true
					})
				}
			}
		case *ast.ValueSpec:
			if x.Type != nil {
				if tv, ok := info.Types[x.Type]; ok && isNamed(tv.Type, "fp", "Monoid") {
					for _, v := range x.Values {
						if ast.Unparen(v) == conv {
							res = true
						}
					}
				}
			}
		}
		return true
	})
	return res
}

func Ident(c *core.Ctx, rule string, pkgs []*packages.Package) {
	c.Rule(rule, "for every monoid built from a closure `a ⊕ b` over a built-in operator and a constant (or zero-value) Empty, the constant is ⊕'s identity and ⊕ is associative")
	r := &instResolver{c}
	n := 0
	for _, s := range monoidSites(c, pkgs) {
		key := s.name + "@" + posOrdinal(c, s.pos)
		lp, lit := r.litOf(s.p, s.combine, 0)
		if lit == nil {
			c.Add(rule, key, s.pos, core.Skipped, "combine does not resolve to a function literal")
			continue
		}
		op, ok := binOpOfLit(lp.TypesInfo, lit)
		if !ok {
			c.Add(rule, key, s.pos, core.Skipped, "combine is not a single built-in operator")
			continue
		}
		var val constant.Value
		zero := true
		if s.empty != nil {
			var ok2 bool
			val, zero, ok2 = constOfEmpty(s.p.TypesInfo, s.empty)
			if !ok2 {
				c.Add(rule, key, s.pos, core.Skipped, "empty is not a constant")
				continue
			}
		}
		n++
		if good, why := identityOK(op, val, zero); good {
			c.Add(rule, key, s.pos, core.Discharged, "operator "+op.String()+" with its identity")
		} else {
			ev := "the zero value"
			if !zero {
				ev = val.ExactString()
			}
			c.Add(rule, key, s.pos, core.Violated, "Combine is `a "+op.String()+" b` (at "+c.RelPos(lit.Pos())+") but Empty is "+ev+": "+why+", so Empty is not an identity / Combine not associative")
		}
	}
	c.Floor(rule, "operator monoids", n, 5)
}

func posOrdinal(c *core.Ctx, p token.Pos) string {
	// stable-ish discriminator for several sites in one declaration: file base name only
	pos := c.Fset.Position(p)
	i := strings.LastIndex(pos.Filename, "/")
	return pos.Filename[i+1:]
}

// Name: the instances the property names after a built-in operator are bound to that operator.
func Name(c *core.Ctx, rule string) {
	c.Rule(rule, "Sum/Product/Any/All/String of packages fp, monoid and semigroup combine with +, *, ||, &&, + respectively")
	want := map[string]token.Token{"Sum": token.ADD, "Product": token.MUL, "Any": token.LOR, "All": token.LAND, "String": token.ADD}
	r := &instResolver{c}
	n := 0
	for _, rel := range []string{"fp", "monoid", "semigroup"} {
		p := c.Pkg(rel)
		if p == nil {
			continue
		}
		for _, f := range p.Syntax {
			for _, d := range f.Decls {
				var name string
				var expr ast.Expr
				var pos token.Pos
				switch x := d.(type) {
				case *ast.FuncDecl:
					if x.Recv != nil || x.Body == nil || len(x.Body.List) != 1 {
						continue
					}
					ret, ok := x.Body.List[0].(*ast.ReturnStmt)
					if !ok || len(ret.Results) != 1 {
						continue
					}
					name, expr, pos = x.Name.Name, ret.Results[0], x.Pos()
				case *ast.GenDecl:
					if x.Tok != token.VAR {
						continue
					}
					for _, sp := range x.Specs {
						vs := sp.(*ast.ValueSpec)
						if len(vs.Names) == 1 && len(vs.Values) == 1 {
							if _, ok := want[vs.Names[0].Name]; ok {
								name, expr, pos = vs.Names[0].Name, vs.Values[0], vs.Pos()
							}
						}
					}
				}
				op, ok := want[name]
				if !ok || expr == nil {
					continue
				}
				key := core.ShortPkg(p.PkgPath) + "." + name
				// the instance expression: monoid.New(e, c) → c ; monoid{..combine:} ; SemigroupFunc(lit) ; New(lit)
				comb := expr
				if call, ok := ast.Unparen(expr).(*ast.CallExpr); ok {
					if callee := calleeOf(p.TypesInfo, call); callee != nil && funcIs(callee, "monoid", "New") && len(call.Args) == 2 {
						comb = call.Args[1]
					}
				}
				if cl, ok := ast.Unparen(expr).(*ast.CompositeLit); ok {
					for i, el := range cl.Elts {
						if kv, ok := el.(*ast.KeyValueExpr); ok && exprString(kv.Key) == "combine" {
							comb = kv.Value
						} else if !ok && i == 1 {
							comb = el
						}
					}
				}
				lp, lit := r.litOf(p, comb, 0)
				if lit == nil {
					c.Add(rule, key, pos, core.Skipped, "combine does not resolve to a function literal")
					continue
				}
				got, ok2 := binOpOfLit(lp.TypesInfo, lit)
				if !ok2 {
					c.Add(rule, key, pos, core.Skipped, "combine is not a single built-in operator")
					continue
				}
				n++
				if got == op {
					c.Add(rule, key, pos, core.Discharged, "combines with "+op.String())
				} else {
					c.Add(rule, key, lit.Pos(), core.Violated, key+" combines with `"+got.String()+"` instead of `"+op.String()+"`")
				}
			}
		}
	}
	c.Floor(rule, "named operator instances", n, 8)
}

// ---------------------------------------------------------------- R-MUSTUSE

var pureIfaces = []string{"Semigroup", "Monoid", "Eq", "Ord", "Hashable", "Clone", "SemigroupFunc", "EqFunc", "LessFunc", "CompareFunc", "CloneFunc", "EmptyFunc"}
var persistentTypes = []string{"Map", "Set", "Seq", "Option", "Try", "List", "MapBase", "SetMinimal", "Tuple2"}

// MustUse: the result of a pure typeclass method / persistent update is never discarded.
func MustUse(c *core.Ctx, rule string, pkgs []*packages.Package, typeclass, persistent bool) {
	c.Rule(rule, "a call statement never discards the result of a pure typeclass method (Combine/Empty/Eqv/Less/Hash/Clone…) or of a persistent update (a method of Map/Set/Seq/MapBase/SetMinimal/hamt nodes returning the receiver's type)")
	n, nStmts := 0, 0
	for _, fb := range funcBodies(c, pkgs) {
		info := fb.Pkg.TypesInfo
		k := 0
		inspectShallow(fb.Body, func(x ast.Node) bool {
			es, ok := x.(*ast.ExprStmt)
			if !ok {
				return true
			}
			call, ok := ast.Unparen(es.X).(*ast.CallExpr)
			if !ok {
				return true
			}
			nStmts++
			sel, ok := ast.Unparen(call.Fun).(*ast.SelectorExpr)
			if !ok {
				return true
			}
			rtv, ok := info.Types[sel.X]
			if !ok || rtv.IsType() {
				return true
			}
			ctv, ok := info.Types[call]
			if !ok || ctv.Type == nil {
				return true
			}
			if tup, isTup := ctv.Type.(*types.Tuple); isTup && tup.Len() == 0 {
				return true
			}
			recv := rtv.Type
			why := ""
			if typeclass {
				for _, nm := range pureIfaces {
					if isNamed(recv, "fp", nm) {
						why = "pure typeclass method " + nm + "." + sel.Sel.Name
					}
				}
			}
			if persistent && why == "" {
				rn := namedOf(recv)
				if rn != nil && rn.Obj().Pkg() != nil && strings.HasPrefix(rn.Obj().Pkg().Path(), core.ModPath) {
					isPers := false
					for _, nm := range persistentTypes {
						if isNamed(recv, "fp", nm) {
							isPers = true
						}
					}
					if rn.Obj().Pkg().Path() == core.ModPath+"/immutable" {
						isPers = true
					}
					// result has the receiver's type (or its interface): a functional update
					res := ctv.Type
					if isPers && (types.Identical(res, recv) || sameNamed(res, recv) || isNamed(res, "fp", "MapBase") || isNamed(res, "fp", "SetMinimal") || isNamed(res, "immutable", "mapNode")) {
						why = "persistent update " + typeBaseName(recv) + "." + sel.Sel.Name
					}
				}
			}
			if why == "" {
				return true
			}
			if strings.HasPrefix(why, "persistent") {
				// explicit in-place mode: a constant true handed to a bool parameter (the trie's `mutable` flag)
				inPlace := false
				if callee := calleeOf(info, call); callee != nil {
					csig := callee.Type().(*types.Signature)
					for i, a := range call.Args {
						if atv, ok := info.Types[a]; ok && atv.Value != nil && atv.Value.Kind() == constant.Bool && constant.BoolVal(atv.Value) && i < csig.Params().Len() {
							if b, isBasic := csig.Params().At(i).Type().(*types.Basic); isBasic && b.Kind() == types.Bool {
								inPlace = true
							}
						}
					}
				}
				// a method that assigns to its own receiver's fields is a mutator (builder), not a persistent update
				if callee := calleeOf(info, call); callee != nil {
					if fd := c.FuncDecl(callee); fd != nil && fd.Recv != nil && len(fd.Recv.List) == 1 && len(fd.Recv.List[0].Names) == 1 {
						rname := fd.Recv.List[0].Names[0].Name
						if nodeContains(fd.Body, true, func(x ast.Node) bool {
							as, ok := x.(*ast.AssignStmt)
							if !ok {
								return false
							}
							for _, l := range as.Lhs {
								if se, ok := ast.Unparen(l).(*ast.SelectorExpr); ok {
									if id, ok := ast.Unparen(se.X).(*ast.Ident); ok && id.Name == rname {
										return true
									}
								}
							}
							return false
						}) {
							inPlace = true
						}
					}
				}
				// a pointer-receiver method whose every return hands back the receiver itself is a fluent mutator
				// (builder.Add(x) returns the builder): the call statement is made for its effect
				if callee := calleeOf(info, call); callee != nil && !inPlace {
					if fd := c.FuncDecl(callee.Origin()); fd != nil && fd.Body != nil && fd.Recv != nil && len(fd.Recv.List) == 1 && len(fd.Recv.List[0].Names) == 1 {
						if _, isPtr := ast.Unparen(fd.Recv.List[0].Type).(*ast.StarExpr); isPtr {
							rname := fd.Recv.List[0].Names[0].Name
							rets, self := 0, 0
							ast.Inspect(fd.Body, func(x ast.Node) bool {
								if _, isLit := x.(*ast.FuncLit); isLit {
									return false
								}
								if r, ok := x.(*ast.ReturnStmt); ok && len(r.Results) == 1 {
									rets++
									if id, ok := ast.Unparen(r.Results[0]).(*ast.Ident); ok && id.Name == rname {
										self++
									}
								}
								return true
							})
							if rets > 0 && rets == self {
								inPlace = true
							}
						}
					}
				}
				if inPlace {
					k++
					c.Add(rule, fb.Name+"/"+exprString(call.Fun)+"#"+itoa(k), call.Pos(), core.Skipped, "in-place mode (constant true mutable flag / builder mutator): "+exprString(call))
					return true
				}
			}
			k++
			n++
			c.Add(rule, fb.Name+"/"+exprString(call.Fun)+"#"+itoa(k), call.Pos(), core.Violated,
				"result of "+why+" is discarded in `"+exprString(call)+"`: the call computes nothing / the update is lost")
			return true
		})
	}
	c.Add(rule, "scan", token.NoPos, core.Discharged, itoa(nStmts)+" call statements inspected; "+itoa(n)+" discard such a result")
	c.Floor(rule, "call statements inspected", nStmts, 40)
}

func sameNamed(a, b types.Type) bool {
	na, nb := namedOf(a), namedOf(b)
	return na != nil && nb != nil && na.Obj() == nb.Obj()
}

// ---------------------------------------------------------------- R-ACC

// Acc: argument roles of m.Combine in folds of seq/iterator/list.
func Acc(c *core.Ctx, rule string, pkgs []*packages.Package) {
	c.Rule(rule, "in every function of seq/iterator/list taking an fp.Monoid m, m.Combine(x, y) has the accumulator on the left and the current element on the right (left fold), or the element on the left and the lazy rest on the right (FoldRight call-back)")
	n := 0
	for _, p := range pkgs {
		info := p.TypesInfo
		for _, f := range p.Syntax {
			for _, d := range f.Decls {
				fd, ok := d.(*ast.FuncDecl)
				if !ok || fd.Body == nil {
					continue
				}
				var m types.Object
				for _, fl := range fd.Type.Params.List {
					for _, nm := range fl.Names {
						if o := info.Defs[nm]; o != nil && isNamed(o.Type(), "fp", "Monoid") {
							m = o
						}
					}
				}
				if m == nil {
					continue
				}
				name := c.FuncName(p, fd)
				roles := map[types.Object]string{}
				// pass 1: roles from declarations
				ast.Inspect(fd.Body, func(x ast.Node) bool {
					switch s := x.(type) {
					case *ast.AssignStmt:
						for i, l := range s.Lhs {
							if i >= len(s.Rhs) {
								break
							}
							lo := objOf(info, l)
							if lo == nil {
								continue
							}
							rhs := ast.Unparen(s.Rhs[i])
							if call, ok := rhs.(*ast.CallExpr); ok {
								if sel, ok := ast.Unparen(call.Fun).(*ast.SelectorExpr); ok && objOf(info, sel.X) == m && (sel.Sel.Name == "Empty" || sel.Sel.Name == "Combine") {
									roles[lo] = "acc"
									continue
								}
								// element: x.Next(), f(elem)
								if sel, ok := ast.Unparen(call.Fun).(*ast.SelectorExpr); ok && sel.Sel.Name == "Next" {
									roles[lo] = "elem"
									continue
								}
								if len(call.Args) == 1 {
									if ao := objOf(info, call.Args[0]); ao != nil && roles[ao] == "elem" {
										roles[lo] = "elem"
									}
								}
							}
						}
					case *ast.RangeStmt:
						if s.Value != nil {
							if o := objOf(info, s.Value); o != nil {
								roles[o] = "elem"
							}
						}
					case *ast.CallExpr:
						callee := calleeOf(info, s)
						if callee == nil {
							return true
						}
						// Fold(s, zero, func(acc, elem)) ; FoldRight(s, zero, func(elem, rest))
						if len(s.Args) == 3 {
							if fl, ok := ast.Unparen(s.Args[2]).(*ast.FuncLit); ok {
								var ps []types.Object
								for _, pf := range fl.Type.Params.List {
									for _, nm := range pf.Names {
										ps = append(ps, info.Defs[nm])
									}
								}
								if len(ps) == 2 {
									switch callee.Name() {
									case "Fold", "FoldLeft":
										roles[ps[0]], roles[ps[1]] = "acc", "elem"
									case "FoldRight":
										roles[ps[0]], roles[ps[1]] = "elem", "restEval"
									}
								}
							}
						}
						// rest.Map(func(t) ...) where rest has role restEval
						if sel, ok := ast.Unparen(s.Fun).(*ast.SelectorExpr); ok && sel.Sel.Name == "Map" && len(s.Args) == 1 {
							if ro := objOf(info, sel.X); ro != nil && roles[ro] == "restEval" {
								if fl, ok := ast.Unparen(s.Args[0]).(*ast.FuncLit); ok && len(fl.Type.Params.List) == 1 && len(fl.Type.Params.List[0].Names) == 1 {
									roles[info.Defs[fl.Type.Params.List[0].Names[0]]] = "rest"
								}
							}
						}
					}
					return true
				})
				roleOf := func(e ast.Expr) string {
					e = ast.Unparen(e)
					if o := objOf(info, e); o != nil {
						return roles[o]
					}
					switch x := e.(type) {
					case *ast.IndexExpr:
						return "elem" // r[i]
					case *ast.CallExpr:
						if sel, ok := ast.Unparen(x.Fun).(*ast.SelectorExpr); ok {
							if objOf(info, sel.X) == m && sel.Sel.Name == "Empty" {
								return "acc"
							}
							if sel.Sel.Name == "Next" {
								return "elem"
							}
						}
						if len(x.Args) == 1 {
							if ao := objOf(info, x.Args[0]); ao != nil && roles[ao] == "elem" {
								return "elem"
							}
						}
					}
					return ""
				}
				k := 0
				ast.Inspect(fd.Body, func(x ast.Node) bool {
					call, ok := x.(*ast.CallExpr)
					if !ok || len(call.Args) != 2 {
						return true
					}
					sel, ok := ast.Unparen(call.Fun).(*ast.SelectorExpr)
					if !ok || sel.Sel.Name != "Combine" || objOf(info, sel.X) != m {
						return true
					}
					k++
					key := name + "/Combine#" + itoa(k)
					r1, r2 := roleOf(call.Args[0]), roleOf(call.Args[1])
					switch {
					case (r1 == "acc" && r2 == "elem") || (r1 == "elem" && r2 == "rest"):
						n++
						c.Add(rule, key, call.Pos(), core.Discharged, "Combine("+r1+", "+r2+")")
					case (r1 == "elem" && r2 == "acc") || (r1 == "rest" && r2 == "elem"):
						n++
						c.Add(rule, key, call.Pos(), core.Violated, "`"+exprString(call)+"` combines ("+r1+", "+r2+"): operands are swapped, a non-commutative monoid (String, MergeSeq) is folded in reverse")
					default:
						c.Add(rule, key, call.Pos(), core.Skipped, "argument roles not recognised: "+exprString(call))
					}
					return true
				})
			}
		}
	}
	c.Floor(rule, "Combine calls with recognised roles", n, 4)
}
