package rules

// R-NILGUARD — contradiction rule ("the code states the zero value is legal").
//
// For every struct type T of the module with a nil-able field f (func,
// interface, pointer) such that SOME method of T compares r.f with nil, every
// call through r.f / method call on r.f / dereference of r.f in ANY method of T
// (function literals included) must be dominated by the fact r.f != nil.
// Facts are path-sensitive sets of disjuncts over the receiver's fields, so
//     if a == nil && b == nil { return }; if a == nil { b() }
// is proved. An unguarded use inside an unexported method is moved to the
// method's call sites (interprocedural, same receiver); an exported method with
// an unguarded use is a violation.

import (
	"fmt"
	"go/token"
	"go/types"
	"sort"
	"strings"

	"fpcheck/core"

	"golang.org/x/tools/go/ssa"
)

type ngDisj map[*types.Var]int8 // +1 non-nil, -1 nil

func (d ngDisj) key() string {
	var ks []string
	for v, s := range d {
		ks = append(ks, fmt.Sprintf("%s@%d=%d", v.Name(), v.Pos(), s))
	}
	sort.Strings(ks)
	return strings.Join(ks, ",")
}
func (d ngDisj) clone() ngDisj {
	n := ngDisj{}
	for k, v := range d {
		n[k] = v
	}
	return n
}

type ngState map[string]ngDisj // nil = unreachable

func (s ngState) clone() ngState {
	if s == nil {
		return nil
	}
	n := ngState{}
	for k, d := range s {
		n[k] = d.clone()
	}
	return n
}

// union returns whether s changed.
func (s *ngState) union(o ngState) bool {
	if o == nil {
		return false
	}
	ch := false
	if *s == nil {
		*s = ngState{}
		ch = true
	}
	for k, d := range o {
		if _, ok := (*s)[k]; !ok {
			(*s)[k] = d.clone()
			ch = true
		}
	}
	if len(*s) > 64 { // widen: keep only the facts common to all disjuncts
		var common ngDisj
		for _, d := range *s {
			if common == nil {
				common = d.clone()
				continue
			}
			for v, sgn := range common {
				if d[v] != sgn {
					delete(common, v)
				}
			}
		}
		*s = ngState{common.key(): common}
	}
	return ch
}

func (s ngState) assume(f *types.Var, sign int8) ngState {
	if s == nil {
		return nil
	}
	n := ngState{}
	for _, d := range s {
		if d[f] == -sign {
			continue // contradiction: path infeasible
		}
		d2 := d.clone()
		d2[f] = sign
		n[d2.key()] = d2
	}
	if len(n) == 0 {
		return nil
	}
	return n
}

func (s ngState) kill(f *types.Var) ngState {
	n := ngState{}
	for _, d := range s {
		d2 := d.clone()
		if f == nil {
			d2 = ngDisj{}
		} else {
			delete(d2, f)
		}
		n[d2.key()] = d2
	}
	return n
}

func (s ngState) allNonNil(f *types.Var) bool {
	if s == nil {
		return true // unreachable code
	}
	for _, d := range s {
		if d[f] != 1 {
			return false
		}
	}
	return true
}

// ngMethod is the receiver-tracking context of one method and its literals.
type ngMethod struct {
	top      *ssa.Function
	recvT    *types.Named
	recvAddr map[ssa.Value]bool
	recvVal  map[ssa.Value]bool
	funcs    []*ssa.Function // top + nested literals
	stores   map[*types.Var]bool
	storeAll bool
}

func collectLiterals(fn *ssa.Function, out *[]*ssa.Function) {
	*out = append(*out, fn)
	for _, a := range fn.AnonFuncs {
		collectLiterals(a, out)
	}
}

func newNgMethod(fn *ssa.Function) *ngMethod {
	sig := fn.Signature
	if sig.Recv() == nil || len(fn.Params) == 0 {
		return nil
	}
	nt := namedOf(sig.Recv().Type())
	if nt == nil {
		return nil
	}
	if _, ok := nt.Underlying().(*types.Struct); !ok {
		return nil
	}
	m := &ngMethod{top: fn, recvT: nt, recvAddr: map[ssa.Value]bool{}, recvVal: map[ssa.Value]bool{}, stores: map[*types.Var]bool{}}
	collectLiterals(fn, &m.funcs)
	recv := fn.Params[0]
	if _, ok := recv.Type().Underlying().(*types.Pointer); ok {
		m.recvAddr[recv] = true
	} else {
		m.recvVal[recv] = true
	}
	isStructish := func(t types.Type) bool {
		if p, ok := t.Underlying().(*types.Pointer); ok {
			t = p.Elem()
		}
		_, ok := t.Underlying().(*types.Struct)
		return ok
	}
	for changed := true; changed; {
		changed = false
		mark := func(set map[ssa.Value]bool, v ssa.Value) {
			if !set[v] {
				set[v] = true
				changed = true
			}
		}
		for _, f := range m.funcs {
			for _, b := range f.Blocks {
				for _, in := range b.Instrs {
					switch x := in.(type) {
					case *ssa.Store:
						if _, isAlloc := x.Addr.(*ssa.Alloc); isAlloc && m.recvVal[x.Val] {
							mark(m.recvAddr, x.Addr)
						}
					case *ssa.UnOp:
						if x.Op == token.MUL && m.recvAddr[x.X] {
							mark(m.recvVal, x)
						}
					case *ssa.ChangeType:
						if isStructish(x.Type()) {
							if m.recvVal[x.X] {
								mark(m.recvVal, x)
							}
							if m.recvAddr[x.X] {
								mark(m.recvAddr, x)
							}
						}
					case *ssa.Convert:
						if isStructish(x.Type()) {
							if m.recvVal[x.X] {
								mark(m.recvVal, x)
							}
							if m.recvAddr[x.X] {
								mark(m.recvAddr, x)
							}
						}
					case *ssa.MakeClosure:
						g := x.Fn.(*ssa.Function)
						for i, bnd := range x.Bindings {
							if i < len(g.FreeVars) {
								if m.recvAddr[bnd] {
									mark(m.recvAddr, g.FreeVars[i])
								}
								if m.recvVal[bnd] {
									mark(m.recvVal, g.FreeVars[i])
								}
							}
						}
					}
				}
			}
		}
	}
	// stores to receiver fields (other than the spill of the parameter)
	for _, f := range m.funcs {
		for _, b := range f.Blocks {
			for _, in := range b.Instrs {
				if st, ok := in.(*ssa.Store); ok {
					if fa, ok := st.Addr.(*ssa.FieldAddr); ok && m.recvAddr[fa.X] {
						if fv := structFieldVar(fa.X.Type(), fa.Field); fv != nil {
							m.stores[fv] = true
						}
					} else if m.recvAddr[st.Addr] && !m.recvVal[st.Val] {
						m.storeAll = true
					}
				}
			}
		}
	}
	return m
}

// fieldLoad: is v the value of receiver field f?
func (m *ngMethod) fieldLoad(v ssa.Value) *types.Var {
	switch x := v.(type) {
	case *ssa.UnOp:
		if x.Op == token.MUL {
			if fa, ok := x.X.(*ssa.FieldAddr); ok && m.recvAddr[fa.X] {
				return structFieldVar(fa.X.Type(), fa.Field)
			}
		}
	case *ssa.Field:
		if m.recvVal[x.X] {
			return structFieldVar(x.X.Type(), x.Field)
		}
	}
	return nil
}

func nilable(t types.Type) bool {
	switch t.Underlying().(type) {
	case *types.Signature, *types.Interface, *types.Pointer:
		return true
	}
	return false
}

// condFact decodes `r.f == nil` style conditions: returns field and the sign that holds on the TRUE edge.
func (m *ngMethod) condFact(v ssa.Value) (*types.Var, int8) {
	switch x := v.(type) {
	case *ssa.BinOp:
		if x.Op != token.EQL && x.Op != token.NEQ {
			return nil, 0
		}
		var f *types.Var
		if isNilConst(x.Y) {
			f = m.fieldLoad(x.X)
		} else if isNilConst(x.X) {
			f = m.fieldLoad(x.Y)
		}
		if f == nil {
			return nil, 0
		}
		if x.Op == token.EQL {
			return f, -1
		}
		return f, 1
	case *ssa.UnOp:
		if x.Op == token.NOT {
			f, s := m.condFact(x.X)
			return f, -s
		}
	}
	return nil, 0
}

type ngUse struct {
	fn    *ssa.Function
	in    ssa.Instruction
	field *types.Var
	how   string
	ok    bool
}

type ngCall struct {
	fn     *ssa.Function
	in     ssa.Instruction
	callee *types.Func
	state  ngState
}

// useOf reports the belief-relevant field used (called through / dereferenced) by instruction in.
func (m *ngMethod) useOf(in ssa.Instruction) (*types.Var, string) {
	switch x := in.(type) {
	case ssa.CallInstruction:
		cc := x.Common()
		if f := m.fieldLoad(cc.Value); f != nil {
			if cc.IsInvoke() {
				return f, "method call " + cc.Method.Name() + " on interface field"
			}
			return f, "call through func field"
		}
		if !cc.IsInvoke() && len(cc.Args) > 0 {
			if f := m.fieldLoad(cc.Args[0]); f != nil {
				if callee := cc.StaticCallee(); callee != nil && callee.Signature.Recv() != nil {
					switch f.Type().Underlying().(type) {
					case *types.Pointer:
						return f, "method call " + callee.Name() + " on pointer field"
					case *types.Signature:
						return f, "method call " + callee.Name() + " on func-typed field"
					}
				}
			}
		}
	case *ssa.FieldAddr:
		if f := m.fieldLoad(x.X); f != nil {
			return f, "field access through pointer field"
		}
	case *ssa.UnOp:
		if x.Op == token.MUL {
			if f := m.fieldLoad(x.X); f != nil {
				return f, "dereference of pointer field"
			}
		}
	case *ssa.TypeAssert:
		if !x.CommaOk {
			if f := m.fieldLoad(x.X); f != nil {
				if _, isIface := x.AssertedType.Underlying().(*types.Interface); !isIface || true {
					return f, "unchecked type assertion on interface field"
				}
			}
		}
	}
	return nil, ""
}

// analyze runs the dataflow over fn (a method body or one of its literals) from entry state.
func (m *ngMethod) analyze(fn *ssa.Function, entry ngState, beliefs map[*types.Var]bool, uses *[]ngUse, calls *[]ngCall) {
	in := make([]ngState, len(fn.Blocks))
	in[0] = entry.clone()
	work := []int{0}
	transfer := func(b *ssa.BasicBlock, st ngState, final bool) ngState {
		for _, ins := range b.Instrs {
			if final {
				if f, how := m.useOf(ins); f != nil && beliefs[f] {
					*uses = append(*uses, ngUse{fn, ins, f, how, st.allNonNil(f)})
				}
				if ci, ok := ins.(ssa.CallInstruction); ok {
					cc := ci.Common()
					if callee := calleeFunc(cc); callee != nil && len(cc.Args) > 0 {
						if sig, _ := callee.Type().(*types.Signature); sig != nil && sig.Recv() != nil {
							if m.recvVal[cc.Args[0]] || m.recvAddr[cc.Args[0]] {
								*calls = append(*calls, ngCall{fn, ins, callee, st.clone()})
							}
						}
					}
				}
				if mc, ok := ins.(*ssa.MakeClosure); ok {
					g := mc.Fn.(*ssa.Function)
					es := st.clone()
					for f := range m.stores {
						es = es.kill(f)
					}
					if m.storeAll {
						es = es.kill(nil)
					}
					m.analyze(g, es, beliefs, uses, calls)
				}
			}
			if ci, ok := ins.(*ssa.Call); ok && st != nil {
				// assert idiom: callee panics unless its bool parameter k holds
				if callee := ci.Call.StaticCallee(); callee != nil {
					if k := assertsParam(callee); k >= 0 && k < len(ci.Call.Args) {
						if f, sign := m.condFact(ci.Call.Args[k]); f != nil {
							st = st.assume(f, sign)
						}
					}
				}
			}
			if s, ok := ins.(*ssa.Store); ok && st != nil {
				if fa, ok := s.Addr.(*ssa.FieldAddr); ok && m.recvAddr[fa.X] {
					st = st.kill(structFieldVar(fa.X.Type(), fa.Field))
				} else if m.recvAddr[s.Addr] && !m.recvVal[s.Val] {
					st = st.kill(nil)
				}
			}
		}
		return st
	}
	for len(work) > 0 {
		bi := work[len(work)-1]
		work = work[:len(work)-1]
		b := fn.Blocks[bi]
		st := transfer(b, in[bi].clone(), false)
		if st == nil {
			continue
		}
		succStates := make([]ngState, len(b.Succs))
		for i := range b.Succs {
			succStates[i] = st
		}
		if iff, ok := b.Instrs[len(b.Instrs)-1].(*ssa.If); ok && len(b.Succs) == 2 {
			if f, sign := m.condFact(iff.Cond); f != nil {
				succStates[0] = st.assume(f, sign)
				succStates[1] = st.assume(f, -sign)
			}
		}
		for i, s := range b.Succs {
			if in[s.Index].union(succStates[i]) {
				work = append(work, s.Index)
			}
		}
	}
	for bi, b := range fn.Blocks {
		if in[bi] != nil {
			transfer(b, in[bi].clone(), true)
		}
	}
}

// NilGuard runs the rule on every struct type accepted by scope.
func NilGuard(c *core.Ctx, rule string, scope func(t *types.Named) bool) {
	c.Rule(rule, "every call through / dereference of a receiver field f that some method of the same type compares with nil is dominated by f != nil (path-sensitive; unexported helpers are judged at their call sites)")
	var methods []*ngMethod
	byFunc := map[*types.Func]*ngMethod{}
	for _, fn := range srcFuncs(c) {
		if fn.Parent() != nil {
			continue
		}
		m := newNgMethod(fn)
		if m == nil || !scope(m.recvT) {
			continue
		}
		methods = append(methods, m)
		if o, ok := fn.Object().(*types.Func); ok {
			byFunc[o.Origin()] = m
		}
	}
	// beliefs
	beliefs := map[*types.Var]bool{}
	beliefWhere := map[*types.Var]string{}
	for _, m := range methods {
		for _, f := range m.funcs {
			for _, b := range f.Blocks {
				for _, in := range b.Instrs {
					if v, ok := in.(ssa.Value); ok {
						if fv, _ := m.condFact(v); fv != nil && nilable(fv.Type()) {
							if !beliefs[fv] {
								beliefs[fv] = true
								beliefWhere[fv] = fnName(f)
							}
						}
					}
				}
			}
		}
	}
	var rows []string
	for fv, w := range beliefWhere {
		rows = append(rows, fmt.Sprintf("%s (nil test in %s)", fieldOwnerName(c, fv), w))
	}
	sort.Strings(rows)
	c.Table(rule+".belief_fields", rows...)

	// first pass with empty entry facts; helpers collect needs
	type result struct {
		uses  []ngUse
		calls []ngCall
	}
	res := map[*ngMethod]*result{}
	need := map[*ngMethod]map[*types.Var]bool{}
	run := func(m *ngMethod) {
		entry := ngState{}
		d := ngDisj{}
		for f := range need[m] {
			d[f] = 1
		}
		entry[d.key()] = d
		r := &result{}
		m.analyze(m.top, entry, beliefs, &r.uses, &r.calls)
		res[m] = r
	}
	for _, m := range methods {
		run(m)
	}
	exported := func(m *ngMethod) bool { return token.IsExported(m.top.Name()) }
	// propagate: unexported method with unguarded use needs the fact at entry
	type blame struct {
		at  ngCall
		f   *types.Var
		via string
	}
	var blames []blame
	for iter := 0; iter < 10; iter++ {
		changed := false
		for _, m := range methods {
			if exported(m) {
				continue
			}
			for _, u := range res[m].uses {
				if !u.ok {
					if need[m] == nil {
						need[m] = map[*types.Var]bool{}
					}
					if !need[m][u.field] {
						need[m][u.field] = true
						changed = true
					}
				}
			}
		}
		// call sites of needy helpers
		blames = blames[:0]
		for _, m := range methods {
			for _, cl := range res[m].calls {
				cm := byFunc[cl.callee]
				if cm == nil || cm == m || len(need[cm]) == 0 {
					continue
				}
				for f := range need[cm] {
					if cl.state.allNonNil(f) {
						continue
					}
					if exported(m) {
						blames = append(blames, blame{cl, f, fnName(cm.top)})
					} else {
						if need[m] == nil {
							need[m] = map[*types.Var]bool{}
						}
						if !need[m][f] {
							need[m][f] = true
							changed = true
						}
					}
				}
			}
		}
		if !changed {
			break
		}
		for _, m := range methods {
			if len(need[m]) > 0 {
				run(m)
			}
		}
	}
	// helpers whose needs are relied upon must only be called on the receiver by methods of the type:
	// any other static call site of a needy helper is undecided.
	needy := map[*types.Func]*ngMethod{}
	for _, m := range methods {
		if len(need[m]) > 0 {
			if o, ok := m.top.Object().(*types.Func); ok {
				needy[o.Origin()] = m
			}
		}
	}
	if len(needy) > 0 {
		tracked := map[ssa.Instruction]bool{}
		for _, m := range methods {
			for _, cl := range res[m].calls {
				tracked[cl.in] = true
			}
		}
		for _, fn := range srcFuncs(c) {
			for _, b := range fn.Blocks {
				for _, in := range b.Instrs {
					if ci, ok := in.(ssa.CallInstruction); ok {
						if callee := calleeFunc(ci.Common()); callee != nil && needy[callee] != nil && !tracked[in] {
							c.Add(rule, fnName(fn)+"/call:"+callee.Name(), instrPos(in), core.Undecided,
								"helper "+callee.Name()+" relies on a non-nil receiver field but is called on a value that is not the caller's receiver")
						}
					}
				}
			}
		}
	}
	nUses := 0
	for _, m := range methods {
		for _, u := range res[m].uses {
			nUses++
			key := fmt.Sprintf("%s/%s.%s", fnName(u.fn), typeBaseName(m.recvT), u.field.Name())
			if u.ok {
				c.Add(rule, key, instrPos(u.in), core.Discharged, u.how+" guarded by nil test")
			} else if exported(m) {
				c.Add(rule, key, instrPos(u.in), core.Violated,
					fmt.Sprintf("%s of %s.%s without a dominating nil test, although %s tests it: the zero value crashes here", u.how, typeBaseName(m.recvT), u.field.Name(), beliefWhere[u.field]))
			} else {
				c.Add(rule, key, instrPos(u.in), core.Discharged, u.how+" in unexported helper; fact required from every caller")
			}
		}
	}
	for _, bl := range blames {
		key := fmt.Sprintf("%s/call:%s/%s", fnName(bl.at.fn), bl.via, bl.f.Name())
		c.Add(rule, key, instrPos(bl.at.in), core.Violated,
			fmt.Sprintf("calls helper %s, which uses field %s unguarded, without establishing %s != nil", bl.via, bl.f.Name(), bl.f.Name()))
	}
	c.Floor(rule, "belief fields", len(beliefs), 1)
	c.Floor(rule, "uses of belief fields", nUses, 0) // a single use may legitimately move into a local copy of the field
}

func fieldOwnerName(c *core.Ctx, fv *types.Var) string {
	// find the struct type declaring fv
	if fv.Pkg() != nil {
		scope := fv.Pkg().Scope()
		for _, n := range scope.Names() {
			if tn, ok := scope.Lookup(n).(*types.TypeName); ok {
				if st, ok := tn.Type().Underlying().(*types.Struct); ok {
					for i := 0; i < st.NumFields(); i++ {
						if st.Field(i).Origin() == fv {
							return core.ShortPkg(fv.Pkg().Path()) + "." + tn.Name() + "." + fv.Name()
						}
					}
				}
			}
		}
		return core.ShortPkg(fv.Pkg().Path()) + ".?." + fv.Name()
	}
	return fv.Name()
}

// assertsParam recognises `func assert(cond bool, ...) { if !cond { panic(..) } }`:
// it returns the index of a bool parameter whose falsity leads only to panic, or -1.
func assertsParam(fn *ssa.Function) int {
	if len(fn.Blocks) == 0 {
		return -1
	}
	b0 := fn.Blocks[0]
	iff, ok := b0.Instrs[len(b0.Instrs)-1].(*ssa.If)
	if !ok || len(b0.Instrs) > 2 {
		return -1
	}
	cond := iff.Cond
	neg := false
	if u, ok := cond.(*ssa.UnOp); ok && u.Op == token.NOT {
		cond, neg = u.X, true
	}
	p, ok := cond.(*ssa.Parameter)
	if !ok {
		return -1
	}
	falseSucc := b0.Succs[1]
	if neg {
		falseSucc = b0.Succs[0]
	}
	// every path from falseSucc must end in panic
	seen := map[*ssa.BasicBlock]bool{}
	var onlyPanics func(b *ssa.BasicBlock) bool
	onlyPanics = func(b *ssa.BasicBlock) bool {
		if seen[b] {
			return true
		}
		seen[b] = true
		switch b.Instrs[len(b.Instrs)-1].(type) {
		case *ssa.Panic:
			return true
		case *ssa.Return:
			return false
		}
		for _, s := range b.Succs {
			if !onlyPanics(s) {
				return false
			}
		}
		return len(b.Succs) > 0
	}
	if !onlyPanics(falseSucc) {
		return -1
	}
	for i, q := range fn.Params {
		if q == p {
			return i
		}
	}
	return -1
}
