package rules

// Rules added after the first round of seeded changes (see DESIGN.md §9):
//   R-SIGN    (C10)  Compare results are tested by sign only, never against ±1
//   R-SIZE    (C09)  container equalities return true only where equal sizes are established
//   R-NOSWAP  (C10/C11) binary typeclass closures never exchange their two operands
//   R-BOUND   (C12)  a bound on a captured counter is tested before the source is consulted

import (
	"go/ast"
	"go/constant"
	"go/token"
	"go/types"

	"fpcheck/core"

	"golang.org/x/tools/go/packages"
	"golang.org/x/tools/go/ssa"
)

// isCompareCall: a call of fp.Ord.Compare / CompareFunc / LessFunc.Compare (results are only sign-normalised by contract
// for LessFunc; CompareFunc and FromCompare pass raw comparator values through).
func isCompareCall(info *types.Info, e ast.Expr) bool {
	call, ok := ast.Unparen(e).(*ast.CallExpr)
	if !ok {
		return false
	}
	if sel, ok := ast.Unparen(call.Fun).(*ast.SelectorExpr); ok && sel.Sel.Name == "Compare" {
		if tv, ok := info.Types[sel.X]; ok && isTypeclassRecv(tv.Type) {
			return true
		}
	}
	if tv, ok := info.Types[call.Fun]; ok && isNamed(tv.Type, "fp", "CompareFunc") {
		return true
	}
	return false
}

func Sign(c *core.Ctx, rule string, pkgs []*packages.Package) {
	c.Rule(rule, "the int returned by an Ord's Compare (or by a CompareFunc) is examined by sign only (<0, ==0, >0 …): comparing it with ±1 — directly, through a local, or in a switch — breaks for orders built with FromCompare from comparators that return arbitrary negative/positive values")
	n := 0
	for _, fb := range funcBodies(c, pkgs) {
		if fb.Lit != nil {
			continue // literals are walked with their declaration
		}
		info := fb.Pkg.TypesInfo
		cmpVars := map[types.Object]bool{}
		ast.Inspect(fb.Body, func(x ast.Node) bool {
			if as, ok := x.(*ast.AssignStmt); ok && len(as.Lhs) == 1 && len(as.Rhs) == 1 && isCompareCall(info, as.Rhs[0]) {
				if o := objOf(info, as.Lhs[0]); o != nil {
					cmpVars[o] = true
				}
			}
			return true
		})
		isCmp := func(e ast.Expr) bool {
			if isCompareCall(info, e) {
				return true
			}
			o := objOf(info, e)
			return o != nil && cmpVars[o]
		}
		nonZeroConst := func(e ast.Expr) bool {
			tv, ok := info.Types[e]
			return ok && tv.Value != nil && tv.Value.Kind() == constant.Int && constant.Sign(tv.Value) != 0
		}
		k := 0
		ast.Inspect(fb.Body, func(x ast.Node) bool {
			switch s := x.(type) {
			case *ast.BinaryExpr:
				if isCmp(s.X) || isCmp(s.Y) {
					n++
					other := s.Y
					if isCmp(s.Y) {
						other = s.X
					}
					if (s.Op == token.EQL || s.Op == token.NEQ) && nonZeroConst(other) {
						k++
						c.Add(rule, fb.Name+"/cmp#"+itoa(k), s.Pos(), core.Violated, "`"+exprString(s)+"` tests a Compare result against "+exprString(other)+": an order made with FromCompare(func(a,b) int { return a-b }) yields other magnitudes, so the element is treated as equal")
					}
				}
			case *ast.SwitchStmt:
				if s.Tag != nil && isCmp(s.Tag) {
					n++
					for _, cl := range s.Body.List {
						for _, e := range cl.(*ast.CaseClause).List {
							if nonZeroConst(e) {
								k++
								c.Add(rule, fb.Name+"/cmp#"+itoa(k), e.Pos(), core.Violated, "switch on `"+exprString(s.Tag)+"` has `case "+exprString(e)+"`: only the sign of a Compare result is defined")
							}
						}
					}
				}
			}
			return true
		})
	}
	c.Add(rule, "scan", token.NoPos, core.Discharged, itoa(n)+" examinations of Compare results, all by sign")
	c.Floor(rule, "examinations of Compare results", n, 4)
}

// ---------------------------------------------------------------- R-SIZE

func sizeExprOf(info *types.Info, e ast.Expr, a, b types.Object) types.Object {
	e = ast.Unparen(e)
	call, ok := e.(*ast.CallExpr)
	if !ok {
		return nil
	}
	if isBuiltinCall(info, call, "len") && len(call.Args) == 1 {
		o := objOf(info, call.Args[0])
		if o == a || o == b {
			return o
		}
	}
	if sel, ok := ast.Unparen(call.Fun).(*ast.SelectorExpr); ok && sel.Sel.Name == "Size" && len(call.Args) == 0 {
		o := objOf(info, sel.X)
		if o == a || o == b {
			return o
		}
	}
	return nil
}

type sizeFacts struct{ eq, aZero, bZero, unknown bool }

// condFacts: what a condition being TRUE tells about the sizes (conjunctions only).
func condSizeFacts(info *types.Info, cond ast.Expr, a, b types.Object, f *sizeFacts, negated bool) {
	cond = ast.Unparen(cond)
	if u, ok := cond.(*ast.UnaryExpr); ok && u.Op == token.NOT {
		condSizeFacts(info, u.X, a, b, f, !negated)
		return
	}
	be, ok := cond.(*ast.BinaryExpr)
	if ok && ((be.Op == token.LAND && !negated) || (be.Op == token.LOR && negated)) {
		condSizeFacts(info, be.X, a, b, f, negated)
		condSizeFacts(info, be.Y, a, b, f, negated)
		return
	}
	if call, ok := cond.(*ast.CallExpr); ok {
		if sel, ok := ast.Unparen(call.Fun).(*ast.SelectorExpr); ok && len(call.Args) == 0 {
			o := objOf(info, sel.X)
			if (sel.Sel.Name == "IsEmpty" && !negated) || (sel.Sel.Name == "NonEmpty" && negated) {
				if o == a {
					f.aZero = true
				}
				if o == b {
					f.bZero = true
				}
			}
		}
		return
	}
	if !ok {
		return
	}
	sx, sy := sizeExprOf(info, be.X, a, b), sizeExprOf(info, be.Y, a, b)
	op := be.Op
	if negated {
		switch op {
		case token.EQL:
			op = token.NEQ
		case token.NEQ:
			op = token.EQL
		default:
			if sx != nil || sy != nil {
				f.unknown = f.unknown || (sx != nil && sy != nil)
			}
			return
		}
	}
	switch {
	case sx != nil && sy != nil && sx != sy:
		if op == token.EQL {
			f.eq = true
		} else if op != token.NEQ {
			f.unknown = true // <, > … between the two sizes: relation not modelled
		}
	case sx != nil || sy != nil:
		s, other := sx, be.Y
		if sx == nil {
			s, other = sy, be.X
		}
		if tv, ok := info.Types[other]; ok && tv.Value != nil && tv.Value.Kind() == constant.Int && constant.Sign(tv.Value) == 0 && op == token.EQL {
			if s == a {
				f.aZero = true
			} else {
				f.bZero = true
			}
		}
	}
}

func Size(c *core.Ctx, rule string, pkgs []*packages.Package, floors ...int) {
	c.Rule(rule, "in an equality closure of package eq (or a compare closure of package ord) over two containers (slice, fp.Seq, Go map, fp.Map, fp.Set) every `return true` (`return 0`) lies on a path on which equal sizes have been established (size test ⇒ false before it, or a guard implying equal sizes): containers of different sizes are never equal")
	n := 0
	for _, bc := range binClosures(c, pkgs) {
		if bc.res == nil {
			continue
		}
		// equality closures (bool, `return true`) of package eq; compare closures (int, `return 0`) of package ord
		equalLit := "true"
		switch {
		case types.Identical(bc.res, types.Typ[types.Bool]) && core.ShortPkg(bc.fb.Pkg.PkgPath) == "eq":
		case types.Identical(bc.res, types.Typ[types.Int]) && core.ShortPkg(bc.fb.Pkg.PkgPath) == "ord":
			equalLit = "0"
		default:
			continue
		}
		t := bc.a.Type()
		isContainer := isNamed(t, "fp", "Seq") || isNamed(t, "fp", "Map") || isNamed(t, "fp", "Set")
		switch t.Underlying().(type) {
		case *types.Slice, *types.Map:
			isContainer = true
		}
		if !isContainer {
			continue
		}
		// only equality closures: the body must not be a Less (contains a `return a.Size() < b.Size()`-style ordering) — restrict to package eq / closures handed to eq.New / EqFunc
		info := bc.fb.Pkg.TypesInfo
		n++
		facts := sizeFacts{}
		bad := false
		var walk func(list []ast.Stmt, f sizeFacts)
		walk = func(list []ast.Stmt, f sizeFacts) {
			for _, st := range list {
				switch s := st.(type) {
				case *ast.IfStmt:
					// facts inside the then-branch: cond true
					inner := f
					condSizeFacts(info, s.Cond, bc.a, bc.b, &inner, false)
					walk(s.Body.List, inner)
					if eb, ok := s.Else.(*ast.BlockStmt); ok {
						outer := f
						condSizeFacts(info, s.Cond, bc.a, bc.b, &outer, true)
						walk(eb.List, outer)
					}
					// after an if whose body terminates, the negated condition holds
					if terminates(s.Body.List) {
						condSizeFacts(info, s.Cond, bc.a, bc.b, &f, true)
					}
				case *ast.ForStmt:
					walk(s.Body.List, f)
				case *ast.RangeStmt:
					walk(s.Body.List, f)
				case *ast.BlockStmt:
					walk(s.List, f)
				case *ast.ReturnStmt:
					if len(s.Results) == 1 && exprString(s.Results[0]) == equalLit {
						established := f.eq || (f.aZero && f.bZero)
						if !established && !f.unknown {
							bad = true
							c.Add(rule, bc.fb.Name+"/return-"+equalLit, s.Pos(), core.Violated, "`return "+equalLit+"` (equal) is reachable without the two sizes having been compared: containers of different length (e.g. a prefix view of the same slice) compare equal — Eqv is not 'pairwise equal', not transitive, and disagrees with Hash")
						}
					}
				}
			}
		}
		walk(bc.fb.Body.List, facts)
		if !bad {
			c.Add(rule, bc.fb.Name, bc.fb.Pos(), core.Discharged, "true only under established equal sizes")
		}
	}
	floor := 2
	if len(floors) > 0 {
		floor = floors[0]
	}
	c.Floor(rule, "container equality / compare closures", n, floor)
}

// ---------------------------------------------------------------- R-NOSWAP

func NoSwap(c *core.Ctx, rule string, pkgs []*packages.Package) {
	c.Rule(rule, "a binary typeclass closure func(a, b T) never exchanges or reassigns its two operands (`a, b = b, a`): operand order is significant (Less is asymmetric, Merge* is right-biased, Dual is the only instance that reverses, and it does so by argument position)")
	n := 0
	for _, bc := range binClosures(c, pkgs) {
		info := bc.fb.Pkg.TypesInfo
		n++
		var hit *ast.AssignStmt
		inspectShallow(bc.fb.Body, func(x ast.Node) bool {
			as, ok := x.(*ast.AssignStmt)
			if !ok || as.Tok != token.ASSIGN {
				return true
			}
			for i, l := range as.Lhs {
				lo := objOf(info, l)
				if lo != bc.a && lo != bc.b {
					continue
				}
				other := bc.b
				if lo == bc.b {
					other = bc.a
				}
				if i < len(as.Rhs) && objOf(info, as.Rhs[i]) == other {
					hit = as
				}
			}
			return true
		})
		if hit != nil {
			c.Add(rule, bc.fb.Name+"/swap", hit.Pos(), core.Violated, "`"+nodeString(c, hit)+"` exchanges the two operands of a binary instance: the result depends on something other than their position (e.g. right-biased merge becomes left-biased for some sizes)")
		} else {
			c.Add(rule, bc.fb.Name, bc.fb.Pos(), core.Discharged, "operands keep their positions")
		}
	}
	c.Floor(rule, "binary closures", n, 20)
}

// ---------------------------------------------------------------- R-BOUND (SSA)

func Bound(c *core.Ctx, rule string, fns []*ssa.Function) {
	c.Rule(rule, "in a literal that compares a captured counter with a bound (i < n) and also consults a captured source iterator (HasNext/Next), every such consultation is control-dependent on the comparison: once the bound is exhausted the source is not asked again (Take must not look ahead past n)")
	n := 0
	for _, fn := range fns {
		// closures (state in captured variables) and methods of a named iterator-state type (state in receiver fields)
		if fn.Parent() == nil && fn.Signature.Recv() == nil {
			continue
		}
		// the state cell behind a load: a captured variable, or a field of the receiver
		stateCell := func(addr ssa.Value) (types.Type, bool) {
			switch a := addr.(type) {
			case *ssa.FreeVar:
				if p, ok := a.Type().(*types.Pointer); ok {
					return p.Elem(), true
				}
			case *ssa.FieldAddr:
				if len(fn.Params) > 0 && a.X == ssa.Value(fn.Params[0]) && fn.Signature.Recv() != nil {
					if p, ok := a.Type().(*types.Pointer); ok {
						return p.Elem(), true
					}
				}
			}
			return nil, false
		}
		// comparisons between loads of two state ints
		capturedInt := func(v ssa.Value) bool {
			u, ok := v.(*ssa.UnOp)
			if !ok || u.Op != token.MUL {
				return false
			}
			t, ok := stateCell(u.X)
			if !ok {
				return false
			}
			b, ok := t.Underlying().(*types.Basic)
			return ok && b.Info()&types.IsInteger != 0
		}
		var boundIfs []*ssa.BasicBlock
		nBound := 0
		for _, b := range fn.Blocks {
			for _, ins := range b.Instrs {
				bo, ok := ins.(*ssa.BinOp)
				if !ok {
					continue
				}
				switch bo.Op {
				case token.LSS, token.LEQ, token.GTR, token.GEQ:
					if capturedInt(bo.X) && capturedInt(bo.Y) {
						nBound++
						if iff, ok := b.Instrs[len(b.Instrs)-1].(*ssa.If); ok && iff.Cond == bo {
							boundIfs = append(boundIfs, b)
						}
					}
				}
			}
		}
		if nBound == 0 {
			continue
		}
		// source consultations: calls of Iterator.HasNext/Next on a captured iterator
		k := 0
		for _, b := range fn.Blocks {
			for _, ins := range b.Instrs {
				call, ok := ins.(*ssa.Call)
				if !ok {
					continue
				}
				callee := calleeFunc(&call.Call)
				if callee == nil || !(funcIs(callee, "fp", "Iterator.HasNext") || funcIs(callee, "fp", "Iterator.Next")) || len(call.Call.Args) == 0 {
					continue
				}
				// receiver derives from a state cell (captured variable / receiver field)
				recv := call.Call.Args[0]
				if u, ok := recv.(*ssa.UnOp); ok {
					recv = u.X
				}
				if _, ok := stateCell(recv); !ok {
					continue
				}
				k++
				n++
				key := fnName(fn) + "/" + callee.Name() + "#" + itoa(k)
				dependent := false
				for _, ib := range boundIfs {
					for _, s := range ib.Succs {
						if s != ib && len(s.Preds) == 1 && s.Dominates(b) {
							dependent = true
						}
					}
				}
				if dependent {
					c.Add(rule, key, instrPos(ins), core.Discharged, "asked only after the bound test")
				} else {
					c.Add(rule, key, instrPos(ins), core.Violated, "the source is consulted ("+callee.Name()+") without first testing the counter bound that the same literal checks: after the last permitted element the upstream iterator is asked once more, which scans without end on an unbounded source whose remaining elements do not match")
				}
			}
		}
	}
	c.Floor(rule, "bounded source consultations", n, 1)
}
