package rules

// R-HANDOVER — typestate of builders (C04): a builder method that lets its in-place
// trie escape must give up ownership (field = nil) so later Adds cannot touch the
// published collection.

import (
	"go/ast"
	"go/constant"
	"go/types"

	"fpcheck/core"

	"golang.org/x/tools/go/packages"
)

func Handover(c *core.Ctx, rule string, p *packages.Package) {
	c.Rule(rule, "every method of a builder type (a type that runs the trie in in-place mode on a field F) that lets F escape into its result assigns F = nil before returning: a collection handed out by a builder is not changed by later use of that builder")
	info := p.TypesInfo
	type method struct {
		fd   *ast.FuncDecl
		recv types.Object
	}
	byType := map[string][]method{}
	for _, f := range p.Syntax {
		for _, d := range f.Decls {
			fd, ok := d.(*ast.FuncDecl)
			if !ok || fd.Recv == nil || fd.Body == nil || len(fd.Recv.List) != 1 || len(fd.Recv.List[0].Names) != 1 {
				continue
			}
			tn := core.RecvTypeName(fd.Recv.List[0].Type)
			byType[tn] = append(byType[tn], method{fd, info.Defs[fd.Recv.List[0].Names[0]]})
		}
	}
	nB := 0
	for tn, ms := range byType {
		// builder fields: r.F.m(..., true, ...) in some method
		fields := map[string]bool{}
		for _, m := range ms {
			ast.Inspect(m.fd.Body, func(n ast.Node) bool {
				call, ok := n.(*ast.CallExpr)
				if !ok {
					return true
				}
				sel, ok := ast.Unparen(call.Fun).(*ast.SelectorExpr)
				if !ok {
					return true
				}
				fsel, ok := ast.Unparen(sel.X).(*ast.SelectorExpr)
				if !ok || objOf(info, fsel.X) != m.recv {
					return true
				}
				callee := calleeOf(info, call)
				if callee == nil {
					return true
				}
				csig := callee.Type().(*types.Signature)
				for i, a := range call.Args {
					if tv, ok := info.Types[a]; ok && tv.Value != nil && tv.Value.Kind() == constant.Bool && constant.BoolVal(tv.Value) && i < csig.Params().Len() {
						// the callee's declared parameter must be a plain bool flag (not a type parameter instantiated with bool)
						if b, isBasic := csig.Params().At(i).Type().(*types.Basic); isBasic && b.Kind() == types.Bool {
							fields[fsel.Sel.Name] = true
						}
					}
				}
				return true
			})
		}
		for f := range fields {
			nB++
			for _, m := range ms {
				name := c.FuncName(p, m.fd)
				isField := func(e ast.Expr) bool {
					s, ok := ast.Unparen(e).(*ast.SelectorExpr)
					return ok && s.Sel.Name == f && objOf(info, s.X) == m.recv
				}
				// locals aliasing the field
				alias := map[types.Object]bool{}
				ast.Inspect(m.fd.Body, func(n ast.Node) bool {
					if as, ok := n.(*ast.AssignStmt); ok && len(as.Lhs) == len(as.Rhs) {
						for i := range as.Rhs {
							if isField(as.Rhs[i]) {
								if o := objOf(info, as.Lhs[i]); o != nil {
									alias[o] = true
								}
							}
						}
					}
					return true
				})
				mentions := func(n ast.Node) bool {
					return nodeContains(n, true, func(x ast.Node) bool {
						if e, ok := x.(ast.Expr); ok && isField(e) {
							// r.F.hasher etc. (reading a scalar out of it) still counts only when the field value itself is used
							return true
						}
						if id, ok := x.(*ast.Ident); ok && alias[info.Uses[id]] {
							return true
						}
						return false
					})
				}
				// escape: a return statement whose results mention the field/alias as a value (not as call receiver of the in-place update)
				escapes := false
				returnsRecv := true
				ast.Inspect(m.fd.Body, func(n ast.Node) bool {
					if _, ok := n.(*ast.FuncLit); ok {
						return false
					}
					if r, ok := n.(*ast.ReturnStmt); ok {
						for _, res := range r.Results {
							if objOf(info, res) != m.recv {
								returnsRecv = false
							}
							if mentions(res) {
								escapes = true
							}
						}
					}
					return true
				})
				if !escapes || returnsRecv {
					continue
				}
				cleared := nodeContains(m.fd.Body, false, func(x ast.Node) bool {
					as, ok := x.(*ast.AssignStmt)
					if !ok {
						return false
					}
					for i, l := range as.Lhs {
						if isField(l) && i < len(as.Rhs) && exprString(as.Rhs[i]) == "nil" {
							return true
						}
					}
					return false
				})
				key := name + "/" + tn + "." + f
				// the clearing store must reach the caller's builder: a value receiver clears a copy
				if _, isPtr := m.recv.Type().(*types.Pointer); cleared && !isPtr {
					c.Add(rule, key, m.fd.Pos(), core.Violated, name+" hands out "+f+" and assigns "+f+" = nil on a value receiver: the assignment clears a copy, the caller's builder keeps the published trie and later Adds modify the collection that was handed out")
					continue
				}
				if cleared {
					c.Add(rule, key, m.fd.Pos(), core.Discharged, "hands out "+f+" and clears it")
				} else {
					c.Add(rule, key, m.fd.Pos(), core.Violated, name+" publishes the builder's in-place trie "+tn+"."+f+" without giving it up ("+f+" = nil): a later Add mutates the collection already handed out")
				}
			}
		}
	}
	c.Floor(rule, "builder fields", nB, 2)
}
