package rules

// Rules added after the third round of seeded changes (DESIGN.md §10):
//   R-MAPOK        (C09)  an Eq over Go maps looks the other map up with the comma-ok form (a missing key is not the zero value)
//   R-PURE-COMBINE (C11)  a Combine closure does not write through its operands
//   R-SUBORDER     (C06)  nested subscriptions on Future parameters follow the declaration order
//   R-UNIT         (C01)  the unit of a monad never converts its argument to an interface (parametricity: it cannot inspect it)
//   R-RESIZED      (C03)  the entry-adding paths of set report the growth through *resized
//   R-FAILSTOP     (C17)  in a state function a later run is control-dependent on a test of the earlier run's result
//   R-NOFORCE      (C16)  a deferred recursive call is never forced inside its own thunk

import (
	"go/ast"
	"go/token"
	"go/types"

	"fpcheck/core"

	"golang.org/x/tools/go/cfg"
	"golang.org/x/tools/go/packages"
)

// ---------------------------------------------------------------- R-MAPOK

func MapOK(c *core.Ctx, rule string, pkgs []*packages.Package, floor int) {
	c.Rule(rule, "in a binary closure over two Go maps (an Eq/Ord on map[K]V) every lookup p[k] in one of the operand maps uses the comma-ok form: with the single-value form a key missing from the other map reads as V's zero value and compares equal to a present zero value")
	n := 0
	for _, bc := range binClosures(c, pkgs) {
		if _, ok := bc.a.Type().Underlying().(*types.Map); !ok {
			continue
		}
		info := bc.fb.Pkg.TypesInfo
		okForm := map[*ast.IndexExpr]bool{}
		ast.Inspect(bc.fb.Body, func(x ast.Node) bool {
			switch s := x.(type) {
			case *ast.AssignStmt:
				if len(s.Lhs) == 2 && len(s.Rhs) == 1 {
					if ix, ok := ast.Unparen(s.Rhs[0]).(*ast.IndexExpr); ok {
						okForm[ix] = true
					}
				}
				// writes p[k] = v are not lookups
				for _, l := range s.Lhs {
					if ix, ok := ast.Unparen(l).(*ast.IndexExpr); ok {
						okForm[ix] = true
					}
				}
			case *ast.ValueSpec:
				if len(s.Names) == 2 && len(s.Values) == 1 {
					if ix, ok := ast.Unparen(s.Values[0]).(*ast.IndexExpr); ok {
						okForm[ix] = true
					}
				}
			}
			return true
		})
		k := 0
		ast.Inspect(bc.fb.Body, func(x ast.Node) bool {
			ix, ok := x.(*ast.IndexExpr)
			if !ok {
				return true
			}
			o := objOf(info, ix.X)
			if o != bc.a && o != bc.b {
				return true
			}
			k++
			n++
			key := bc.fb.Name + "/" + exprString(ix) + "#" + itoa(k)
			if okForm[ix] {
				c.Add(rule, key, ix.Pos(), core.Discharged, "comma-ok lookup")
			} else {
				c.Add(rule, key, ix.Pos(), core.Violated, exprString(ix)+" reads the operand map without testing presence: a key that is missing from "+o.Name()+" yields the zero value, so maps with different key sets compare equal (and Eqv(a,b) != Eqv(b,a))")
			}
			return true
		})
	}
	c.Floor(rule, "lookups in operand maps", n, floor)
}

// ---------------------------------------------------------------- R-PURE-COMBINE

// refLike: a value through which a callee can modify the caller's data.
func refLike(t types.Type) bool {
	switch t.Underlying().(type) {
	case *types.Pointer, *types.Map, *types.Slice:
		return true
	}
	return false
}

func PureCombine(c *core.Ctx, rule string, pkgs []*packages.Package, floor int) {
	c.Rule(rule, "a binary closure func(a, b T) T of the monoid/semigroup packages whose operands are pointers, maps or slices never assigns through them (*a = …, a[k] = …, a.f = …, delete(a, …), copy(a, …), clear(a), append(a, …) onto an operand): Combine is a function of the operand values, and evaluating one grouping must not change the operands of another")
	n := 0
	for _, bc := range binClosures(c, pkgs) {
		if bc.res == nil || !types.Identical(bc.res, bc.a.Type()) || !refLike(bc.a.Type()) {
			continue
		}
		info := bc.fb.Pkg.TypesInfo
		roots := map[types.Object]bool{bc.a: true, bc.b: true}
		n++
		var bad ast.Node
		why := ""
		through := func(l ast.Expr) bool {
			l = ast.Unparen(l)
			if _, isIdent := l.(*ast.Ident); isIdent {
				return false // rebinding the local parameter
			}
			r, _ := accessorPath(info, l, roots)
			return r != nil
		}
		inspectShallow(bc.fb.Body, func(x ast.Node) bool {
			if bad != nil {
				return false
			}
			switch s := x.(type) {
			case *ast.AssignStmt:
				for _, l := range s.Lhs {
					if through(l) {
						bad, why = s, "assigns through operand: "+exprString(l)
					}
				}
			case *ast.IncDecStmt:
				if through(s.X) {
					bad, why = s, "modifies operand: "+exprString(s.X)
				}
			case *ast.CallExpr:
				for _, b := range []string{"delete", "copy", "clear"} {
					if isBuiltinCall(info, s, b) && len(s.Args) > 0 {
						if o := objOf(info, s.Args[0]); o != nil && roots[o] {
							bad, why = s, b+" on operand "+o.Name()
						}
					}
				}
				// append(a, …) writes into a's spare capacity (a full slice expression a[:n:n] has none)
				if isBuiltinCall(info, s, "append") && len(s.Args) > 1 {
					first := ast.Unparen(s.Args[0])
					if se, ok := first.(*ast.SliceExpr); ok {
						if se.Slice3 {
							first = nil
						} else {
							first = ast.Unparen(se.X)
						}
					}
					if first != nil {
						if o := objOf(info, first); o != nil && roots[o] {
							bad, why = s, "append onto operand "+o.Name()+" (writes into its spare capacity; the result aliases it)"
						}
					}
				}
			}
			return true
		})
		if bad != nil {
			c.Add(rule, bc.fb.Name, bad.Pos(), core.Violated, why+": Combine changes one of its operands, so the same operands combined again (the other grouping of an associativity instance, a second Reduce over the same elements) give a different result")
		} else {
			c.Add(rule, bc.fb.Name, bc.fb.Pos(), core.Discharged, "operands only read")
		}
	}
	c.Floor(rule, "combine closures over reference-like operands", n, floor)
}

// ---------------------------------------------------------------- R-SUBORDER

func isFutureType(t types.Type) bool { return t != nil && isNamed(t, "fp", "Future") }

func SubOrder(c *core.Ctx, rule string, pkgs []*packages.Package, floor int) {
	c.Rule(rule, "when a combinator subscribes to one Future operand inside the callback of a subscription to another (x.OnComplete(λ…y.OnComplete…), FlatMap(x, λ…Map(y,…))), the outer subscription is on the operand declared first: otherwise a failure of the earlier operand is not reported until the later one completes (the result no longer completes as soon as the sources it depends on are complete)")
	n := 0
	for _, fb := range funcBodies(c, pkgs) {
		if fb.Lit != nil || fb.Decl == nil {
			continue
		}
		info := fb.Pkg.TypesInfo
		idx := map[types.Object]int{}
		k := 0
		if fb.Decl.Recv != nil && len(fb.Decl.Recv.List) == 1 && len(fb.Decl.Recv.List[0].Names) == 1 {
			if o := info.Defs[fb.Decl.Recv.List[0].Names[0]]; o != nil && isFutureType(o.Type()) {
				idx[o] = k
				k++
			}
		}
		for _, f := range fb.Type.Params.List {
			for _, nm := range f.Names {
				if o := info.Defs[nm]; o != nil && isFutureType(o.Type()) {
					idx[o] = k
					k++
				}
			}
		}
		if len(idx) < 2 {
			continue
		}
		// subscribed(call) = the Future parameter this call subscribes to, and the callbacks it takes
		subscribed := func(call *ast.CallExpr) (types.Object, []*ast.FuncLit) {
			var lits []*ast.FuncLit
			for _, a := range call.Args {
				if fl, ok := ast.Unparen(a).(*ast.FuncLit); ok {
					lits = append(lits, fl)
				}
			}
			if len(lits) == 0 {
				return nil, nil
			}
			if sel, ok := ast.Unparen(call.Fun).(*ast.SelectorExpr); ok {
				if o := objOf(info, sel.X); o != nil {
					if _, isP := idx[o]; isP {
						return o, lits
					}
				}
			}
			if len(call.Args) > 0 {
				if o := objOf(info, call.Args[0]); o != nil {
					if _, isP := idx[o]; isP {
						return o, lits
					}
				}
			}
			return nil, nil
		}
		pair := 0
		var walk func(nd ast.Node, outer []types.Object)
		seen := map[string]bool{}
		// operands subscribed to outside every callback
		topLevel := map[types.Object]bool{}
		var top func(nd ast.Node)
		top = func(nd ast.Node) {
			ast.Inspect(nd, func(x ast.Node) bool {
				if _, isLit := x.(*ast.FuncLit); isLit {
					return false
				}
				if call, ok := x.(*ast.CallExpr); ok {
					if o, _ := subscribed(call); o != nil {
						topLevel[o] = true
					}
				}
				return true
			})
		}
		top(fb.Body)
		walk = func(nd ast.Node, outer []types.Object) {
			ast.Inspect(nd, func(x ast.Node) bool {
				if id, ok := x.(*ast.Ident); ok && len(outer) > 0 {
					o := info.Uses[id]
					if _, isP := idx[o]; !isP {
						return true
					}
					for _, out := range outer {
						if out == o || seen[out.Name()+">"+o.Name()] {
							continue
						}
						seen[out.Name()+">"+o.Name()] = true
						pair++
						n++
						key := fb.Name + "/nest#" + itoa(pair) + ":" + out.Name() + ">" + o.Name()
						if idx[o] < idx[out] && topLevel[o] {
							c.Add(rule, key, id.Pos(), core.Discharged, "the earlier operand is also subscribed to independently, outside this callback")
						} else if idx[o] < idx[out] {
							c.Add(rule, key, id.Pos(), core.Violated, "operand "+o.Name()+" (declared before "+out.Name()+") is consulted only inside the callback of the subscription to "+out.Name()+": when "+o.Name()+" has failed the result is decided, yet it stays incomplete until "+out.Name()+" completes — forever if it never does")
						} else {
							c.Add(rule, key, id.Pos(), core.Discharged, "outer subscription on the earlier operand")
						}
					}
					return true
				}
				call, ok := x.(*ast.CallExpr)
				if !ok {
					return true
				}
				o, lits := subscribed(call)
				if o == nil {
					return true
				}
				walk(call.Fun, outer)
				for _, a := range call.Args {
					if _, isLit := ast.Unparen(a).(*ast.FuncLit); !isLit {
						walk(a, outer)
					}
				}
				for _, fl := range lits {
					walk(fl.Body, append(append([]types.Object{}, outer...), o))
				}
				return false
			})
		}
		walk(fb.Body, nil)
	}
	c.Floor(rule, "nested subscriptions on two Future operands", n, floor)
}

var _ = token.NoPos

// ---------------------------------------------------------------- R-JSONDEC

// JSONDecDefault: UnmarshalJSON decodes with encoding/json's default value representation.
func JSONDecDefault(c *core.Ctx, rule string) {
	c.Rule(rule, "an UnmarshalJSON method decodes its payload with encoding/json's default representation: it never switches a json.Decoder to UseNumber (numbers in interface-typed slots would come back as json.Number instead of float64, so Some(v) does not decode to a value equal to v)")
	n := 0
	for _, fb := range funcBodies(c, c.Pkgs) {
		if fb.Decl == nil || fb.Decl.Recv == nil || fb.Decl.Name.Name != "UnmarshalJSON" {
			continue
		}
		if fb.Lit != nil {
			continue
		}
		if pp := fb.Pkg.PkgPath; len(pp) > 0 && (containsStr(pp, "/cmd/") || containsStr(pp, "/internal/generator")) {
			continue
		}
		info := fb.Pkg.TypesInfo
		n++
		var hit ast.Node
		ast.Inspect(fb.Body, func(x ast.Node) bool {
			if call, ok := x.(*ast.CallExpr); ok {
				if callee := calleeOf(info, call); callee != nil && callee.Pkg() != nil && callee.Pkg().Path() == "encoding/json" && callee.Name() == "UseNumber" {
					hit = call
				}
			}
			return true
		})
		if hit != nil {
			c.Add(rule, fb.Name, hit.Pos(), core.Violated, "UnmarshalJSON decodes with Decoder.UseNumber: a number held in an `any`, []any or map[string]any payload decodes to json.Number, not to the float64 that was marshalled")
		} else {
			c.Add(rule, fb.Name, fb.Decl.Pos(), core.Discharged, "default number representation")
		}
	}
	c.Floor(rule, "UnmarshalJSON methods", n, 5)
}

func containsStr(s, sub string) bool {
	for i := 0; i+len(sub) <= len(s); i++ {
		if s[i:i+len(sub)] == sub {
			return true
		}
	}
	return false
}

// ---------------------------------------------------------------- R-SORTUSED

// SortUsed: the fp sorting functions return a sorted copy; a call statement that drops the copy sorts nothing.
func SortUsed(c *core.Ctx, rule string, pkgs []*packages.Package) {
	c.Rule(rule, "no call statement discards the result of one of the module's Sort functions (seq.Sort, iterator.Sort, list.Sort, Seq.Sort…): they return a sorted copy and leave their argument in its original (for collections taken from a map or set: hash) order")
	n, bad := 0, 0
	for _, fb := range funcBodies(c, pkgs) {
		info := fb.Pkg.TypesInfo
		k := 0
		ast.Inspect(fb.Body, func(x ast.Node) bool {
			call, ok := x.(*ast.CallExpr)
			if !ok {
				return true
			}
			callee := calleeOf(info, call)
			if callee == nil || callee.Pkg() == nil || len(callee.Pkg().Path()) < len(core.ModPath) || callee.Pkg().Path()[:len(core.ModPath)] != core.ModPath {
				return true
			}
			if len(callee.Name()) < 4 || callee.Name()[:4] != "Sort" {
				return true
			}
			sig := callee.Type().(*types.Signature)
			if sig.Results().Len() == 0 {
				return true
			}
			n++
			k++
			_ = k
			return true
		})
		inspectShallow(fb.Body, func(x ast.Node) bool {
			es, ok := x.(*ast.ExprStmt)
			if !ok {
				return true
			}
			call, ok := ast.Unparen(es.X).(*ast.CallExpr)
			if !ok {
				return true
			}
			callee := calleeOf(info, call)
			if callee == nil || callee.Pkg() == nil || len(callee.Pkg().Path()) < len(core.ModPath) || callee.Pkg().Path()[:len(core.ModPath)] != core.ModPath {
				return true
			}
			if len(callee.Name()) < 4 || callee.Name()[:4] != "Sort" || callee.Type().(*types.Signature).Results().Len() == 0 {
				return true
			}
			bad++
			c.Add(rule, fb.Name+"/"+exprString(call.Fun)+"#"+itoa(bad), call.Pos(), core.Violated, "the sorted copy returned by `"+exprString(call)+"` is discarded: "+exprString(call.Args[0])+" keeps its original order")
			return true
		})
	}
	c.Add(rule, "scan", token.NoPos, core.Discharged, itoa(n)+" calls of value-returning Sort functions, "+itoa(bad)+" discard the result")
	c.Floor(rule, "calls of value-returning Sort functions", n, 10)
}

// ---------------------------------------------------------------- R-FOLDSTOP

// FoldStop: a fold over a cursor with a monadic step result consults the cursor again only after testing that result.
func FoldStop(c *core.Ctx, rule string, pkgs []*packages.Package, floor int) {
	c.Rule(rule, "in a function that folds a cursor (fp.Iterator / fp.List) with a user step function returning Try/Option/Either: every path from a step result `v = f(…)` to the next consultation of the cursor (HasNext/Next/Head/Tail…) passes a condition that examines v — after a failed step no further element is pulled and no call-back belonging to a later element runs")
	n := 0
	for _, fb := range funcBodies(c, pkgs) {
		if fb.Lit != nil || fb.Decl == nil {
			continue
		}
		info := fb.Pkg.TypesInfo
		// parameters: cursors and step functions
		cursors := map[types.Object]bool{}
		steps := map[types.Object]bool{}
		for _, f := range fb.Type.Params.List {
			for _, nm := range f.Names {
				o := info.Defs[nm]
				if o == nil {
					continue
				}
				if cursorKind(o.Type()) != "" {
					cursors[o] = true
				}
				if sig, ok := o.Type().Underlying().(*types.Signature); ok && sig.Results().Len() == 1 && monadKind(sig.Results().At(0).Type()) != "" {
					steps[o] = true
				}
			}
		}
		if fb.Decl.Recv != nil && len(fb.Decl.Recv.List) == 1 && len(fb.Decl.Recv.List[0].Names) == 1 {
			if o := info.Defs[fb.Decl.Recv.List[0].Names[0]]; o != nil && cursorKind(o.Type()) != "" {
				cursors[o] = true
			}
		}
		if len(cursors) == 0 || len(steps) == 0 {
			continue
		}
		// local aliases of cursors (cursor := list; cursor = cursor.Tail())
		ast.Inspect(fb.Body, func(x ast.Node) bool {
			if as, ok := x.(*ast.AssignStmt); ok && len(as.Lhs) == len(as.Rhs) {
				for i, l := range as.Lhs {
					if o := objOf(info, l); o != nil && cursorKind(o.Type()) != "" {
						if nodeContains(as.Rhs[i], true, func(y ast.Node) bool {
							id, ok := y.(*ast.Ident)
							return ok && cursors[info.Uses[id]]
						}) {
							cursors[o] = true
						}
					}
				}
			}
			return true
		})
		consults := func(nd ast.Node) bool {
			return nodeContains(nd, true, func(y ast.Node) bool {
				call, ok := y.(*ast.CallExpr)
				if !ok {
					return false
				}
				sel, ok := ast.Unparen(call.Fun).(*ast.SelectorExpr)
				return ok && cursors[objOf(info, sel.X)]
			})
		}
		g := newCFG(c, fb)
		k := 0
		for _, b := range g.Blocks {
			if !b.Live {
				continue
			}
			for i, nd := range b.Nodes {
				as, ok := nd.(*ast.AssignStmt)
				if !ok || len(as.Lhs) != len(as.Rhs) {
					continue
				}
				for j, r := range as.Rhs {
					call, ok := ast.Unparen(r).(*ast.CallExpr)
					if !ok || !steps[objOf(info, call.Fun)] {
						continue
					}
					v := objOf(info, as.Lhs[j])
					k++
					n++
					key := fb.Name + "/step#" + itoa(k)
					if v == nil {
						c.Add(rule, key, as.Pos(), core.Violated, "the step result of "+exprString(call)+" is not bound to a variable: it cannot be tested before the next element is pulled")
						continue
					}
					guard := func(x ast.Node) bool {
						return isCondNode(x) && nodeContains(x, true, func(y ast.Node) bool {
							id, ok := y.(*ast.Ident)
							return ok && info.Uses[id] == v
						})
					}
					if hit := unguardedReach(b, i, consults, guard); hit != nil {
						c.Add(rule, key, hit.Pos(), core.Violated, "after `"+nodeString(c, as)+"` the cursor is consulted again (`"+nodeString(c, hit)+"`) on a path that has not tested "+v.Name()+": when the step fails one more element is pulled (and the call-backs behind a lazy source run for it)")
					} else {
						c.Add(rule, key, as.Pos(), core.Discharged, "the next pull is behind a test of "+v.Name())
					}
				}
			}
		}
	}
	c.Floor(rule, "monadic fold steps over a cursor", n, floor)
}

// ---------------------------------------------------------------- R-FRESH

// CloneFresh: what a clone closure returns is allocated by that call.
func CloneFresh(c *core.Ctx, rule string, p *packages.Package, floor int) {
	c.Rule(rule, "a clone closure (func(T) T literal of package clone) never returns the address of, or a reference held in, a variable captured from the enclosing function: such a cell exists once per instance, so all clones made through the instance share it (the second Clone overwrites the first clone)")
	n := 0
	for _, fb := range funcBodies(c, []*packages.Package{p}) {
		if fb.Lit == nil {
			continue
		}
		info := fb.Pkg.TypesInfo
		tv, ok := info.Types[fb.Lit]
		if !ok {
			continue
		}
		sig, _ := tv.Type.Underlying().(*types.Signature)
		if sig == nil || sig.Params().Len() != 1 || sig.Results().Len() != 1 || !types.Identical(sig.Params().At(0).Type(), sig.Results().At(0).Type()) {
			continue
		}
		n++
		captured := func(o types.Object) bool {
			v, ok := o.(*types.Var)
			if !ok || v.Pkg() == nil || v.Parent() == v.Pkg().Scope() {
				return false
			}
			return v.Pos() < fb.Lit.Pos() || v.Pos() > fb.Lit.End()
		}
		var bad ast.Node
		why := ""
		// variables of the literal that alias a captured cell (q := &t)
		ast.Inspect(fb.Lit.Body, func(x ast.Node) bool {
			if bad != nil {
				return false
			}
			if inner, ok := x.(*ast.FuncLit); ok && inner != fb.Lit {
				return false
			}
			ret, ok := x.(*ast.ReturnStmt)
			if !ok {
				return true
			}
			for _, r := range ret.Results {
				r = ast.Unparen(r)
				if u, ok := r.(*ast.UnaryExpr); ok && u.Op == token.AND {
					if o := objOf(info, u.X); o != nil && captured(o) {
						bad, why = ret, "returns &"+o.Name()+", the address of a variable of the enclosing function"
					}
				}
				if o := objOf(info, r); o != nil && captured(o) && refLike(o.Type()) && !isTypeclassRecv(o.Type()) {
					bad, why = ret, "returns the captured reference "+o.Name()
				}
			}
			return true
		})
		if bad != nil {
			c.Add(rule, fb.Name, bad.Pos(), core.Violated, why+": every Clone call through this instance hands out the same storage, so clones are neither independent of one another nor stable")
		} else {
			c.Add(rule, fb.Name, fb.Lit.Pos(), core.Discharged, "results are built inside the call")
		}
	}
	c.Floor(rule, "clone closures", n, floor)
}

// ---------------------------------------------------------------- R-ITERMETA

// IterMeta: the closures of an fp.Iterator value and its cached decomposition belong together.
func IterMeta(c *core.Ctx, rule string, pkgs []*packages.Package, floor int) {
	c.Rule(rule, "fp.Iterator carries, next to its hasNext/next closures, cached data derived from them (the concat decomposition that a later Concat flattens through). A function that assigns a closure field of an Iterator value (x.next = …, x.hasNext = …) also assigns every non-closure field of the same value; otherwise the copy keeps describing the unpatched pipeline and a later Concat bypasses the patch. (Building through MakeIterator starts from empty cached data.)")
	// fields of fp.Iterator
	var closureFields, dataFields []string
	if tn, ok := c.Pkg("fp").Types.Scope().Lookup("Iterator").(*types.TypeName); ok {
		if st, ok := tn.Type().Underlying().(*types.Struct); ok {
			for i := 0; i < st.NumFields(); i++ {
				if _, isFn := st.Field(i).Type().Underlying().(*types.Signature); isFn {
					closureFields = append(closureFields, st.Field(i).Name())
				} else {
					dataFields = append(dataFields, st.Field(i).Name())
				}
			}
		}
	}
	isIn := func(xs []string, s string) bool {
		for _, x := range xs {
			if x == s {
				return true
			}
		}
		return false
	}
	n := 0
	for _, fb := range funcBodies(c, pkgs) {
		if fb.Lit != nil || fb.Decl == nil {
			continue
		}
		info := fb.Pkg.TypesInfo
		// Iterator-returning or Iterator-receiving functions are the universe
		relevant := false
		if fb.Type.Results != nil {
			for _, r := range fb.Type.Results.List {
				if tv, ok := info.Types[r.Type]; ok && isNamed(tv.Type, "fp", "Iterator") {
					relevant = true
				}
			}
		}
		if !relevant {
			continue
		}
		n++
		patched := map[types.Object]ast.Node{}
		dataSet := map[types.Object]map[string]bool{}
		ast.Inspect(fb.Body, func(x ast.Node) bool {
			as, ok := x.(*ast.AssignStmt)
			if !ok {
				return true
			}
			for _, l := range as.Lhs {
				sel, ok := ast.Unparen(l).(*ast.SelectorExpr)
				if !ok {
					continue
				}
				tv, ok := info.Types[sel.X]
				if !ok || !isNamed(tv.Type, "fp", "Iterator") {
					continue
				}
				o := objOf(info, sel.X)
				if o == nil {
					continue
				}
				if isIn(closureFields, sel.Sel.Name) {
					if patched[o] == nil {
						patched[o] = as
					}
				}
				if isIn(dataFields, sel.Sel.Name) {
					if dataSet[o] == nil {
						dataSet[o] = map[string]bool{}
					}
					dataSet[o][sel.Sel.Name] = true
				}
			}
			return true
		})
		bad := false
		for o, at := range patched {
			for _, f := range dataFields {
				if !dataSet[o][f] {
					bad = true
					c.Add(rule, fb.Name+"/"+o.Name(), at.Pos(), core.Violated, fb.Name+" replaces a closure of the Iterator value "+o.Name()+" but leaves its "+f+" field as copied: the result still carries the decomposition of the unpatched iterator, so a later Concat/Appended iterates the raw sources and the patch (e.g. the mapping) disappears")
				}
			}
		}
		if !bad {
			c.Add(rule, fb.Name, fb.Decl.Pos(), core.Discharged, "no closure field patched (or cached data re-established)")
		}
	}
	c.Table(rule+" fields", "closures: "+joinStrs(closureFields), "cached data: "+joinStrs(dataFields))
	c.Floor(rule, "Iterator-returning functions", n, floor)
}

func joinStrs(xs []string) string {
	s := ""
	for i, x := range xs {
		if i > 0 {
			s += ","
		}
		s += x
	}
	return s
}

// ---------------------------------------------------------------- R-TRICHOTOMY

// Trichotomy: a Compare built from a less function reports "greater" only after testing less(b, a).
func Trichotomy(c *core.Ctx, rule string, pkgs []*packages.Package, floor int) {
	c.Rule(rule, "in a compare closure func(a, b T) int that consults a typeclass less (inst.Less / a LessFunc value), every `return k` with a non-zero constant k is the body of an if whose condition is that less applied in the matching direction — less(a,b) for k<0, less(b,a) for k>0. A fall-through `return 1` after only less(a,b) (and an equality test) claims b<a without evidence: when the equality is finer than the order, Compare(a,b) and Compare(b,a) are both positive")
	n := 0
	for _, bc := range binClosures(c, pkgs) {
		if bc.res == nil {
			continue
		}
		if b, ok := bc.res.Underlying().(*types.Basic); !ok || b.Kind() != types.Int {
			continue
		}
		info := bc.fb.Pkg.TypesInfo
		usesLess := nodeContains(bc.fb.Body, false, func(x ast.Node) bool {
			call, ok := x.(*ast.CallExpr)
			if !ok {
				return false
			}
			inst, m := lessInst(info, call)
			return inst != "" && m == "Less"
		})
		if !usesLess {
			continue
		}
		roots := map[types.Object]bool{bc.a: true, bc.b: true}
		// parent if of each return
		type ctx struct {
			ret *ast.ReturnStmt
			in  *ast.IfStmt // the if whose body ends with ret (nil: fall-through / else branch)
		}
		var rets []ctx
		var walk func(list []ast.Stmt, parent *ast.IfStmt)
		walk = func(list []ast.Stmt, parent *ast.IfStmt) {
			for _, st := range list {
				switch s := st.(type) {
				case *ast.ReturnStmt:
					rets = append(rets, ctx{s, parent})
				case *ast.IfStmt:
					walk(s.Body.List, s)
					switch e := s.Else.(type) {
					case *ast.BlockStmt:
						walk(e.List, nil)
					case *ast.IfStmt:
						walk([]ast.Stmt{e}, nil)
					}
				case *ast.BlockStmt:
					walk(s.List, parent)
				case *ast.ForStmt:
					walk(s.Body.List, nil)
				case *ast.RangeStmt:
					walk(s.Body.List, nil)
				case *ast.SwitchStmt:
					// a tagless switch is an if-chain: `case less(a, b): return -1`
					if s.Tag == nil && s.Init == nil {
						for _, cl := range s.Body.List {
							cc := cl.(*ast.CaseClause)
							if len(cc.List) == 1 {
								walk(cc.Body, &ast.IfStmt{Cond: cc.List[0], Body: &ast.BlockStmt{List: cc.Body}})
							} else {
								walk(cc.Body, nil)
							}
						}
					}
				}
			}
		}
		walk(bc.fb.Body.List, nil)
		k := 0
		for _, r := range rets {
			if len(r.ret.Results) != 1 {
				continue
			}
			tv, ok := info.Types[r.ret.Results[0]]
			if !ok || tv.Value == nil {
				continue
			}
			sign := constSign(tv.Value)
			if sign == 0 {
				continue
			}
			k++
			n++
			key := bc.fb.Name + "/return#" + itoa(k)
			if r.in == nil {
				c.Add(rule, key, r.ret.Pos(), core.Violated, "`return "+exprString(r.ret.Results[0])+"` is reached by falling through (no test of the less function in that direction): the closure reports an order it has not established — with an equality finer than the order, Compare(a,b) = Compare(b,a) = "+exprString(r.ret.Results[0]))
				continue
			}
			call, ok := ast.Unparen(r.in.Cond).(*ast.CallExpr)
			if !ok {
				c.Add(rule, key, r.ret.Pos(), core.Skipped, "condition form not analysed: "+exprString(r.in.Cond))
				continue
			}
			inst, m := lessInst(info, call)
			if inst == "" || m != "Less" {
				c.Add(rule, key, r.ret.Pos(), core.Skipped, "condition is not a less test: "+exprString(r.in.Cond))
				continue
			}
			r1, _ := accessorPath(info, call.Args[0], roots)
			r2, _ := accessorPath(info, call.Args[1], roots)
			if r1 == nil || r2 == nil || r1 == r2 {
				c.Add(rule, key, r.ret.Pos(), core.Skipped, "arguments are not the two operands: "+exprString(call))
				continue
			}
			forward := r1 == bc.a
			// the closure of an order-reversing combinator (Reversed / Reverse) reports the mirrored sign on purpose
			if bc.fb.Decl != nil && (bc.fb.Decl.Name.Name == "Reversed" || bc.fb.Decl.Name.Name == "Reverse") {
				forward = !forward
			}
			if (sign < 0) == forward {
				c.Add(rule, key, r.ret.Pos(), core.Discharged, "guarded by "+exprString(call))
			} else {
				c.Add(rule, key, r.ret.Pos(), core.Violated, "`return "+exprString(r.ret.Results[0])+"` under `"+exprString(call)+"`: the sign contradicts the direction that was tested")
			}
		}
	}
	c.Floor(rule, "non-zero constant returns of less-based compare closures", n, floor)
}

func constSign(v interface{ String() string }) int {
	s := v.String()
	if s == "0" {
		return 0
	}
	if len(s) > 0 && s[0] == '-' {
		return -1
	}
	for _, ch := range s {
		if ch < '0' || ch > '9' {
			return 0
		}
	}
	return 1
}

// ---------------------------------------------------------------- R-SETCTX

// WrapperCtx: results of a wrapper's methods keep the wrapper's factory (the hasher context of fp.Set).
func WrapperCtx(c *core.Ctx, rule string, p *packages.Package, floor int) {
	c.Rule(rule, "in every function or method of the root package that takes an fp.Set (receiver or parameter) and returns an fp.Set, each composite literal of the wrapper type sets its function-typed factory field (getEmpty: the source of the empty collection with the user's Hashable) from one of those Set operands: a result built as Set{} falls back to the built-in == on Go maps for every later insertion, so it no longer agrees with the reference under a hasher whose Eqv is coarser than ==")
	info := p.TypesInfo
	n := 0
	isWrapper := func(t types.Type) *types.Named {
		if pt, ok := t.(*types.Pointer); ok {
			t = pt.Elem()
		}
		rn := namedOf(t)
		if rn == nil || rn.Obj().Pkg() != p.Types || (rn.Obj().Name() != "Set" && rn.Obj().Name() != "Map") {
			return nil
		}
		return rn
	}
	for _, fb := range funcBodies(c, []*packages.Package{p}) {
		if fb.Lit != nil || fb.Decl == nil {
			continue
		}
		// wrapper-typed operands
		var rn *types.Named
		operands := map[types.Object]bool{}
		if fb.Decl.Recv != nil && len(fb.Decl.Recv.List) == 1 && len(fb.Decl.Recv.List[0].Names) == 1 {
			if o := info.Defs[fb.Decl.Recv.List[0].Names[0]]; o != nil {
				if w := isWrapper(o.Type()); w != nil {
					rn = w
					operands[o] = true
				}
			}
		}
		for _, f := range fb.Type.Params.List {
			for _, nm := range f.Names {
				if o := info.Defs[nm]; o != nil {
					if w := isWrapper(o.Type()); w != nil && (rn == nil || w.Obj() == rn.Obj()) {
						rn = w
						operands[o] = true
					}
				}
			}
		}
		if rn == nil {
			continue
		}
		st, ok := rn.Underlying().(*types.Struct)
		if !ok {
			continue
		}
		var factory []string
		for i := 0; i < st.NumFields(); i++ {
			if _, isFn := st.Field(i).Type().Underlying().(*types.Signature); isFn {
				factory = append(factory, st.Field(i).Name())
			}
		}
		if len(factory) == 0 {
			continue
		}
		returnsW := false
		if fb.Type.Results != nil {
			for _, r := range fb.Type.Results.List {
				if tv, ok := info.Types[r.Type]; ok {
					if n2 := namedOf(tv.Type); n2 != nil && n2.Obj() == rn.Obj() {
						returnsW = true
					}
				}
			}
		}
		if !returnsW {
			continue
		}
		k := 0
		ast.Inspect(fb.Body, func(x ast.Node) bool {
			cl, ok := x.(*ast.CompositeLit)
			if !ok {
				return true
			}
			tv, ok := info.Types[cl]
			if !ok {
				return true
			}
			if n2 := namedOf(tv.Type); n2 == nil || n2.Obj() != rn.Obj() {
				return true
			}
			k++
			n++
			key := fb.Name + "/literal#" + itoa(k)
			for _, f := range factory {
				set := false
				positional := len(cl.Elts) == st.NumFields()
				for _, e := range cl.Elts {
					kv, ok := e.(*ast.KeyValueExpr)
					if !ok {
						continue
					}
					positional = false
					if id, ok := kv.Key.(*ast.Ident); ok && id.Name == f {
						if sel, ok := ast.Unparen(kv.Value).(*ast.SelectorExpr); ok && sel.Sel.Name == f && operands[objOf(info, sel.X)] {
							set = true
						}
					}
				}
				if positional {
					set = true // all fields given positionally (constructor-style)
				}
				if !set {
					c.Add(rule, key, cl.Pos(), core.Violated, exprString(cl)+" does not carry the "+f+" of a Set operand: the result forgets the Hashable it was built with, and elements added to it later are compared with == instead")
					return true
				}
			}
			c.Add(rule, key, cl.Pos(), core.Discharged, "factory field taken from a Set operand")
			return true
		})
	}
	c.Floor(rule, "wrapper literals in wrapper-returning functions", n, floor)
}

// ---------------------------------------------------------------- R-PAYLOAD

// Payload: the first result of Option/Try.Unapply is meaningful only where the second says so.
func Payload(c *core.Ctx, rule string, pkgs []*packages.Package, scope map[*packages.Package]bool, floor int) {
	c.Rule(rule, "after `v, ok := x.Unapply()` on an fp.Option (ok bool) or fp.Try (err error), v is used only on paths that passed the success edge of a test of ok/err (if ok, if !ok {return}, err == nil, operands of && / || in evaluation order), or in a statement that hands ok/err on together with v: elsewhere v is the zero value standing in for an absent payload")
	n := 0
	for _, fb := range funcBodies(c, pkgs) {
		info := fb.Pkg.TypesInfo
		var g *cfg.CFG
		k := 0
		ast.Inspect(fb.Body, func(x ast.Node) bool {
			if fl, ok := x.(*ast.FuncLit); ok && fl.Body != fb.Body {
				return false // literals are their own fnBody
			}
			as, ok := x.(*ast.AssignStmt)
			if !ok || len(as.Lhs) != 2 || len(as.Rhs) != 1 {
				return true
			}
			call, ok := ast.Unparen(as.Rhs[0]).(*ast.CallExpr)
			if !ok || len(call.Args) != 0 {
				return true
			}
			sel, ok := ast.Unparen(call.Fun).(*ast.SelectorExpr)
			if !ok || sel.Sel.Name != "Unapply" {
				return true
			}
			rtv, ok := info.Types[sel.X]
			if !ok || !(isNamed(rtv.Type, "fp", "Option") || isNamed(rtv.Type, "fp", "Try")) {
				return true
			}
			v, flag := objOf(info, as.Lhs[0]), objOf(info, as.Lhs[1])
			if v == nil {
				return true // payload discarded
			}
			k++
			n++
			key := fb.Name + "/unapply#" + itoa(k) + ":" + v.Name()
			if flag == nil {
				c.Add(rule, key, as.Pos(), core.Violated, "the payload "+v.Name()+" of "+exprString(call)+" is kept but the presence flag is discarded: every use of "+v.Name()+" may see the zero value of an absent payload")
				return true
			}
			isErr := !types.Identical(flag.Type(), types.Typ[types.Bool])
			// implies(e, edge): does taking `edge` of condition e establish success?
			var implies func(e ast.Expr, edge bool) bool
			implies = func(e ast.Expr, edge bool) bool {
				e = ast.Unparen(e)
				switch t := e.(type) {
				case *ast.Ident:
					return !isErr && info.Uses[t] == flag && edge
				case *ast.UnaryExpr:
					if t.Op == token.NOT {
						return implies(t.X, !edge)
					}
				case *ast.BinaryExpr:
					switch t.Op {
					case token.LAND:
						return edge && (implies(t.X, true) || implies(t.Y, true))
					case token.LOR:
						return !edge && (implies(t.X, false) || implies(t.Y, false))
					case token.EQL, token.NEQ:
						if isErr {
							a, b := ast.Unparen(t.X), ast.Unparen(t.Y)
							if isNilIdent(info, a) {
								a, b = b, a
							}
							if isNilIdent(info, b) && objOf(info, a) == flag {
								return (t.Op == token.EQL) == edge
							}
						}
					}
				}
				return false
			}
			mentions := func(nd ast.Node, o types.Object) bool {
				return nodeContains(nd, true, func(y ast.Node) bool {
					id, ok := y.(*ast.Ident)
					return ok && info.Uses[id] == o
				})
			}
			// unsafeUse(e, est): is v used in e at a point where success is not established?
			var unsafeUse func(e ast.Expr, est bool) bool
			unsafeUse = func(e ast.Expr, est bool) bool {
				e = ast.Unparen(e)
				if be, ok := e.(*ast.BinaryExpr); ok && (be.Op == token.LAND || be.Op == token.LOR) {
					if unsafeUse(be.X, est) {
						return true
					}
					if be.Op == token.LAND {
						return unsafeUse(be.Y, est || implies(be.X, true))
					}
					return unsafeUse(be.Y, est || implies(be.X, false))
				}
				return !est && mentions(e, v)
			}
			if g == nil {
				g = newCFG(c, fb)
			}
			// locate the assignment in the CFG
			var sb *cfg.Block
			si := -1
			for _, b := range g.Blocks {
				for i, nd := range b.Nodes {
					if nd == ast.Node(as) {
						sb, si = b, i
					}
				}
			}
			if sb == nil {
				c.Add(rule, key, as.Pos(), core.Skipped, "assignment not a CFG node of its own (if/switch initialiser): not analysed")
				return true
			}
			var bad ast.Node
			seen := map[*cfg.Block]bool{}
			var scan func(b *cfg.Block, from int)
			scan = func(b *cfg.Block, from int) {
				if bad != nil {
					return
				}
				for i := from; i < len(b.Nodes); i++ {
					nd := b.Nodes[i]
					if nd == ast.Node(as) {
						return // re-assignment (loop): a new pair
					}
					isLastCond := i == len(b.Nodes)-1 && len(b.Succs) == 2
					if e, ok := nd.(ast.Expr); ok && isLastCond {
						if unsafeUse(e, false) {
							bad = nd
							return
						}
						continue
					}
					if mentions(nd, v) {
						// handing the flag on together with the payload is fine (return v, ok / f(v, ok) / Tuple(v, err))
						if mentions(nd, flag) {
							continue
						}
						bad = nd
						return
					}
				}
				var cond ast.Expr
				if len(b.Succs) == 2 && len(b.Nodes) > 0 {
					cond, _ = b.Nodes[len(b.Nodes)-1].(ast.Expr)
				}
				for si2, s := range b.Succs {
					if cond != nil && implies(cond, si2 == 0) {
						continue // success established beyond this edge
					}
					if !seen[s] {
						seen[s] = true
						scan(s, 0)
					}
				}
			}
			scan(sb, si+1)
			if bad != nil && !scope[fb.Pkg] {
				c.Add(rule, key, bad.Pos(), core.Skipped, "outside the packages of this property (analysed to keep the rule exercised): `"+nodeString(c, bad)+"` uses "+v.Name()+" without a test of "+flag.Name())
			} else if bad != nil {
				c.Add(rule, key, bad.Pos(), core.Violated, "`"+nodeString(c, bad)+"` uses "+v.Name()+" although "+flag.Name()+" has not been tested on this path: when "+exprString(sel.X)+" is empty/failed, "+v.Name()+" is the zero value and is treated as a real payload")
			} else {
				c.Add(rule, key, as.Pos(), core.Discharged, "payload used only behind the success edge (or handed on with its flag)")
			}
			return true
		})
	}
	c.Floor(rule, "Unapply pairs", n, floor)
}

// ---------------------------------------------------------------- R-CACHEGUARD

// CacheGuard: a filtering look-ahead caches an element only after the predicate has judged it.
func CacheGuard(c *core.Ctx, rule string, pkgs []*packages.Package, floor int) {
	c.Rule(rule, "in a function with a predicate parameter p func(T) bool that builds an iterator: inside its literals, an element pulled from the source (x.Next()) is stored into a captured look-ahead variable only at points reached through a condition that calls p — a look-ahead cell never holds an element the predicate has not judged (otherwise a repeated HasNext, or Next after the end, delivers the rejected element)")
	n := 0
	for _, fb := range funcBodies(c, pkgs) {
		if fb.Lit == nil || fb.Decl == nil {
			continue
		}
		info := fb.Pkg.TypesInfo
		// predicate parameters of the enclosing declaration
		preds := map[types.Object]bool{}
		for _, f := range fb.Decl.Type.Params.List {
			for _, nm := range f.Names {
				if o := info.Defs[nm]; o != nil {
					if sig, ok := o.Type().Underlying().(*types.Signature); ok && sig.Params().Len() == 1 && sig.Results().Len() == 1 && types.Identical(sig.Results().At(0).Type(), types.Typ[types.Bool]) {
						preds[o] = true
					}
				}
			}
		}
		if len(preds) == 0 {
			continue
		}
		callsPred := func(nd ast.Node) bool {
			return nodeContains(nd, true, func(y ast.Node) bool {
				call, ok := y.(*ast.CallExpr)
				return ok && preds[objOf(info, call.Fun)]
			})
		}
		if !callsPred(fb.Lit.Body) {
			continue
		}
		// variables holding the predicate's verdict (ok := p(v))
		verdict := map[types.Object]bool{}
		ast.Inspect(fb.Lit.Body, func(x ast.Node) bool {
			if as, ok := x.(*ast.AssignStmt); ok && len(as.Lhs) == len(as.Rhs) {
				for i, r := range as.Rhs {
					if callsPred(r) {
						if o := objOf(info, as.Lhs[i]); o != nil {
							verdict[o] = true
						}
					}
				}
			}
			return true
		})
		judged := func(nd ast.Node) bool {
			return callsPred(nd) || nodeContains(nd, true, func(y ast.Node) bool {
				id, ok := y.(*ast.Ident)
				return ok && verdict[info.Uses[id]]
			})
		}
		isPull := func(nd ast.Node) bool {
			return nodeContains(nd, true, func(y ast.Node) bool {
				call, ok := y.(*ast.CallExpr)
				if !ok || len(call.Args) != 0 {
					return false
				}
				sel, ok := ast.Unparen(call.Fun).(*ast.SelectorExpr)
				if !ok || sel.Sel.Name != "Next" {
					return false
				}
				tv, ok := info.Types[sel.X]
				return ok && cursorKind(tv.Type) != ""
			})
		}
		// locals holding a pulled element
		pulled := map[types.Object]bool{}
		ast.Inspect(fb.Lit.Body, func(x ast.Node) bool {
			if as, ok := x.(*ast.AssignStmt); ok && len(as.Lhs) == len(as.Rhs) {
				for i, r := range as.Rhs {
					if isPull(r) {
						if o := objOf(info, as.Lhs[i]); o != nil && o.Pos() >= fb.Lit.Pos() && o.Pos() <= fb.Lit.End() {
							pulled[o] = true
						}
					}
				}
			}
			return true
		})
		carries := func(e ast.Expr) bool {
			return isPull(e) || nodeContains(e, true, func(y ast.Node) bool {
				id, ok := y.(*ast.Ident)
				return ok && pulled[info.Uses[id]]
			})
		}
		g := newCFG(c, fb)
		k := 0
		for _, b := range g.Blocks {
			for _, nd := range b.Nodes {
				as, ok := nd.(*ast.AssignStmt)
				if !ok || len(as.Lhs) != len(as.Rhs) {
					continue
				}
				for i, l := range as.Lhs {
					o, ok := objOf(info, l).(*types.Var)
					if !ok || (o.Pos() >= fb.Lit.Pos() && o.Pos() <= fb.Lit.End()) || !carries(as.Rhs[i]) {
						continue
					}
					k++
					n++
					key := fb.Name + "/cache#" + itoa(k) + ":" + o.Name()
					target := func(x ast.Node) bool { return x == ast.Node(as) }
					guard := func(x ast.Node) bool { return isCondNode(x) && judged(x) }
					if len(g.Blocks) > 0 && unguardedReach(g.Blocks[0], -1, target, guard) != nil {
						c.Add(rule, key, as.Pos(), core.Violated, "`"+nodeString(c, as)+"` stores a pulled element into the look-ahead variable "+o.Name()+" on a path that has not consulted the predicate: a rejected element stays cached, so HasNext answers true again after false and Next hands the rejected element out")
					} else {
						c.Add(rule, key, as.Pos(), core.Discharged, "cached only after the predicate judged the element")
					}
				}
			}
		}
	}
	c.Floor(rule, "look-ahead stores in predicate-driven iterators", n, floor)
}

// ---------------------------------------------------------------- R-SIBLING

// Sibling: the members of one generated arity family are instances of one template.
//
// For every family (functions F<N>, or methods M of receiver types R<N>) the *call signature* of a member — the set of
// callees it uses, with arity digits removed, plus whether it invokes a function-typed parameter directly — must agree
// with the majority of the family (families of at least four members; the two smallest arities and the largest may be
// special-cased by the template and are exempt). A deviant member was edited by hand or generated from a different text.
func Sibling(c *core.Ctx, rule string, pkgs []*packages.Package, floor int) {
	c.Rule(rule, "within one generated arity family (functions Name<N>, or method M of the receiver types Recv<N>) every member other than the two smallest arities and the largest uses the same set of callees — names with the arity digits removed — and agrees on whether it invokes a function-typed parameter itself; a member that deviates from the majority of a family of four or more does not compute the family's defining equation at its arity")
	strip := func(s string) string {
		out := make([]byte, 0, len(s))
		for i := 0; i < len(s); i++ {
			if s[i] < '0' || s[i] > '9' {
				out = append(out, s[i])
			}
		}
		return string(out)
	}
	type member struct {
		fb    *fnBody
		arity int
		sig   string
	}
	fam := map[string][]member{}
	for _, fb := range funcBodies(c, pkgs) {
		if fb.Lit != nil || fb.Decl == nil {
			continue
		}
		info := fb.Pkg.TypesInfo
		name := fb.Decl.Name.Name
		famKey := ""
		arity := 0
		if fb.Decl.Recv != nil && len(fb.Decl.Recv.List) == 1 {
			rn := core.RecvTypeName(fb.Decl.Recv.List[0].Type)
			if m := famRe.FindStringSubmatch(rn); m != nil {
				famKey = fb.Pkg.PkgPath + "." + m[1] + "#." + name
				arity = atoiSafe(m[2])
			}
		} else if m := famRe.FindStringSubmatch(name); m != nil {
			famKey = fb.Pkg.PkgPath + "." + m[1] + "#"
			arity = atoiSafe(m[2])
		}
		if famKey == "" {
			continue
		}
		params := map[types.Object]bool{}
		for _, f := range fb.Type.Params.List {
			for _, nm := range f.Names {
				if o := info.Defs[nm]; o != nil {
					if _, isFn := o.Type().Underlying().(*types.Signature); isFn {
						params[o] = true
					}
				}
			}
		}
		set := map[string]bool{}
		ast.Inspect(fb.Body, func(x ast.Node) bool {
			call, ok := x.(*ast.CallExpr)
			if !ok {
				return true
			}
			if callee := calleeOf(info, call); callee != nil {
				pk := ""
				if callee.Pkg() != nil {
					pk = callee.Pkg().Name() + "."
				}
				set[pk+strip(callee.Name())] = true
			} else if params[objOf(info, call.Fun)] {
				set["<invokes a function parameter>"] = true
			}
			return true
		})
		var names []string
		for s := range set {
			names = append(names, s)
		}
		sortStrings(names)
		fam[famKey] = append(fam[famKey], member{fb, arity, joinStrs(names)})
	}
	n := 0
	var keys []string
	for k := range fam {
		keys = append(keys, k)
	}
	sortStrings(keys)
	for _, k := range keys {
		ms := fam[k]
		if len(ms) < 4 {
			continue
		}
		lo, hi := ms[0].arity, ms[0].arity
		cnt := map[string]int{}
		for _, m := range ms {
			if m.arity < lo {
				lo = m.arity
			}
			if m.arity > hi {
				hi = m.arity
			}
			cnt[m.sig]++
		}
		best, bestN := "", 0
		for s, k2 := range cnt {
			if k2 > bestN || (k2 == bestN && s < best) {
				best, bestN = s, k2
			}
		}
		if bestN*2 <= len(ms) {
			continue // no clear majority: the family's bodies legitimately depend on the arity
		}
		for _, m := range ms {
			if m.arity <= lo+1 || m.arity == hi {
				continue // templates special-case their first arities (Method1/Method2 are written out) and sometimes the last
			}
			n++
			if m.sig != best {
				c.Add(rule, m.fb.Name, m.fb.Decl.Pos(), core.Violated, m.fb.Name+" uses {"+m.sig+"} where "+itoa(bestN)+" of the "+itoa(len(ms))+" members of its family use {"+best+"}: this arity is not an instance of the family's template")
			} else {
				c.Add(rule, m.fb.Name, m.fb.Decl.Pos(), core.Discharged, "same callees as the family")
			}
		}
	}
	c.Floor(rule, "family members compared", n, floor)
}

func atoiSafe(s string) int {
	v := 0
	for i := 0; i < len(s); i++ {
		v = v*10 + int(s[i]-'0')
	}
	return v
}

func sortStrings(xs []string) {
	for i := 1; i < len(xs); i++ {
		for j := i; j > 0 && xs[j] < xs[j-1]; j-- {
			xs[j], xs[j-1] = xs[j-1], xs[j]
		}
	}
}

// ---------------------------------------------------------------- R-COPIES

// TemplateCopies: the monad packages' generated combinator files are copies of one template.
//
// monad_gen writes the same derived combinators (Map, Flatten, Ap, Map2, Zip, LiftA*, Flap*, Method*, Compose*, …;
// Traverse*, Sequence*, FoldM-based helpers) into every monad package. A function of that name in one package must use
// the same callees as its namesakes — own-package callees compared by name — or it no longer is the definition in terms
// of FlatMap and the unit that the other instances have.
func TemplateCopies(c *core.Ctx, rule string, pkgs []*packages.Package, floor int) {
	c.Rule(rule, "a function in a generated file (*_monad.go, *_traverse.go, …) of a monad package uses the same set of callees as the functions of the same name in the generated files of the other monad packages (callees of the package itself compared by name, arity digits kept): the derived combinators are copies of one template, so a copy that deviates from the majority of at least three is not the definition in terms of FlatMap and the unit")
	type member struct {
		fb  *fnBody
		sig string
	}
	byName := map[string][]member{}
	for _, fb := range funcBodies(c, pkgs) {
		if fb.Lit != nil || fb.Decl == nil || fb.Decl.Recv != nil || !isGenerated(fb.File) {
			continue
		}
		info := fb.Pkg.TypesInfo
		set := map[string]bool{}
		params := map[types.Object]bool{}
		for _, f := range fb.Type.Params.List {
			for _, nm := range f.Names {
				if o := info.Defs[nm]; o != nil {
					if _, isFn := o.Type().Underlying().(*types.Signature); isFn {
						params[o] = true
					}
				}
			}
		}
		ast.Inspect(fb.Body, func(x ast.Node) bool {
			call, ok := x.(*ast.CallExpr)
			if !ok {
				return true
			}
			if callee := calleeOf(info, call); callee != nil {
				pk := ""
				if callee.Pkg() != nil && callee.Pkg() != fb.Pkg.Types {
					pk = callee.Pkg().Name() + "."
				} else if callee.Pkg() != nil {
					pk = "M."
				}
				recv := ""
				if sig, ok := callee.Type().(*types.Signature); ok && sig.Recv() != nil {
					if rn := namedOf(sig.Recv().Type()); rn != nil {
						recv = rn.Obj().Name() + "."
						if rn.Obj().Pkg() == fb.Pkg.Types {
							pk = "M."
						}
					}
				}
				set[pk+recv+callee.Name()] = true
			} else if params[objOf(info, call.Fun)] {
				set["<invokes a function parameter>"] = true
			}
			return true
		})
		var names []string
		for s := range set {
			names = append(names, s)
		}
		sortStrings(names)
		byName[fb.Decl.Name.Name] = append(byName[fb.Decl.Name.Name], member{fb, joinStrs(names)})
	}
	var keys []string
	for k := range byName {
		keys = append(keys, k)
	}
	sortStrings(keys)
	n := 0
	for _, k := range keys {
		ms := byName[k]
		if len(ms) < 3 {
			continue
		}
		cnt := map[string]int{}
		for _, m := range ms {
			cnt[m.sig]++
		}
		best, bestN := "", 0
		for s, k2 := range cnt {
			if k2 > bestN || (k2 == bestN && s < best) {
				best, bestN = s, k2
			}
		}
		if bestN*2 <= len(ms) || bestN < 3 {
			continue
		}
		for _, m := range ms {
			n++
			if m.sig != best {
				c.Add(rule, m.fb.Name, m.fb.Decl.Pos(), core.Violated, m.fb.Name+" uses {"+m.sig+"} where "+itoa(bestN)+" of its "+itoa(len(ms))+" namesakes in the other monad packages use {"+best+"}: this copy is no longer the template's definition")
			} else {
				c.Add(rule, m.fb.Name, m.fb.Decl.Pos(), core.Discharged, "same callees as its namesakes")
			}
		}
	}
	c.Floor(rule, "generated namesakes compared", n, floor)
}

// ---------------------------------------------------------------- R-FUTSTOP

// FutStop: a later Future operand is subscribed to only after the earlier one is known to have succeeded.
func FutStop(c *core.Ctx, rule string, pkgs []*packages.Package, floor int) {
	c.Rule(rule, "inside the OnComplete callback func(t fp.Try[_]) of one Future operand, a subscription to another Future operand of the same combinator is reachable only through a condition that examines t: when the earlier operand has failed the result is decided and must not wait for the later one (left-to-right short-circuit, completes as soon as the sources it depends on are complete)")
	n := 0
	for _, fb := range funcBodies(c, pkgs) {
		if fb.Lit == nil || fb.Decl == nil {
			continue
		}
		info := fb.Pkg.TypesInfo
		// the literal is an OnComplete-style callback: one parameter of type fp.Try
		if len(fb.Lit.Type.Params.List) != 1 || len(fb.Lit.Type.Params.List[0].Names) != 1 {
			continue
		}
		t := info.Defs[fb.Lit.Type.Params.List[0].Names[0]]
		if t == nil || !isNamed(t.Type(), "fp", "Try") {
			continue
		}
		// Future operands of the enclosing declaration
		ops := map[types.Object]bool{}
		if fb.Decl.Recv != nil && len(fb.Decl.Recv.List) == 1 && len(fb.Decl.Recv.List[0].Names) == 1 {
			if o := info.Defs[fb.Decl.Recv.List[0].Names[0]]; o != nil && isFutureType(o.Type()) {
				ops[o] = true
			}
		}
		for _, f := range fb.Decl.Type.Params.List {
			for _, nm := range f.Names {
				if o := info.Defs[nm]; o != nil && isFutureType(o.Type()) {
					ops[o] = true
				}
			}
		}
		if len(ops) < 2 {
			continue
		}
		g := newCFG(c, fb)
		k := 0
		isSub := func(nd ast.Node) (types.Object, bool) {
			var hit types.Object
			nodeContains(nd, false, func(y ast.Node) bool {
				call, ok := y.(*ast.CallExpr)
				if !ok {
					return false
				}
				if sel, ok := ast.Unparen(call.Fun).(*ast.SelectorExpr); ok {
					if o := objOf(info, sel.X); o != nil && ops[o] {
						hit = o
						return true
					}
				}
				if len(call.Args) > 0 {
					if o := objOf(info, call.Args[0]); o != nil && ops[o] {
						hit = o
						return true
					}
				}
				return false
			})
			return hit, hit != nil
		}
		for _, b := range g.Blocks {
			for _, nd := range b.Nodes {
				o, ok := isSub(nd)
				if !ok {
					continue
				}
				k++
				n++
				key := fb.Name + "/sub#" + itoa(k) + ":" + o.Name()
				target := func(x ast.Node) bool { return x == nd }
				guard := func(x ast.Node) bool {
					return isCondNode(x) && nodeContains(x, true, func(y ast.Node) bool {
						id, ok := y.(*ast.Ident)
						return ok && info.Uses[id] == t
					})
				}
				if len(g.Blocks) > 0 && unguardedReach(g.Blocks[0], -1, target, guard) != nil {
					c.Add(rule, key, nd.Pos(), core.Violated, "the callback subscribes to "+o.Name()+" without first examining "+t.Name()+": when the earlier operand has failed the derived future still waits for "+o.Name()+" — and never completes if "+o.Name()+" never does")
				} else {
					c.Add(rule, key, nd.Pos(), core.Discharged, "subscribed to only after "+t.Name()+" was examined")
				}
			}
		}
	}
	c.Floor(rule, "subscriptions to another operand inside a completion callback", n, floor)
}

// ---------------------------------------------------------------- R-RAWFIELD

// RawField: the closures of an fp.Iterator value are called through its nil-safe methods.
func RawField(c *core.Ctx, rule string, p *packages.Package, floor int) {
	c.Rule(rule, "a closure field of fp.Iterator (hasNext, next) is called directly only on the method's own receiver (where R-NILGUARD decides whether the nil test dominates) or under an explicit nil test of that field; on any other Iterator value — an element of the concat list, a parameter, a copy — the nil-safe methods HasNext/Next are used, because that value may be the zero Iterator")
	info := p.TypesInfo
	n := 0
	for _, fb := range funcBodies(c, []*packages.Package{p}) {
		var recv types.Object
		if fb.Decl != nil && fb.Decl.Recv != nil && len(fb.Decl.Recv.List) == 1 && len(fb.Decl.Recv.List[0].Names) == 1 {
			recv = info.Defs[fb.Decl.Recv.List[0].Names[0]]
		}
		parent := map[ast.Node]ast.Node{}
		var stack []ast.Node
		ast.Inspect(fb.Body, func(x ast.Node) bool {
			if x == nil {
				stack = stack[:len(stack)-1]
				return false
			}
			if len(stack) > 0 {
				parent[x] = stack[len(stack)-1]
			}
			stack = append(stack, x)
			return true
		})
		k := 0
		inspectShallow(fb.Body, func(x ast.Node) bool {
			call, ok := x.(*ast.CallExpr)
			if !ok {
				return true
			}
			sel, ok := ast.Unparen(call.Fun).(*ast.SelectorExpr)
			if !ok {
				return true
			}
			s := info.Selections[sel]
			if s == nil || s.Kind() != types.FieldVal {
				return true
			}
			if _, isFn := s.Type().Underlying().(*types.Signature); !isFn {
				return true
			}
			tv, ok := info.Types[sel.X]
			if !ok || !isNamed(tv.Type, "fp", "Iterator") {
				return true
			}
			k++
			n++
			key := fb.Name + "/" + exprString(call.Fun) + "#" + itoa(k)
			if o := objOf(info, sel.X); o != nil && o == recv {
				c.Add(rule, key, call.Pos(), core.Discharged, "on the receiver (decided by R-NILGUARD)")
				return true
			}
			// explicit nil test of the same field expression in an enclosing condition
			guarded := false
			want := exprString(sel)
			for q := parent[ast.Node(call)]; q != nil; q = parent[q] {
				if is, ok := q.(*ast.IfStmt); ok && nodeContains(is.Cond, true, func(y ast.Node) bool {
					be, ok := y.(*ast.BinaryExpr)
					return ok && be.Op == token.NEQ && ((exprString(be.X) == want && isNilIdent(info, be.Y)) || (exprString(be.Y) == want && isNilIdent(info, be.X)))
				}) {
					guarded = true
				}
			}
			if guarded {
				c.Add(rule, key, call.Pos(), core.Discharged, "under an explicit nil test of the field")
			} else {
				c.Add(rule, key, call.Pos(), core.Violated, exprString(call)+" calls the closure field of an Iterator value that is not the receiver, without a nil test: when that value is the zero Iterator (an empty `var it fp.Iterator[T]`, e.g. flattened in from another Concat) this is a nil-function call instead of 'empty'")
			}
			return true
		})
	}
	c.Floor(rule, "direct calls of Iterator closure fields", n, floor)
}

// ---------------------------------------------------------------- R-NOSHAREDCELL

// NoSharedCell: an Eval value carries no mutable cell that its evaluations share.
func NoSharedCell(c *core.Ctx, rule string, p *packages.Package, floor int) {
	c.Rule(rule, "in package lazy, a function literal assigns to a variable captured from the enclosing function only inside the literal handed to (*sync.Once).Do (the memoiser's result cell, written once): any other captured cell is allocated once per Eval value and written by every evaluation of it, so overlapping evaluations (concurrent Get, or re-entrant Resume) read each other's intermediate values")
	info := p.TypesInfo
	n := 0
	for _, fb := range funcBodies(c, []*packages.Package{p}) {
		if fb.Lit != nil || fb.Decl == nil {
			continue
		}
		n++
		// literals handed to once.Do
		onceLits := map[*ast.FuncLit]bool{}
		ast.Inspect(fb.Body, func(x ast.Node) bool {
			if call, ok := x.(*ast.CallExpr); ok {
				if callee := calleeOf(info, call); callee != nil && callee.Pkg() != nil && callee.Pkg().Path() == "sync" && callee.Name() == "Do" {
					for _, a := range call.Args {
						if fl, ok := ast.Unparen(a).(*ast.FuncLit); ok {
							onceLits[fl] = true
						} else if fl := resolveLit(info, fb.Decl, a); fl != nil {
							onceLits[fl] = true // once.Do(compute) with compute := func() { … }
						}
					}
				}
			}
			return true
		})
		var bad ast.Node
		var badVar types.Object
		var walk func(nd ast.Node, inLit, inOnce bool)
		walk = func(nd ast.Node, inLit, inOnce bool) {
			ast.Inspect(nd, func(x ast.Node) bool {
				if bad != nil {
					return false
				}
				if fl, ok := x.(*ast.FuncLit); ok && ast.Node(fl) != nd {
					walk(fl.Body, true, inOnce || onceLits[fl])
					return false
				}
				if !inLit || inOnce {
					return true
				}
				check := func(l ast.Expr, at ast.Node) {
					if o, ok := objOf(info, l).(*types.Var); ok && o.Pkg() != nil && o.Parent() != o.Pkg().Scope() {
						// declared in the enclosing declaration's body but outside every literal?
						if o.Pos() >= fb.Body.Pos() && o.Pos() <= fb.Body.End() && !insideAnyLit(fb.Body, o.Pos()) {
							bad, badVar = at, o
						}
					}
				}
				switch s := x.(type) {
				case *ast.AssignStmt:
					if s.Tok != token.DEFINE {
						for _, l := range s.Lhs {
							check(l, s)
						}
					}
				case *ast.IncDecStmt:
					check(s.X, s)
				}
				return true
			})
		}
		walk(fb.Body, false, false)
		if bad != nil {
			c.Add(rule, fb.Name, bad.Pos(), core.Violated, "`"+nodeString(c, bad)+"` writes "+badVar.Name()+", a variable of "+fb.Name+" captured by the closures of the Eval it returns: the cell is shared by every evaluation of that Eval, so two overlapping evaluations combine values from different runs")
		} else {
			c.Add(rule, fb.Name, fb.Decl.Pos(), core.Discharged, "no shared cell written by the returned closures")
		}
	}
	c.Floor(rule, "functions of package lazy", n, floor)
}

func insideAnyLit(body ast.Node, pos token.Pos) bool {
	in := false
	ast.Inspect(body, func(x ast.Node) bool {
		if fl, ok := x.(*ast.FuncLit); ok && fl.Pos() <= pos && pos <= fl.End() {
			in = true
		}
		return !in
	})
	return in
}
