package rules

// Rules added after the third round of seeded changes (DESIGN.md §10):
//   R-MAPOK        (C09)  an Eq over Go maps looks the other map up with the comma-ok form (a missing key is not the zero value)
//   R-PURE-COMBINE (C11)  a Combine closure does not write through its operands
//   R-SUBORDER     (C06)  nested subscriptions on Future parameters follow the declaration order
//   R-UNIT         (C01)  the unit of a monad never converts its argument to an interface (parametricity: it cannot inspect it)
//   R-RESIZED      (C03)  the entry-adding paths of set report the growth through *resized
//   R-FAILSTOP     (C17)  in a state function a later run is control-dependent on a test of the earlier run's result
//   R-NOFORCE      (C16)  a deferred recursive call is never forced inside its own thunk

import (
	"go/ast"
	"go/token"
	"go/types"

	"fpcheck/core"

	"golang.org/x/tools/go/packages"
)

// ---------------------------------------------------------------- R-MAPOK

func MapOK(c *core.Ctx, rule string, pkgs []*packages.Package, floor int) {
	c.Rule(rule, "in a binary closure over two Go maps (an Eq/Ord on map[K]V) every lookup p[k] in one of the operand maps uses the comma-ok form: with the single-value form a key missing from the other map reads as V's zero value and compares equal to a present zero value")
	n := 0
	for _, bc := range binClosures(c, pkgs) {
		if _, ok := bc.a.Type().Underlying().(*types.Map); !ok {
			continue
		}
		info := bc.fb.Pkg.TypesInfo
		okForm := map[*ast.IndexExpr]bool{}
		ast.Inspect(bc.fb.Body, func(x ast.Node) bool {
			switch s := x.(type) {
			case *ast.AssignStmt:
				if len(s.Lhs) == 2 && len(s.Rhs) == 1 {
					if ix, ok := ast.Unparen(s.Rhs[0]).(*ast.IndexExpr); ok {
						okForm[ix] = true
					}
				}
				// writes p[k] = v are not lookups
				for _, l := range s.Lhs {
					if ix, ok := ast.Unparen(l).(*ast.IndexExpr); ok {
						okForm[ix] = true
					}
				}
			case *ast.ValueSpec:
				if len(s.Names) == 2 && len(s.Values) == 1 {
					if ix, ok := ast.Unparen(s.Values[0]).(*ast.IndexExpr); ok {
						okForm[ix] = true
					}
				}
			}
			return true
		})
		k := 0
		ast.Inspect(bc.fb.Body, func(x ast.Node) bool {
			ix, ok := x.(*ast.IndexExpr)
			if !ok {
				return true
			}
			o := objOf(info, ix.X)
			if o != bc.a && o != bc.b {
				return true
			}
			k++
			n++
			key := bc.fb.Name + "/" + exprString(ix) + "#" + itoa(k)
			if okForm[ix] {
				c.Add(rule, key, ix.Pos(), core.Discharged, "comma-ok lookup")
			} else {
				c.Add(rule, key, ix.Pos(), core.Violated, exprString(ix)+" reads the operand map without testing presence: a key that is missing from "+o.Name()+" yields the zero value, so maps with different key sets compare equal (and Eqv(a,b) != Eqv(b,a))")
			}
			return true
		})
	}
	c.Floor(rule, "lookups in operand maps", n, floor)
}

// ---------------------------------------------------------------- R-PURE-COMBINE

// refLike: a value through which a callee can modify the caller's data.
func refLike(t types.Type) bool {
	switch t.Underlying().(type) {
	case *types.Pointer, *types.Map, *types.Slice:
		return true
	}
	return false
}

func PureCombine(c *core.Ctx, rule string, pkgs []*packages.Package, floor int) {
	c.Rule(rule, "a binary closure func(a, b T) T of the monoid/semigroup packages whose operands are pointers, maps or slices never assigns through them (*a = …, a[k] = …, a.f = …, delete(a, …), copy(a, …), clear(a)): Combine is a function of the operand values, and evaluating one grouping must not change the operands of another")
	n := 0
	for _, bc := range binClosures(c, pkgs) {
		if bc.res == nil || !types.Identical(bc.res, bc.a.Type()) || !refLike(bc.a.Type()) {
			continue
		}
		info := bc.fb.Pkg.TypesInfo
		roots := map[types.Object]bool{bc.a: true, bc.b: true}
		n++
		var bad ast.Node
		why := ""
		through := func(l ast.Expr) bool {
			l = ast.Unparen(l)
			if _, isIdent := l.(*ast.Ident); isIdent {
				return false // rebinding the local parameter
			}
			r, _ := accessorPath(info, l, roots)
			return r != nil
		}
		inspectShallow(bc.fb.Body, func(x ast.Node) bool {
			if bad != nil {
				return false
			}
			switch s := x.(type) {
			case *ast.AssignStmt:
				for _, l := range s.Lhs {
					if through(l) {
						bad, why = s, "assigns through operand: "+exprString(l)
					}
				}
			case *ast.IncDecStmt:
				if through(s.X) {
					bad, why = s, "modifies operand: "+exprString(s.X)
				}
			case *ast.CallExpr:
				for _, b := range []string{"delete", "copy", "clear"} {
					if isBuiltinCall(info, s, b) && len(s.Args) > 0 {
						if o := objOf(info, s.Args[0]); o != nil && roots[o] {
							bad, why = s, b+" on operand "+o.Name()
						}
					}
				}
			}
			return true
		})
		if bad != nil {
			c.Add(rule, bc.fb.Name, bad.Pos(), core.Violated, why+": Combine changes one of its operands, so the same operands combined again (the other grouping of an associativity instance, a second Reduce over the same elements) give a different result")
		} else {
			c.Add(rule, bc.fb.Name, bc.fb.Pos(), core.Discharged, "operands only read")
		}
	}
	c.Floor(rule, "combine closures over reference-like operands", n, floor)
}

// ---------------------------------------------------------------- R-SUBORDER

func isFutureType(t types.Type) bool { return t != nil && isNamed(t, "fp", "Future") }

func SubOrder(c *core.Ctx, rule string, pkgs []*packages.Package, floor int) {
	c.Rule(rule, "when a combinator subscribes to one Future operand inside the callback of a subscription to another (x.OnComplete(λ…y.OnComplete…), FlatMap(x, λ…Map(y,…))), the outer subscription is on the operand declared first: otherwise a failure of the earlier operand is not reported until the later one completes (the result no longer completes as soon as the sources it depends on are complete)")
	n := 0
	for _, fb := range funcBodies(c, pkgs) {
		if fb.Lit != nil || fb.Decl == nil {
			continue
		}
		info := fb.Pkg.TypesInfo
		idx := map[types.Object]int{}
		k := 0
		if fb.Decl.Recv != nil && len(fb.Decl.Recv.List) == 1 && len(fb.Decl.Recv.List[0].Names) == 1 {
			if o := info.Defs[fb.Decl.Recv.List[0].Names[0]]; o != nil && isFutureType(o.Type()) {
				idx[o] = k
				k++
			}
		}
		for _, f := range fb.Type.Params.List {
			for _, nm := range f.Names {
				if o := info.Defs[nm]; o != nil && isFutureType(o.Type()) {
					idx[o] = k
					k++
				}
			}
		}
		if len(idx) < 2 {
			continue
		}
		// subscribed(call) = the Future parameter this call subscribes to, and the callbacks it takes
		subscribed := func(call *ast.CallExpr) (types.Object, []*ast.FuncLit) {
			var lits []*ast.FuncLit
			for _, a := range call.Args {
				if fl, ok := ast.Unparen(a).(*ast.FuncLit); ok {
					lits = append(lits, fl)
				}
			}
			if len(lits) == 0 {
				return nil, nil
			}
			if sel, ok := ast.Unparen(call.Fun).(*ast.SelectorExpr); ok {
				if o := objOf(info, sel.X); o != nil {
					if _, isP := idx[o]; isP {
						return o, lits
					}
				}
			}
			if len(call.Args) > 0 {
				if o := objOf(info, call.Args[0]); o != nil {
					if _, isP := idx[o]; isP {
						return o, lits
					}
				}
			}
			return nil, nil
		}
		pair := 0
		var walk func(nd ast.Node, outer []types.Object)
		seen := map[string]bool{}
		// operands subscribed to outside every callback
		topLevel := map[types.Object]bool{}
		var top func(nd ast.Node)
		top = func(nd ast.Node) {
			ast.Inspect(nd, func(x ast.Node) bool {
				if _, isLit := x.(*ast.FuncLit); isLit {
					return false
				}
				if call, ok := x.(*ast.CallExpr); ok {
					if o, _ := subscribed(call); o != nil {
						topLevel[o] = true
					}
				}
				return true
			})
		}
		top(fb.Body)
		walk = func(nd ast.Node, outer []types.Object) {
			ast.Inspect(nd, func(x ast.Node) bool {
				if id, ok := x.(*ast.Ident); ok && len(outer) > 0 {
					o := info.Uses[id]
					if _, isP := idx[o]; !isP {
						return true
					}
					for _, out := range outer {
						if out == o || seen[out.Name()+">"+o.Name()] {
							continue
						}
						seen[out.Name()+">"+o.Name()] = true
						pair++
						n++
						key := fb.Name + "/nest#" + itoa(pair) + ":" + out.Name() + ">" + o.Name()
						if idx[o] < idx[out] && topLevel[o] {
							c.Add(rule, key, id.Pos(), core.Discharged, "the earlier operand is also subscribed to independently, outside this callback")
						} else if idx[o] < idx[out] {
							c.Add(rule, key, id.Pos(), core.Violated, "operand "+o.Name()+" (declared before "+out.Name()+") is consulted only inside the callback of the subscription to "+out.Name()+": when "+o.Name()+" has failed the result is decided, yet it stays incomplete until "+out.Name()+" completes — forever if it never does")
						} else {
							c.Add(rule, key, id.Pos(), core.Discharged, "outer subscription on the earlier operand")
						}
					}
					return true
				}
				call, ok := x.(*ast.CallExpr)
				if !ok {
					return true
				}
				o, lits := subscribed(call)
				if o == nil {
					return true
				}
				walk(call.Fun, outer)
				for _, a := range call.Args {
					if _, isLit := ast.Unparen(a).(*ast.FuncLit); !isLit {
						walk(a, outer)
					}
				}
				for _, fl := range lits {
					walk(fl.Body, append(append([]types.Object{}, outer...), o))
				}
				return false
			})
		}
		walk(fb.Body, nil)
	}
	c.Floor(rule, "nested subscriptions on two Future operands", n, floor)
}

var _ = token.NoPos

// ---------------------------------------------------------------- R-JSONDEC

// JSONDecDefault: UnmarshalJSON decodes with encoding/json's default value representation.
func JSONDecDefault(c *core.Ctx, rule string) {
	c.Rule(rule, "an UnmarshalJSON method decodes its payload with encoding/json's default representation: it never switches a json.Decoder to UseNumber (numbers in interface-typed slots would come back as json.Number instead of float64, so Some(v) does not decode to a value equal to v)")
	n := 0
	for _, fb := range funcBodies(c, c.Pkgs) {
		if fb.Decl == nil || fb.Decl.Recv == nil || fb.Decl.Name.Name != "UnmarshalJSON" {
			continue
		}
		if fb.Lit != nil {
			continue
		}
		if pp := fb.Pkg.PkgPath; len(pp) > 0 && (containsStr(pp, "/cmd/") || containsStr(pp, "/internal/generator")) {
			continue
		}
		info := fb.Pkg.TypesInfo
		n++
		var hit ast.Node
		ast.Inspect(fb.Body, func(x ast.Node) bool {
			if call, ok := x.(*ast.CallExpr); ok {
				if callee := calleeOf(info, call); callee != nil && callee.Pkg() != nil && callee.Pkg().Path() == "encoding/json" && callee.Name() == "UseNumber" {
					hit = call
				}
			}
			return true
		})
		if hit != nil {
			c.Add(rule, fb.Name, hit.Pos(), core.Violated, "UnmarshalJSON decodes with Decoder.UseNumber: a number held in an `any`, []any or map[string]any payload decodes to json.Number, not to the float64 that was marshalled")
		} else {
			c.Add(rule, fb.Name, fb.Decl.Pos(), core.Discharged, "default number representation")
		}
	}
	c.Floor(rule, "UnmarshalJSON methods", n, 5)
}

func containsStr(s, sub string) bool {
	for i := 0; i+len(sub) <= len(s); i++ {
		if s[i:i+len(sub)] == sub {
			return true
		}
	}
	return false
}

// ---------------------------------------------------------------- R-SORTUSED

// SortUsed: the fp sorting functions return a sorted copy; a call statement that drops the copy sorts nothing.
func SortUsed(c *core.Ctx, rule string, pkgs []*packages.Package) {
	c.Rule(rule, "no call statement discards the result of one of the module's Sort functions (seq.Sort, iterator.Sort, list.Sort, Seq.Sort…): they return a sorted copy and leave their argument in its original (for collections taken from a map or set: hash) order")
	n, bad := 0, 0
	for _, fb := range funcBodies(c, pkgs) {
		info := fb.Pkg.TypesInfo
		k := 0
		ast.Inspect(fb.Body, func(x ast.Node) bool {
			call, ok := x.(*ast.CallExpr)
			if !ok {
				return true
			}
			callee := calleeOf(info, call)
			if callee == nil || callee.Pkg() == nil || len(callee.Pkg().Path()) < len(core.ModPath) || callee.Pkg().Path()[:len(core.ModPath)] != core.ModPath {
				return true
			}
			if len(callee.Name()) < 4 || callee.Name()[:4] != "Sort" {
				return true
			}
			sig := callee.Type().(*types.Signature)
			if sig.Results().Len() == 0 {
				return true
			}
			n++
			k++
			_ = k
			return true
		})
		inspectShallow(fb.Body, func(x ast.Node) bool {
			es, ok := x.(*ast.ExprStmt)
			if !ok {
				return true
			}
			call, ok := ast.Unparen(es.X).(*ast.CallExpr)
			if !ok {
				return true
			}
			callee := calleeOf(info, call)
			if callee == nil || callee.Pkg() == nil || len(callee.Pkg().Path()) < len(core.ModPath) || callee.Pkg().Path()[:len(core.ModPath)] != core.ModPath {
				return true
			}
			if len(callee.Name()) < 4 || callee.Name()[:4] != "Sort" || callee.Type().(*types.Signature).Results().Len() == 0 {
				return true
			}
			bad++
			c.Add(rule, fb.Name+"/"+exprString(call.Fun)+"#"+itoa(bad), call.Pos(), core.Violated, "the sorted copy returned by `"+exprString(call)+"` is discarded: "+exprString(call.Args[0])+" keeps its original order")
			return true
		})
	}
	c.Add(rule, "scan", token.NoPos, core.Discharged, itoa(n)+" calls of value-returning Sort functions, "+itoa(bad)+" discard the result")
	c.Floor(rule, "calls of value-returning Sort functions", n, 10)
}
