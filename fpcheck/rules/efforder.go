package rules

// R-EFFORDER (C02) — effect-order summaries.
//
// For every branch-free combinator of the monad packages the rule computes the
// order in which monadic sources are consulted (the first failing one in that
// order decides the result): E(FlatMap(m, λx.body)) = E(m) ++ E(body),
// E(Map(m, f)) = E(m), E(g(args…)) = summary(g) with the arguments
// substituted, primitives (functions that test a monadic value themselves)
// consult their monadic parameters in declaration order. Obligations:
//   (O1) a package-level combinator consults its monadic parameters and
//        suppliers in declaration order (left to right);
//   (O2) the methods of one builder type (ApplicativeFunctorN, MonadChainN) agree
//        pairwise on the relative order of the receiver's monadic fields, and
//        consult receiver fields (earlier operands) before their own arguments.
// A function whose body is outside the supported fragment (branches, loops) has no
// summary and is skipped (listed), as is everything that depends on it.

import (
	"go/ast"
	"go/types"
	"sort"
	"strings"

	"fpcheck/core"

	"golang.org/x/tools/go/packages"
)

func isMonadType(t types.Type) bool {
	return monadKind(t) != "" || isNamed(t, "fp", "Future") || isNamed(t, "fp", "StateT")
}

type effEngine struct {
	c         *core.Ctx
	sums      map[*types.Func][]string
	known     map[*types.Func]bool
	busy      map[*types.Func]bool
	evaluated map[*types.Func]bool // summary obtained by evaluating the body (not the primitive fallback)
}

type effCtx struct {
	p      *packages.Package
	info   *types.Info
	fn     *types.Func
	params map[types.Object]string // object -> source key
	recv   types.Object
	env    map[types.Object][]string
}

func dedup(xs []string) []string {
	seen := map[string]bool{}
	var out []string
	for _, x := range xs {
		if !seen[x] {
			seen[x] = true
			out = append(out, x)
		}
	}
	return out
}

func (e *effEngine) summary(fn *types.Func) ([]string, bool) {
	fn = fn.Origin()
	if e.known[fn] {
		s := e.sums[fn]
		return s, s != nil
	}
	if e.busy[fn] {
		return nil, false
	}
	fd := e.c.FuncDecl(fn)
	if fd == nil || fd.Body == nil || fn.Pkg() == nil {
		e.known[fn] = true
		return nil, false
	}
	p := e.c.ByPath[fn.Pkg().Path()]
	if p == nil {
		e.known[fn] = true
		return nil, false
	}
	e.busy[fn] = true
	defer func() { e.busy[fn] = false }()
	info := p.TypesInfo
	cx := &effCtx{p: p, info: info, fn: fn, params: map[types.Object]string{}, env: map[types.Object][]string{}}
	if fd.Recv != nil && len(fd.Recv.List) == 1 && len(fd.Recv.List[0].Names) == 1 {
		cx.recv = info.Defs[fd.Recv.List[0].Names[0]]
	}
	var monParams, fnParams []string
	for _, fl := range fd.Type.Params.List {
		for _, nm := range fl.Names {
			o := info.Defs[nm]
			if o == nil {
				continue
			}
			switch {
			case isMonadType(o.Type()):
				cx.params[o] = "P:" + nm.Name
				monParams = append(monParams, "P:"+nm.Name)
			default:
				if sig, ok := o.Type().Underlying().(*types.Signature); ok && sig.Results().Len() >= 1 && isMonadType(sig.Results().At(0).Type()) {
					if sig.Params().Len() == 0 {
						cx.params[o] = "S:" + nm.Name
					} else {
						cx.params[o] = "C:" + nm.Name
					}
					fnParams = append(fnParams, cx.params[o])
				}
			}
		}
	}
	var res []string
	ok := false
	res, ok = e.evalBody(cx, fd.Body.List)
	if ok {
		e.evaluated[fn] = true
		if cx.recv != nil && isMonadType(cx.recv.Type()) && !strings.HasPrefix(strings.Join(res, ","), "R:recv") {
			hasRecv := false
			for _, k := range res {
				if k == "R:recv" {
					hasRecv = true
				}
			}
			_ = hasRecv
		}
	} else if isPrimitive(p, fd) {
		// fallback for a primitive outside the fragment: it tests its monadic parameters itself —
		// assume declaration order, then its call-backs (no obligation is attached to an assumed order)
		res, ok = append(append([]string{}, monParams...), fnParams...), true
		if cx.recv != nil && isMonadType(cx.recv.Type()) {
			res = append([]string{"R:recv"}, res...)
		}
	}
	e.known[fn] = true
	if ok {
		if res == nil {
			res = []string{}
		}
		e.sums[fn] = dedup(res)
		return e.sums[fn], true
	}
	return nil, false
}

func (e *effEngine) evalBody(cx *effCtx, list []ast.Stmt) ([]string, bool) {
	var acc []string
	for i, st := range list {
		switch s := st.(type) {
		case *ast.AssignStmt:
			// x, ns := st.Run(s) / st(s): x carries the sources of the StateT that was run
			if len(s.Lhs) == 2 && len(s.Rhs) == 1 {
				if call, ok := ast.Unparen(s.Rhs[0]).(*ast.CallExpr); ok {
					var runExpr ast.Expr
					if ftv, ok := cx.info.Types[call.Fun]; ok && isNamed(ftv.Type, "fp", "StateT") {
						runExpr = call.Fun
					}
					if sel, ok := ast.Unparen(call.Fun).(*ast.SelectorExpr); ok && sel.Sel.Name == "Run" {
						if rtv, ok := cx.info.Types[sel.X]; ok && isNamed(rtv.Type, "fp", "StateT") {
							runExpr = sel.X
						}
					}
					if runExpr != nil {
						v, ok := e.evalExpr(cx, runExpr)
						if !ok {
							return nil, false
						}
						if o := objOf(cx.info, s.Lhs[0]); o != nil {
							cx.env[o] = v
						}
						continue
					}
				}
				return nil, false
			}
			if len(s.Lhs) != 1 || len(s.Rhs) != 1 {
				return nil, false
			}
			o := objOf(cx.info, s.Lhs[0])
			if o == nil {
				return nil, false
			}
			if isMonadType(o.Type()) {
				v, ok := e.evalExpr(cx, s.Rhs[0])
				if !ok {
					return nil, false
				}
				cx.env[o] = v
			} else if _, isLit := ast.Unparen(s.Rhs[0]).(*ast.FuncLit); isLit {
				if sig, ok := o.Type().Underlying().(*types.Signature); ok && sig.Results().Len() == 1 && isMonadType(sig.Results().At(0).Type()) {
					return nil, false
				}
			}
		case *ast.IfStmt:
			// a success / failure test of a monadic value consults it here
			if s.Init != nil {
				return nil, false
			}
			m, _, ok := successTest(cx.info, s.Cond)
			if !ok {
				return nil, false
			}
			var mv []string
			if v, has := cx.env[m]; has {
				mv = v
			} else if k, has := cx.params[m]; has {
				mv = []string{k}
			} else if cx.recv != nil && m == cx.recv {
				mv = []string{"R:recv"}
			} else {
				return nil, false
			}
			acc = append(acc, mv...)
			tb, ok := e.evalBody(cx, s.Body.List)
			if !ok {
				return nil, false
			}
			acc = append(acc, tb...)
			switch el := s.Else.(type) {
			case *ast.BlockStmt:
				eb, ok := e.evalBody(cx, el.List)
				if !ok {
					return nil, false
				}
				acc = append(acc, eb...)
			case nil:
			default:
				return nil, false
			}
		case *ast.ReturnStmt:
			if i != len(list)-1 {
				return nil, false
			}
			var out []string
			found := false
			for _, r := range s.Results {
				tv, ok := cx.info.Types[r]
				if !ok {
					continue
				}
				isFnRes := false
				if sig, ok := tv.Type.Underlying().(*types.Signature); ok && sig.Results().Len() >= 1 && isMonadType(sig.Results().At(0).Type()) {
					isFnRes = true
				}
				if isMonadType(tv.Type) || isFnRes {
					v, ok := e.evalExpr(cx, r)
					if !ok {
						return nil, false
					}
					out = append(out, v...)
					found = true
				} else if call, ok := ast.Unparen(r).(*ast.CallExpr); ok && len(s.Results) == 1 {
					// a state-shaped call returning (Try, S): f(x)(ns) / st.Run(ns)
					_ = call
				}
			}
			if !found && len(s.Results) == 1 {
				// single result that is a tuple-returning call (running a StateT): consult what is run
				if call, ok := ast.Unparen(s.Results[0]).(*ast.CallExpr); ok {
					if ftv, ok := cx.info.Types[call.Fun]; ok && isNamed(ftv.Type, "fp", "StateT") {
						v, ok := e.evalExpr(cx, call.Fun)
						if !ok {
							return nil, false
						}
						return append(acc, v...), true
					}
					if sel, ok := ast.Unparen(call.Fun).(*ast.SelectorExpr); ok && sel.Sel.Name == "Run" {
						v, ok := e.evalExpr(cx, sel.X)
						if !ok {
							return nil, false
						}
						return append(acc, v...), true
					}
				}
				return acc, true
			}
			return append(acc, out...), true
		default:
			return nil, false
		}
	}
	return acc, true
}

func (e *effEngine) evalLit(cx *effCtx, fl *ast.FuncLit) ([]string, bool) {
	// monadic parameters of the literal become value-carried sources
	saved := map[types.Object]string{}
	for _, f := range fl.Type.Params.List {
		for _, nm := range f.Names {
			if o := cx.info.Defs[nm]; o != nil && isMonadType(o.Type()) {
				saved[o] = "V:" + nm.Name
				cx.params[o] = "V:" + nm.Name
			}
		}
	}
	return e.evalBody(cx, fl.Body.List)
}

func (e *effEngine) evalExpr(cx *effCtx, ex ast.Expr) ([]string, bool) {
	ex = ast.Unparen(ex)
	switch x := ex.(type) {
	case *ast.Ident:
		o := cx.info.Uses[x]
		if o == nil {
			return nil, false
		}
		if v, ok := cx.env[o]; ok {
			return v, true
		}
		if k, ok := cx.params[o]; ok {
			return []string{k}, true
		}
		if _, isVar := o.(*types.Var); isVar && isMonadType(o.Type()) {
			if o.Parent() == o.Pkg().Scope() {
				return []string{}, true // package-level constant value (try.Unit …)
			}
			return nil, false
		}
		return []string{}, true
	case *ast.SelectorExpr:
		if cx.recv != nil && objOf(cx.info, x.X) == cx.recv {
			if tv, ok := cx.info.Types[x]; ok && isMonadType(tv.Type) {
				return []string{"F:" + x.Sel.Name}, true
			}
			// a method value of the same receiver used as a continuation (FlatMap(a, r.Ap)): what it consults when it
			// runs — its receiver fields; its own parameters are the values it is handed
			if sel := cx.info.Selections[x]; sel != nil && sel.Kind() == types.MethodVal {
				if m, ok := sel.Obj().(*types.Func); ok && m.Pkg() != nil && strings.HasPrefix(m.Pkg().Path(), core.ModPath) {
					sum, ok := e.summary(m)
					if !ok {
						return nil, false
					}
					var out []string
					for _, k := range sum {
						if strings.HasPrefix(k, "F:") {
							out = append(out, k)
						}
					}
					return out, true
				}
			}
		}
		if tv, ok := cx.info.Types[x]; ok && isMonadType(tv.Type) {
			if _, isPkgVar := cx.info.Uses[x.Sel].(*types.Var); isPkgVar {
				if _, isPkg := cx.info.Uses[identOf(x.X)].(*types.PkgName); isPkg {
					return []string{}, true
				}
			}
			return nil, false
		}
		return []string{}, true
	case *ast.FuncLit:
		return e.evalLit(cx, x)
	case *ast.CallExpr:
		// supplier / continuation parameter invoked
		if o := objOf(cx.info, x.Fun); o != nil {
			if k, ok := cx.params[o]; ok && (strings.HasPrefix(k, "S:") || strings.HasPrefix(k, "C:")) {
				return []string{k}, true
			}
		}
		// conversion
		if tv, ok := cx.info.Types[x.Fun]; ok && tv.IsType() && len(x.Args) == 1 {
			return e.evalExpr(cx, x.Args[0])
		}
		callee := calleeOf(cx.info, x)
		if callee == nil {
			// call of a returned closure: LiftA2(f)(a, b) …
			if inner, ok := ast.Unparen(x.Fun).(*ast.CallExpr); ok {
				if ic := calleeOf(cx.info, inner); ic != nil {
					sum, ok := e.summary(ic)
					if !ok {
						return nil, false
					}
					return e.subst(cx, ic, sum, inner, x)
				}
			}
			if tv, ok := cx.info.Types[x]; ok && !isMonadType(tv.Type) {
				return []string{}, true
			}
			return nil, false
		}
		tv, ok := cx.info.Types[x]
		if ok && !isMonadType(tv.Type) {
			if _, isSig := tv.Type.Underlying().(*types.Signature); !isSig {
				return []string{}, true // a plain value: no monadic effect
			}
		}
		if callee.Pkg() == nil || !strings.HasPrefix(callee.Pkg().Path(), core.ModPath) {
			return []string{}, true
		}
		sum, ok := e.summary(callee)
		if !ok {
			// a function without monadic inputs is a constructor
			sig := callee.Type().(*types.Signature)
			hasMon := sig.Recv() != nil
			for i := 0; i < sig.Params().Len(); i++ {
				pt := sig.Params().At(i).Type()
				if isMonadType(pt) {
					hasMon = true
				}
				if s2, ok := pt.Underlying().(*types.Signature); ok && s2.Results().Len() >= 1 && isMonadType(s2.Results().At(0).Type()) {
					hasMon = true
				}
			}
			if !hasMon {
				return []string{}, true
			}
			return nil, false
		}
		return e.subst(cx, callee, sum, x, nil)
	}
	if tv, ok := cx.info.Types[ex]; ok && !isMonadType(tv.Type) {
		return []string{}, true
	}
	return nil, false
}

func identOf(e ast.Expr) *ast.Ident {
	id, _ := ast.Unparen(e).(*ast.Ident)
	return id
}

// subst instantiates callee's summary at call (outer = the call of the returned closure, if any).
func (e *effEngine) subst(cx *effCtx, callee *types.Func, sum []string, call *ast.CallExpr, outer *ast.CallExpr) ([]string, bool) {
	fd := e.c.FuncDecl(callee)
	if fd == nil {
		return nil, false
	}
	// parameter name -> argument expression
	argOf := map[string]ast.Expr{}
	idx := 0
	for _, fl := range fd.Type.Params.List {
		for _, nm := range fl.Names {
			if idx < len(call.Args) {
				argOf[nm.Name] = call.Args[idx]
			}
			idx++
		}
	}
	// parameters of a returned literal bind to the outer call's arguments
	if outer != nil && len(fd.Body.List) == 1 {
		if ret, ok := fd.Body.List[0].(*ast.ReturnStmt); ok && len(ret.Results) == 1 {
			if fl, ok := ast.Unparen(ret.Results[0]).(*ast.FuncLit); ok {
				j := 0
				for _, f := range fl.Type.Params.List {
					for _, nm := range f.Names {
						if j < len(outer.Args) {
							argOf[nm.Name] = outer.Args[j]
						}
						j++
					}
				}
			}
		}
	}
	var recvExpr ast.Expr
	if sel, ok := ast.Unparen(call.Fun).(*ast.SelectorExpr); ok {
		recvExpr = sel.X
	}
	var out []string
	for _, k := range sum {
		kind, name := k[:2], k[2:]
		switch kind {
		case "P:", "V:":
			a, ok := argOf[name]
			if !ok {
				return nil, false
			}
			v, ok := e.evalExpr(cx, a)
			if !ok {
				return nil, false
			}
			out = append(out, v...)
		case "S:", "C:":
			a, ok := argOf[name]
			if !ok {
				continue
			}
			a = ast.Unparen(a)
			if fl, ok := a.(*ast.FuncLit); ok {
				v, ok := e.evalLit(cx, fl)
				if !ok {
					return nil, false
				}
				out = append(out, v...)
				continue
			}
			if o := objOf(cx.info, a); o != nil {
				if pk, ok := cx.params[o]; ok {
					out = append(out, pk)
					continue
				}
			}
			// a method value of our own receiver used as call-back (FlatMap(a, r.Ap)) consults the receiver fields its
			// method consults, when it runs
			if se, ok := a.(*ast.SelectorExpr); ok && cx.recv != nil && objOf(cx.info, se.X) == cx.recv {
				if v, ok := e.evalExpr(cx, se); ok {
					out = append(out, v...)
					continue
				}
				return nil, false
			}
			// a named function / composition used as call-back: consults nothing of ours
		case "F:":
			if recvExpr == nil || cx.recv == nil || objOf(cx.info, recvExpr) != cx.recv {
				return nil, false
			}
			out = append(out, k)
		case "R:":
			if recvExpr == nil {
				return nil, false
			}
			v, ok := e.evalExpr(cx, recvExpr)
			if !ok {
				return nil, false
			}
			out = append(out, v...)
		}
	}
	return out, true
}

func EffOrder(c *core.Ctx, rule string, pkgs []*packages.Package, floors ...int) {
	c.Rule(rule, "effect order: (O1) a branch-free combinator consults its monadic parameters and suppliers in declaration order; (O2) the methods of one builder type agree pairwise on the relative order in which the receiver's monadic fields are consulted, and consult them before their own arguments — the failure of the first failing operand in left-to-right order is the one reported")
	e := &effEngine{c: c, sums: map[*types.Func][]string{}, known: map[*types.Func]bool{}, busy: map[*types.Func]bool{}, evaluated: map[*types.Func]bool{}}
	nSum, nSkip := 0, 0
	type methodOrder struct {
		name string
		pos  ast.Node
		sum  []string
	}
	byType := map[string][]methodOrder{}
	for _, p := range pkgs {
		info := p.TypesInfo
		for _, f := range p.Syntax {
			for _, d := range f.Decls {
				fd, ok := d.(*ast.FuncDecl)
				if !ok || fd.Body == nil || fd.Name.Name == "_" {
					continue
				}
				fn, _ := info.Defs[fd.Name].(*types.Func)
				if fn == nil {
					continue
				}
				sig := fn.Type().(*types.Signature)
				// only functions that produce a monadic value (directly or as a returned closure)
				produces := false
				for i := 0; i < sig.Results().Len(); i++ {
					rt := sig.Results().At(i).Type()
					if isMonadType(rt) {
						produces = true
					}
					if s2, ok := rt.Underlying().(*types.Signature); ok && s2.Results().Len() >= 1 && isMonadType(s2.Results().At(0).Type()) {
						produces = true
					}
				}
				if !produces {
					continue
				}
				name := c.FuncName(p, fd)
				sum, ok := e.summary(fn)
				if ok && !e.evaluated[fn.Origin()] {
					continue // primitive outside the fragment: order assumed, nothing to judge
				}
				if !ok {
					nSkip++
					c.Add(rule, name, fd.Pos(), core.Skipped, "outside the branch-free fragment (or depends on such a function)")
					continue
				}
				nSum++
				// declaration order of the sources
				declIdx := map[string]int{}
				i := 0
				for _, fl := range fd.Type.Params.List {
					for _, nm := range fl.Names {
						declIdx["P:"+nm.Name], declIdx["S:"+nm.Name] = i, i
						i++
					}
				}
				// parameters of a returned literal continue the numbering
				if len(fd.Body.List) == 1 {
					if ret, ok := fd.Body.List[0].(*ast.ReturnStmt); ok && len(ret.Results) == 1 {
						if fl, ok := ast.Unparen(ret.Results[0]).(*ast.FuncLit); ok {
							for _, f2 := range fl.Type.Params.List {
								for _, nm := range f2.Names {
									declIdx["V:"+nm.Name] = i
									i++
								}
							}
						}
					}
				}
				last, lastK := -1, ""
				bad := ""
				seenParam := false
				for _, k := range sum {
					if strings.HasPrefix(k, "F:") && seenParam && fd.Recv != nil {
						bad = "consults its own argument before the receiver's field " + k[2:] + " (earlier operands must be examined first)"
					}
					if idx, ok := declIdx[k]; ok {
						seenParam = true
						if idx < last {
							bad = "consults " + k[2:] + " after " + lastK[2:] + " although it is declared before it: when both fail the later operand's error is reported"
						}
						last, lastK = idx, k
					}
				}
				if bad != "" {
					c.Add(rule, name, fd.Pos(), core.Violated, name+" "+bad+" (order: "+strings.Join(sum, " → ")+")")
				} else {
					c.Add(rule, name, fd.Pos(), core.Discharged, "order: "+strings.Join(sum, " → "))
				}
				if fd.Recv != nil {
					tn := core.ShortPkg(p.PkgPath) + "." + core.RecvTypeName(fd.Recv.List[0].Type)
					byType[tn] = append(byType[tn], methodOrder{name, fd, sum})
				}
			}
		}
	}
	// (O2) sibling agreement on receiver fields
	var tns []string
	for tn := range byType {
		tns = append(tns, tn)
	}
	sort.Strings(tns)
	for _, tn := range tns {
		ms := byType[tn]
		before := map[[2]string]string{} // (a,b) -> method where a precedes b
		conflict := ""
		var at ast.Node
		for _, m := range ms {
			var fs []string
			for _, k := range m.sum {
				if strings.HasPrefix(k, "F:") {
					fs = append(fs, k)
				}
			}
			for i := 0; i < len(fs); i++ {
				for j := i + 1; j < len(fs); j++ {
					if other, ok := before[[2]string{fs[j], fs[i]}]; ok && conflict == "" {
						conflict = m.name + " consults " + fs[i][2:] + " before " + fs[j][2:] + ", but " + other + " consults them the other way round"
						at = m.pos
					}
					if _, ok := before[[2]string{fs[i], fs[j]}]; !ok {
						before[[2]string{fs[i], fs[j]}] = m.name
					}
				}
			}
		}
		if conflict != "" {
			c.Add(rule, tn+"/field-order", at.Pos(), core.Violated, "the methods of "+tn+" disagree on the order of the receiver's monadic fields: "+conflict+" — for the same failing operands they report different errors, so one of them does not report the first failing operand")
		} else if len(before) > 0 {
			c.Add(rule, tn+"/field-order", ms[0].pos.Pos(), core.Discharged, "all "+itoa(len(ms))+" methods agree on the field order")
		}
	}
	c.Note(itoa(nSkip) + " functions outside the effect-order fragment (listed as skipped)")
	floor := 300
	if len(floors) > 0 {
		floor = floors[0]
	}
	c.Floor(rule, "combinators with an effect-order summary", nSum, floor)
}
