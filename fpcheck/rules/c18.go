package rules

import (
	"fpcheck/core"

	"golang.org/x/tools/go/packages"
)

func init() {
	register("C18", "clone combinators clone every component through its instance", func(c *core.Ctx) {
		p := c.Pkg("clone")
		Rel(c, "R-REL", []*packages.Package{p}, anyDecl, instanceParam, 200)
		Sanitize(c, "R-SANITIZE", p)
		InstPath(c, "R-INSTPATH", p, "Clone")
		CloneFresh(c, "R-FRESH", p, 10)
		CloneIdentity(c, "R-CLONEID", []*packages.Package{p, c.Pkg("fp")})
	})
}
