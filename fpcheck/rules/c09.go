package rules

import (
	"go/ast"
	"go/token"
	"go/types"
	"sort"
	"strings"

	"fpcheck/core"

	"golang.org/x/tools/go/packages"
)

func init() {
	register("C09", "component-wise structure of Eq instances; Hashable built on the matching Eq, deterministic and never finer than it", func(c *core.Ctx) {
		ContraProj(c, "R-CONTRA", []*packages.Package{c.Pkg("eq"), c.Pkg("hash")})
		PtrDeref(c, "R-PTRDEREF", []*packages.Package{c.Pkg("eq"), c.Pkg("hash")})
		BothSizes(c, "R-BOTHSIZES", []*packages.Package{c.Pkg("eq"), c.Pkg("hash")})
		PtrIdentity(c, "R-PTRIDENT", []*packages.Package{c.Pkg("eq"), c.Pkg("hash")})
		eqh := []*packages.Package{c.Pkg("eq"), c.Pkg("hash")}
		MapOK(c, "R-MAPOK", eqh, 0) // the one lookup disappears when the closure is written with maps.EqualFunc
		Mirror(c, "R-MIRROR", eqh, typeclassBinMethods, false, nil, 40)
		Rel(c, "R-REL", eqh, anyDecl, instanceParam, 80)
		HashRules(c, c.Pkg("hash"))
		Size(c, "R-SIZE", eqh)
	})
}

var nondetPkgs = map[string]bool{"unsafe": true, "reflect": true, "time": true, "math/rand": true, "math/rand/v2": true, "hash/maphash": true, "os": true, "runtime": true}

// instanceObjs: typeclass-instance variables mentioned in n.
func instanceObjs(info *types.Info, n ast.Node) map[types.Object]bool {
	out := map[types.Object]bool{}
	ast.Inspect(n, func(x ast.Node) bool {
		if id, ok := x.(*ast.Ident); ok {
			if v, ok := info.Uses[id].(*types.Var); ok && !v.IsField() && isInstanceType(v.Type()) {
				out[v] = true
			}
		}
		return true
	})
	return out
}

func HashRules(c *core.Ctx, p *packages.Package) {
	c.Rule("R-HASHEQ", "for every hash.New(E, h): the component instances the hash function h consults are a subset of those the equality E is built from (a hash may be coarser than Eqv, never finer)")
	c.Rule("R-HASHDET", "inside a hash function the value flows only into component Hash calls, accessors and arithmetic — no unsafe/reflect/uintptr/%p/map iteration/time/rand/maphash (a pointer-identity or seed-dependent hash contradicts an Eqv that compares contents)")
	info := p.TypesInfo
	n := 0
	// scopes: bodies of declared functions and the initialisers of package-level variables (var Bytes = New(…))
	type hscope struct {
		Name string
		Body ast.Node
	}
	var scopes []hscope
	for _, fb := range funcBodies(c, []*packages.Package{p}) {
		if fb.Lit == nil {
			scopes = append(scopes, hscope{fb.Name, fb.Body})
		}
	}
	for _, f := range p.Syntax {
		for _, d := range f.Decls {
			gd, ok := d.(*ast.GenDecl)
			if !ok || gd.Tok != token.VAR {
				continue
			}
			for _, sp := range gd.Specs {
				vs := sp.(*ast.ValueSpec)
				for i, v := range vs.Values {
					nm := "_"
					if i < len(vs.Names) {
						nm = vs.Names[i].Name
					}
					scopes = append(scopes, hscope{"hash.var:" + nm, v})
				}
			}
		}
	}
	for _, fb := range scopes {
		k := 0
		ast.Inspect(fb.Body, func(x ast.Node) bool {
			call, ok := x.(*ast.CallExpr)
			if !ok || len(call.Args) != 2 || !funcIs(calleeOf(info, call), "hash", "New") {
				return true
			}
			k++
			n++
			key := fb.Name + "/New#" + itoa(k)
			eqI, hI := instanceObjs(info, call.Args[0]), instanceObjs(info, call.Args[1])
			// locals derived from instances (pt := Tuple2(ins2, ins3)) stand for what they were built from
			expand := func(m map[types.Object]bool) map[types.Object]bool {
				out := map[types.Object]bool{}
				for o := range m {
					out[o] = true
				}
				for changed := true; changed; {
					changed = false
					ast.Inspect(fb.Body, func(y ast.Node) bool {
						var lhs, rhs ast.Expr
						switch d := y.(type) {
						case *ast.AssignStmt:
							if len(d.Lhs) == 1 && len(d.Rhs) == 1 {
								lhs, rhs = d.Lhs[0], d.Rhs[0]
							}
						case *ast.ValueSpec: // var teq fp.Eq[T] = thash
							if len(d.Names) == 1 && len(d.Values) == 1 {
								lhs, rhs = d.Names[0], d.Values[0]
							}
						}
						if lhs == nil {
							return true
						}
						if o := objOf(info, lhs); o != nil && out[o] {
							for d := range instanceObjs(info, rhs) {
								if !out[d] {
									out[d] = true
									changed = true
								}
							}
						}
						return true
					})
				}
				return out
			}
			eqX, hX := expand(eqI), expand(hI)
			var extra []string
			// a local built only from instances the equality is built from (pt := Tuple2(ins2, ins3); seqHash := Seq(hashT))
			// adds no component of its own
			var covered func(o types.Object, depth int) bool
			covered = func(o types.Object, depth int) bool {
				if eqX[o] {
					return true
				}
				if depth > 4 {
					return false
				}
				defs, ok := 0, true
				ast.Inspect(fb.Body, func(y ast.Node) bool {
					as, isAs := y.(*ast.AssignStmt)
					if !isAs || len(as.Lhs) != 1 || len(as.Rhs) != 1 || objOf(info, as.Lhs[0]) != o {
						return true
					}
					defs++
					deps := instanceObjs(info, as.Rhs[0])
					if len(deps) == 0 {
						ok = false
					}
					for d := range deps {
						if d == o || !covered(d, depth+1) {
							ok = false
						}
					}
					return true
				})
				return defs > 0 && ok
			}
			for o := range hX {
				if !covered(o, 0) {
					extra = append(extra, o.Name())
				}
			}
			sort.Strings(extra)
			if len(extra) == 0 {
				c.Add("R-HASHEQ", key, call.Pos(), core.Discharged, "hash components ⊆ equality components")
			} else {
				c.Add("R-HASHEQ", key, call.Pos(), core.Violated, "the hash function consults "+strings.Join(extra, ", ")+", which the equality "+exprString(call.Args[0])+" is not built from: Eqv-equal values can hash differently")
			}
			// R-HASHDET on the hash function literal
			if fl, ok := ast.Unparen(call.Args[1]).(*ast.FuncLit); ok {
				why := ""
				ast.Inspect(fl.Body, func(y ast.Node) bool {
					switch s := y.(type) {
					case *ast.SelectorExpr:
						if id, ok := s.X.(*ast.Ident); ok {
							if pn, ok := info.Uses[id].(*types.PkgName); ok && nondetPkgs[pn.Imported().Path()] {
								why = "uses " + pn.Imported().Path() + "." + s.Sel.Name
							}
							if pn, ok := info.Uses[id].(*types.PkgName); ok && pn.Imported().Path() == "math" && strings.HasSuffix(s.Sel.Name, "bits") {
								why = "hashes the bit pattern of a float (math." + s.Sel.Name + "): values equal under == (0.0 and -0.0) get different hashes"
							}
						}
					case *ast.Ident:
						// shared state: a package-level variable that is not itself a typeclass instance or a function
						if v, ok := info.Uses[s].(*types.Var); ok && v.Pkg() != nil && v.Parent() == v.Pkg().Scope() {
							if _, isFn := v.Type().Underlying().(*types.Signature); !isFn && !isTypeclassRecv(v.Type()) {
								why = "uses the package-level variable " + v.Name() + " (state shared by all callers: concurrent Hash calls interfere, so Hash is not a function of its argument)"
							}
						}
					case *ast.RangeStmt:
						if tv, ok := info.Types[s.X]; ok {
							if _, isMap := tv.Type.Underlying().(*types.Map); isMap {
								why = "iterates over a Go map (order differs between runs)"
							}
						}
					case *ast.CallExpr:
						if tv, ok := info.Types[s.Fun]; ok && tv.IsType() {
							if b, ok := tv.Type.Underlying().(*types.Basic); ok && b.Kind() == types.Uintptr {
								why = "converts to uintptr (pointer identity)"
							}
						}
						for _, a := range s.Args {
							if bl, ok := a.(*ast.BasicLit); ok && strings.Contains(bl.Value, "%p") {
								why = "formats a pointer with %p"
							}
						}
					}
					return true
				})
				// nil vs empty: a hash that singles out the nil container must be matched by an equality that does
				if why == "" && len(fl.Type.Params.List) == 1 && len(fl.Type.Params.List[0].Names) == 1 {
					hp := info.Defs[fl.Type.Params.List[0].Names[0]]
					isCont := false
					if hp != nil {
						switch hp.Type().Underlying().(type) {
						case *types.Slice, *types.Map:
							isCont = true
						}
					}
					nilTest := func(body ast.Node, pinfo *types.Info, isOperand func(types.Object) bool) bool {
						return nodeContains(body, true, func(y ast.Node) bool {
							be, ok := y.(*ast.BinaryExpr)
							if !ok || (be.Op != token.EQL && be.Op != token.NEQ) {
								return false
							}
							a, b := ast.Unparen(be.X), ast.Unparen(be.Y)
							if isNilIdent(pinfo, a) {
								a, b = b, a
							}
							o := objOf(pinfo, a)
							return isNilIdent(pinfo, b) && o != nil && isOperand(o)
						})
					}
					if isCont && nilTest(fl.Body, info, func(o types.Object) bool { return o == hp }) {
						eqDistinguishes := false
						if ecall, ok := ast.Unparen(call.Args[0]).(*ast.CallExpr); ok {
							if ef := calleeOf(info, ecall); ef != nil {
								if fd := c.FuncDecl(ef.Origin()); fd != nil && fd.Body != nil {
									if ep := c.ByPath[ef.Pkg().Path()]; ep != nil {
										eqDistinguishes = nilTest(fd.Body, ep.TypesInfo, func(o types.Object) bool {
											switch o.Type().Underlying().(type) {
											case *types.Slice, *types.Map:
												return true
											}
											return false
										})
									}
								}
							}
						}
						if !eqDistinguishes {
							why = "gives the nil " + hp.Name() + " a hash of its own (`" + hp.Name() + " == nil`) although the equality " + exprString(call.Args[0]) + " does not distinguish nil from empty: Eqv(nil, empty) holds but the hashes differ"
						}
					}
				}
				if why == "" {
					c.Add("R-HASHDET", key, fl.Pos(), core.Discharged, "deterministic function of the value")
				} else {
					c.Add("R-HASHDET", key, fl.Pos(), core.Violated, "the hash function "+why+": the hash is not a function of the value Eqv compares")
				}
			}
			return true
		})
	}
	// package-level vars built with hash.New
	c.Floor("R-HASHEQ", "hash.New sites", n, 20)
}
