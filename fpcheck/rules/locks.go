package rules

// Lock regions on SSA: must-hold dataflow for sync.Mutex / RWMutex.

import (
	"fmt"
	"go/types"
	"sort"
	"strings"

	"fpcheck/core"

	"golang.org/x/tools/go/ssa"
)

// lockKey names the mutex whose address is v, stably within one declared function and its literals.
func lockKey(v ssa.Value) string {
	switch x := v.(type) {
	case *ssa.FreeVar:
		return "var:" + x.Name()
	case *ssa.Alloc:
		if x.Comment != "" {
			return "var:" + x.Comment
		}
		return "var:" + x.Name()
	case *ssa.FieldAddr:
		fv := structFieldVar(x.X.Type(), x.Field)
		base := "?"
		switch b := x.X.(type) {
		case *ssa.Parameter:
			base = b.Name()
		case *ssa.FreeVar:
			base = b.Name()
		case *ssa.UnOp: // *freevar
			if fv2, ok := b.X.(*ssa.FreeVar); ok {
				base = fv2.Name()
			}
		}
		if fv != nil {
			return "field:" + base + "." + fv.Name()
		}
	case *ssa.Global:
		return "global:" + x.Name()
	}
	return ""
}

// mutexOp classifies a call as Lock/Unlock on a sync mutex and returns its key.
func mutexOp(cc *ssa.CallCommon) (op, key string) {
	callee := cc.StaticCallee()
	if callee == nil || callee.Pkg == nil || callee.Pkg.Pkg.Path() != "sync" || len(cc.Args) == 0 {
		return "", ""
	}
	switch callee.Name() {
	case "Lock", "RLock":
		op = "lock"
	case "Unlock", "RUnlock":
		op = "unlock"
	default:
		return "", ""
	}
	return op, lockKey(cc.Args[0])
}

type lockSet map[string]bool

func (s lockSet) clone() lockSet {
	n := lockSet{}
	for k := range s {
		n[k] = true
	}
	return n
}

func intersect(a, b lockSet) lockSet {
	n := lockSet{}
	for k := range a {
		if b[k] {
			n[k] = true
		}
	}
	return n
}

func (s lockSet) String() string {
	var ks []string
	for k := range s {
		ks = append(ks, k)
	}
	sort.Strings(ks)
	return strings.Join(ks, ",")
}

type lockFlow struct {
	fn       *ssa.Function
	held     map[ssa.Instruction]lockSet // locks that must be held just before the instruction
	deferred map[ssa.Instruction]lockSet // keys with a registered deferred unlock (must)
	nLocks   int
}

func analyzeLocks(fn *ssa.Function) *lockFlow { return analyzeLocksFrom(fn, nil, nil) }

// analyzeLocksFrom: like analyzeLocks, with locks already held / deferred unlocks already registered by every caller
// (a local helper closure that is only called from critical sections).
func analyzeLocksFrom(fn *ssa.Function, held0, def0 lockSet) *lockFlow {
	lf := &lockFlow{fn: fn, held: map[ssa.Instruction]lockSet{}, deferred: map[ssa.Instruction]lockSet{}}
	type st struct{ held, def lockSet }
	in := make([]*st, len(fn.Blocks))
	if len(fn.Blocks) == 0 {
		return lf
	}
	in[0] = &st{lockSet{}, lockSet{}}
	for k := range held0 {
		in[0].held[k] = true
	}
	for k := range def0 {
		in[0].def[k] = true
	}
	work := []int{0}
	step := func(b *ssa.BasicBlock, s *st, record bool) *st {
		cur := &st{s.held.clone(), s.def.clone()}
		for _, ins := range b.Instrs {
			if record {
				lf.held[ins] = cur.held.clone()
				lf.deferred[ins] = cur.def.clone()
			}
			switch x := ins.(type) {
			case *ssa.Call:
				if op, key := mutexOp(&x.Call); key != "" {
					if op == "lock" {
						cur.held[key] = true
						if record {
							lf.nLocks++
						}
					} else {
						delete(cur.held, key)
					}
				}
			case *ssa.Defer:
				if op, key := mutexOp(&x.Call); key != "" && op == "unlock" {
					cur.def[key] = true
				}
			}
		}
		return cur
	}
	for len(work) > 0 {
		bi := work[len(work)-1]
		work = work[:len(work)-1]
		out := step(fn.Blocks[bi], in[bi], false)
		for _, s := range fn.Blocks[bi].Succs {
			if in[s.Index] == nil {
				in[s.Index] = &st{out.held.clone(), out.def.clone()}
				work = append(work, s.Index)
			} else {
				nh, nd := intersect(in[s.Index].held, out.held), intersect(in[s.Index].def, out.def)
				if len(nh) != len(in[s.Index].held) || len(nd) != len(in[s.Index].def) {
					in[s.Index] = &st{nh, nd}
					work = append(work, s.Index)
				}
			}
		}
	}
	for bi, b := range fn.Blocks {
		if in[bi] != nil {
			step(b, in[bi], true)
		}
	}
	return lf
}

// checkPairing: at every return, each held lock has a deferred unlock.
func (lf *lockFlow) leaks() []string {
	var out []string
	for _, b := range lf.fn.Blocks {
		if len(b.Instrs) == 0 {
			continue
		}
		last := b.Instrs[len(b.Instrs)-1]
		if _, ok := last.(*ssa.Return); !ok {
			continue
		}
		h, d := lf.held[last], lf.deferred[last]
		for k := range h {
			if !d[k] {
				out = append(out, fmt.Sprintf("%s still held at the return in block %d", k, b.Index))
			}
		}
	}
	sort.Strings(out)
	return out
}

// LockClosures (C20 R-LOCK): for every declared function that owns a local sync.Mutex captured by
// literals: every literal touching a shared captured cell holds the mutex at the access and releases it on all exits.
func LockClosures(c *core.Ctx, rule string, fns []*ssa.Function, floor int) {
	c.Rule(rule, "in a function whose literals share captured cells under a local sync.Mutex, every access to a cell written by some literal (and every use of a captured iterator) happens with the mutex held, and every exit of a locking literal releases it")
	n := 0
	for _, top := range fns {
		if top.Parent() != nil || len(top.AnonFuncs) == 0 {
			continue
		}
		// local mutex?
		var mu *ssa.Alloc
		for _, b := range top.Blocks {
			for _, ins := range b.Instrs {
				if a, ok := ins.(*ssa.Alloc); ok && a.Heap {
					if nt := namedOf(a.Type()); nt != nil && nt.Obj().Pkg() != nil && nt.Obj().Pkg().Path() == "sync" && (nt.Obj().Name() == "Mutex" || nt.Obj().Name() == "RWMutex") {
						mu = a
					}
				}
			}
		}
		if mu == nil {
			continue
		}
		muKey := lockKey(mu)
		var lits []*ssa.Function
		for _, a := range top.AnonFuncs {
			collectLiterals(a, &lits)
		}
		// shared cells: free variable names stored to by some literal
		written := map[string]bool{}
		for _, l := range lits {
			for _, b := range l.Blocks {
				for _, ins := range b.Instrs {
					if st, ok := ins.(*ssa.Store); ok {
						if fv, ok := st.Addr.(*ssa.FreeVar); ok {
							written[fv.Name()] = true
						}
					}
				}
			}
		}
		entryHeld, entryDef := helperEntryStates(top, lits)
		for _, l := range lits {
			lf := analyzeLocksFrom(l, entryHeld[l], entryDef[l])
			name := fnName(l)
			bad := false
			nAcc := 0
			for _, b := range l.Blocks {
				for _, ins := range b.Instrs {
					var cell string
					switch x := ins.(type) {
					case *ssa.Store:
						if fv, ok := x.Addr.(*ssa.FreeVar); ok && written[fv.Name()] {
							cell = fv.Name()
						}
					case *ssa.UnOp:
						if fv, ok := x.X.(*ssa.FreeVar); ok {
							if written[fv.Name()] {
								cell = fv.Name()
							} else if p, ok := fv.Type().(*types.Pointer); ok && cursorKind(p.Elem()) != "" {
								cell = fv.Name() // captured source iterator: hidden cursor state
							}
						}
					}
					if cell == "" {
						continue
					}
					nAcc++
					if !lf.held[ins][muKey] {
						bad = true
						c.Add(rule, name+"/"+cell, instrPos(ins), core.Violated,
							"shared cell "+cell+" is accessed without holding "+strings.TrimPrefix(muKey, "var:")+" (held: {"+lf.held[ins].String()+"}): the two sides race on the queue")
					}
				}
			}
			if nAcc == 0 && lf.nLocks == 0 {
				continue
			}
			n++
			for _, lk := range lf.leaks() {
				bad = true
				c.Add(rule, name+"/exit", l.Pos(), core.Violated, "mutex "+lk+": the next call on either side blocks forever")
			}
			if !bad {
				c.Add(rule, name, l.Pos(), core.Discharged, fmt.Sprintf("%d shared accesses, all under %s; released on every exit", nAcc, strings.TrimPrefix(muKey, "var:")))
			}
		}
	}
	c.Floor(rule, "literals sharing state under a local mutex", n, floor)
}

// PanicSafeLock (C20 R-PANICSAFE): a critical section that pulls from the source iterator releases the mutex on panic.
//
// By the iterator protocol Next on an exhausted iterator panics (R-NOFAB forbids fabricating a value instead), and the
// source's functions are user code. A literal that holds the local mutex across such a call without a deferred Unlock
// leaves the mutex locked when the call panics: every later call on either side blocks forever, so the other side no
// longer delivers its sequence.
func PanicSafeLock(c *core.Ctx, rule string, fns []*ssa.Function, floor int) {
	c.Rule(rule, "in a function whose literals share state under a local sync.Mutex, every call that can run user code or panic by protocol (interface calls, HasNext/Next of a captured iterator) made while the mutex is held is covered by a deferred Unlock registered before it")
	n := 0
	for _, top := range fns {
		if top.Parent() != nil || len(top.AnonFuncs) == 0 {
			continue
		}
		var mu *ssa.Alloc
		for _, b := range top.Blocks {
			for _, ins := range b.Instrs {
				if a, ok := ins.(*ssa.Alloc); ok && a.Heap {
					if nt := namedOf(a.Type()); nt != nil && nt.Obj().Pkg() != nil && nt.Obj().Pkg().Path() == "sync" && (nt.Obj().Name() == "Mutex" || nt.Obj().Name() == "RWMutex") {
						mu = a
					}
				}
			}
		}
		if mu == nil {
			continue
		}
		muKey := lockKey(mu)
		var lits []*ssa.Function
		for _, a := range top.AnonFuncs {
			collectLiterals(a, &lits)
		}
		entryHeld, entryDef := helperEntryStates(top, lits)
		for _, l := range lits {
			lf := analyzeLocksFrom(l, entryHeld[l], entryDef[l])
			if lf.nLocks == 0 && len(entryHeld[l]) == 0 {
				continue
			}
			name := fnName(l)
			k := 0
			for _, b := range l.Blocks {
				for _, ins := range b.Instrs {
					call, ok := ins.(*ssa.Call)
					if !ok {
						continue
					}
					if op, key := mutexOp(&call.Call); key != "" && op != "" {
						continue
					}
					risky, what := false, ""
					switch {
					case call.Call.IsInvoke():
						risky, what = true, "interface call "+call.Call.Method.Name()
					case call.Call.StaticCallee() == nil:
						// builtins and local helper closures: not user code
					default:
						sc := call.Call.StaticCallee()
						if sc.Signature.Recv() != nil && cursorKind(sc.Signature.Recv().Type()) != "" {
							risky, what = true, "cursor method "+sc.Name()+" (runs the source's closures; Next panics when exhausted)"
						}
					}
					if !risky || !lf.held[ins][muKey] {
						continue
					}
					k++
					n++
					key := name + "/call#" + itoa(k)
					if lf.deferred[ins][muKey] {
						c.Add(rule, key, instrPos(ins), core.Discharged, what+" under the mutex, deferred Unlock registered")
					} else {
						c.Add(rule, key, instrPos(ins), core.Violated, what+" is made while "+strings.TrimPrefix(muKey, "var:")+" is held and no deferred Unlock is registered: when it panics (Next on an exhausted source, a faulting user function) the mutex stays locked and every later call on either side blocks forever")
					}
				}
			}
		}
	}
	c.Floor(rule, "risky calls inside critical sections", n, floor)
}

// helperEntryStates: for the literals of top that are local helper closures — bound to a local variable and used only
// as the callee of calls made from sibling literals — the locks that every call site holds and the deferred unlocks
// every call site has registered. Such a helper runs inside its callers' critical sections.
func helperEntryStates(top *ssa.Function, lits []*ssa.Function) (map[*ssa.Function]lockSet, map[*ssa.Function]lockSet) {
	// closure creation sites in top: alloc cell (or direct value) -> function
	cellFn := map[ssa.Value]*ssa.Function{}
	for _, b := range top.Blocks {
		for _, ins := range b.Instrs {
			if st, ok := ins.(*ssa.Store); ok {
				if mc, ok := st.Val.(*ssa.MakeClosure); ok {
					if f, ok := mc.Fn.(*ssa.Function); ok {
						if _, dup := cellFn[st.Addr]; dup {
							cellFn[st.Addr] = nil // assigned twice: not a fixed helper
						} else {
							cellFn[st.Addr] = f
						}
					}
				}
			}
		}
	}
	// binding of each literal's free variables to cells of top
	bindOf := map[*ssa.Function][]ssa.Value{}
	var scan func(fn *ssa.Function)
	scan = func(fn *ssa.Function) {
		for _, b := range fn.Blocks {
			for _, ins := range b.Instrs {
				if mc, ok := ins.(*ssa.MakeClosure); ok {
					if f, ok := mc.Fn.(*ssa.Function); ok {
						bindOf[f] = mc.Bindings
					}
				}
			}
		}
		for _, a := range fn.AnonFuncs {
			scan(a)
		}
	}
	scan(top)
	// resolve a value inside literal l to the cell of top it denotes
	var cellOf func(l *ssa.Function, v ssa.Value) ssa.Value
	cellOf = func(l *ssa.Function, v ssa.Value) ssa.Value {
		fv, ok := v.(*ssa.FreeVar)
		if !ok {
			return v
		}
		for i, f := range l.FreeVars {
			if f == fv && i < len(bindOf[l]) {
				if l.Parent() != nil && l.Parent() != top {
					return cellOf(l.Parent(), bindOf[l][i])
				}
				return bindOf[l][i]
			}
		}
		return nil
	}
	type site struct {
		held, def lockSet
	}
	sites := map[*ssa.Function][]site{}
	escapes := map[*ssa.Function]bool{}
	flows := map[*ssa.Function]*lockFlow{}
	for _, l := range lits {
		flows[l] = analyzeLocks(l)
	}
	for _, l := range lits {
		for _, b := range l.Blocks {
			for _, ins := range b.Instrs {
				// loads of a helper cell: used as callee, or escaping
				u, ok := ins.(*ssa.UnOp)
				if !ok {
					continue
				}
				cell := cellOf(l, u.X)
				h := cellFn[cell]
				if cell == nil || h == nil {
					continue
				}
				if refs := u.Referrers(); refs != nil {
					for _, r := range *refs {
						if call, ok := r.(*ssa.Call); ok && call.Call.Value == ssa.Value(u) {
							sites[h] = append(sites[h], site{flows[l].held[call], flows[l].deferred[call]})
						} else {
							escapes[h] = true
						}
					}
				}
			}
		}
	}
	// uses in top itself (passed to MakeIterator etc.) are escapes
	for _, b := range top.Blocks {
		for _, ins := range b.Instrs {
			if u, ok := ins.(*ssa.UnOp); ok {
				if h := cellFn[u.X]; h != nil {
					escapes[h] = true
				}
			}
		}
	}
	heldAt, defAt := map[*ssa.Function]lockSet{}, map[*ssa.Function]lockSet{}
	for h, ss := range sites {
		if escapes[h] || len(ss) == 0 {
			continue
		}
		hs, ds := ss[0].held.clone(), ss[0].def.clone()
		for _, x := range ss[1:] {
			hs, ds = intersect(hs, x.held), intersect(ds, x.def)
		}
		heldAt[h], defAt[h] = hs, ds
	}
	return heldAt, defAt
}
