package rules

import (
	"go/ast"
	"go/types"

	"fpcheck/core"

	"golang.org/x/tools/go/packages"
)

func isInstanceType(t types.Type) bool {
	if isTypeclassRecv(t) || isNamed(t, "fp", "Clone") || isNamed(t, "fp", "Show") {
		return true
	}
	if isNamed(t, "lazy", "Eval") {
		if nt := namedOf(t); nt != nil && nt.TypeArgs().Len() == 1 {
			return isInstanceType(nt.TypeArgs().At(0))
		}
	}
	return false
}

func instanceParam(v *types.Var) bool { return isInstanceType(v.Type()) }

func anyDecl(p *packages.Package, fd *ast.FuncDecl, fn *types.Func) bool { return true }

func init() {
	register("C11", "structural conditions of lawful monoids and of Reduce/FoldMap", func(c *core.Ctx) {
		mp := []*packages.Package{c.Pkg("fp"), c.Pkg("monoid"), c.Pkg("semigroup")}
		Ident(c, "R-IDENT", mp)
		Name(c, "R-NAME")
		MustUse(c, "R-MUSTUSE", libPkgs(c), true, false)
		Acc(c, "R-ACC", []*packages.Package{c.Pkg("seq"), c.Pkg("iterator"), c.Pkg("list")})
		MonoidEmpty(c, "R-EMPTY", []*packages.Package{c.Pkg("seq"), c.Pkg("iterator"), c.Pkg("list")})
		Mirror(c, "R-MIRROR", []*packages.Package{c.Pkg("monoid"), c.Pkg("semigroup")}, map[string]bool{"Combine": true}, true,
			dualExempt(c), 25)
		Rel(c, "R-REL", []*packages.Package{c.Pkg("monoid"), c.Pkg("semigroup")}, anyDecl, instanceParam, 200)
		NoSwap(c, "R-NOSWAP", []*packages.Package{c.Pkg("monoid"), c.Pkg("semigroup")})
		EmptyUsed(c, "R-EMPTYUSED", []*packages.Package{c.Pkg("monoid"), c.Pkg("fp")})
		PureCombine(c, "R-PURE-COMBINE", []*packages.Package{c.Pkg("monoid"), c.Pkg("semigroup")}, 3)
	})
}


// dualExempt: Dual is the one instance that swaps its operands by definition; so does an unexported helper that is
// referred to only from inside Dual (flip(sg) extracted from it).
func dualExempt(c *core.Ctx) func(bc binClosure) bool {
	return func(bc binClosure) bool {
		if bc.fb.Decl == nil {
			return false
		}
		if bc.fb.Decl.Name.Name == "Dual" {
			return true
		}
		if bc.fb.Decl.Recv != nil || ast.IsExported(bc.fb.Decl.Name.Name) {
			return false
		}
		info := bc.fb.Pkg.TypesInfo
		self := info.Defs[bc.fb.Decl.Name]
		refs, inDual := 0, 0
		for _, f := range bc.fb.Pkg.Syntax {
			for _, d := range f.Decls {
				fd, ok := d.(*ast.FuncDecl)
				if !ok || fd.Body == nil {
					continue
				}
				ast.Inspect(fd.Body, func(x ast.Node) bool {
					if id, ok := x.(*ast.Ident); ok && info.Uses[id] == self {
						refs++
						if fd.Name.Name == "Dual" && fd.Recv == nil {
							inDual++
						}
					}
					return true
				})
			}
		}
		return refs > 0 && refs == inDual
	}
}
