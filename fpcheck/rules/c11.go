package rules

import (
	"go/ast"
	"go/types"

	"fpcheck/core"

	"golang.org/x/tools/go/packages"
)

func isInstanceType(t types.Type) bool {
	if isTypeclassRecv(t) || isNamed(t, "fp", "Clone") || isNamed(t, "fp", "Show") {
		return true
	}
	if isNamed(t, "lazy", "Eval") {
		if nt := namedOf(t); nt != nil && nt.TypeArgs().Len() == 1 {
			return isInstanceType(nt.TypeArgs().At(0))
		}
	}
	return false
}

func instanceParam(v *types.Var) bool { return isInstanceType(v.Type()) }

func anyDecl(p *packages.Package, fd *ast.FuncDecl, fn *types.Func) bool { return true }

func init() {
	register("C11", "structural conditions of lawful monoids and of Reduce/FoldMap", func(c *core.Ctx) {
		mp := []*packages.Package{c.Pkg("fp"), c.Pkg("monoid"), c.Pkg("semigroup")}
		Ident(c, "R-IDENT", mp)
		Name(c, "R-NAME")
		MustUse(c, "R-MUSTUSE", libPkgs(c), true, false)
		Acc(c, "R-ACC", []*packages.Package{c.Pkg("seq"), c.Pkg("iterator"), c.Pkg("list")})
		MonoidEmpty(c, "R-EMPTY", []*packages.Package{c.Pkg("seq"), c.Pkg("iterator"), c.Pkg("list")})
		Mirror(c, "R-MIRROR", []*packages.Package{c.Pkg("monoid"), c.Pkg("semigroup")}, map[string]bool{"Combine": true}, true,
			func(bc binClosure) bool { return bc.fb.Decl != nil && bc.fb.Decl.Name.Name == "Dual" }, 25)
		Rel(c, "R-REL", []*packages.Package{c.Pkg("monoid"), c.Pkg("semigroup")}, anyDecl, instanceParam, 200)
		NoSwap(c, "R-NOSWAP", []*packages.Package{c.Pkg("monoid"), c.Pkg("semigroup")})
		EmptyUsed(c, "R-EMPTYUSED", []*packages.Package{c.Pkg("monoid"), c.Pkg("fp")})
		PureCombine(c, "R-PURE-COMBINE", []*packages.Package{c.Pkg("monoid"), c.Pkg("semigroup")}, 3)
	})
}
