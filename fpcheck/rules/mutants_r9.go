package rules

// Mutants for the rules added after round 9 of the seeded changes (one firing and one silent variant per rule).

func init() {
	lessEqOld := "func (r LessFunc[T]) LessEq(a, b T) bool {\n	return r.Compare(a, b) <= 0\n}"
	cloneOld := "func (r CloneFunc[T]) Clone(t T) T {\n	return r(t)\n}"
	ciaOld := "func (r *CopyOnWriteMap[K, V]) ComputeIfAbsent(k K, f func() V) V {\n	return r.ComputeIf(k, func(V) bool {\n		return false\n	}, f)\n}"
	onSuccessOld := "func (r Future[T]) OnSuccess(cb func(success T), ctx ...Executor) {\n	r.OnComplete(func(try Try[T]) {"
	addMutants(
		Mutant{"C10", "lesseq-negation-unswapped", "typeclass.go", lessEqOld, "func (r LessFunc[T]) LessEq(a, b T) bool {\n	return !r(a, b)\n}", "R-NEGLESS/fp.LessFunc.LessEq", "¬(a<b) is a≥b"},
		Mutant{"C18", "clonefunc-nil-hands-argument-back", "typeclass.go", cloneOld, "func (r CloneFunc[T]) Clone(t T) T {\n	if r == nil {\n		return t\n	}\n	return r(t)\n}", "R-CLONEID/fp.CloneFunc.Clone", "a nil instance returns the original uncloned"},
		Mutant{"C09", "ptrgiven-compares-addresses", "eq/eq_op.go", "	return Ptr(lazy.Done(Given[T]()))", "	return Given[*T]()", "R-PTRIDENT/eq.PtrGiven", "== on pointers compares addresses"},
		Mutant{"C19", "computeifabsent-get-then-blind-updated", "mutable/copyonwrite.go", ciaOld, "func (r *CopyOnWriteMap[K, V]) ComputeIfAbsent(k K, f func() V) V {\n	if cur := r.Get(k); cur.IsDefined() {\n		return cur.Get()\n	}\n	nv := f()\n	r.Updated(k, nv)\n	return nv\n}", "R-CTA/mutable.CopyOnWriteMap.ComputeIfAbsent/check-then-act", "check outside the lock, blind write through Updated"},
		Mutant{"C05", "onsuccess-fast-path-falls-through", "future.go", onSuccessOld, "func (r Future[T]) OnSuccess(cb func(success T), ctx ...Executor) {\n	if r.IsCompleted() {\n		if v := r.Value(); v.IsSuccess() {\n			getExecutor(ctx...).ExecuteUnsafe(RunnableFunc(func() {\n				cb(v.Get())\n			}))\n		}\n	}\n	r.OnComplete(func(try Try[T]) {", "R-ONEDISPATCH/fp.Future.OnSuccess/cb", "fast path without return: the call-back is dispatched and registered"},
	)
	addSilent(
		Mutant{"C10", "lesseq-negation-swapped", "typeclass.go", lessEqOld, "func (r LessFunc[T]) LessEq(a, b T) bool {\n	return !r(b, a)\n}", "", "a≤b as ¬(b<a)"},
		Mutant{"C18", "clonefunc-through-local", "typeclass.go", cloneOld, "func (r CloneFunc[T]) Clone(t T) T {\n	cloned := r(t)\n	return cloned\n}", "", "result bound to a local first"},
		Mutant{"C19", "computeifabsent-optimistic-read-then-computeif", "mutable/copyonwrite.go", ciaOld, "func (r *CopyOnWriteMap[K, V]) ComputeIfAbsent(k K, f func() V) V {\n	if cur := r.Get(k); cur.IsDefined() {\n		return cur.Get()\n	}\n	return r.ComputeIf(k, func(V) bool {\n		return false\n	}, f)\n}", "", "optimistic read before a publisher that re-checks under the lock"},
		Mutant{"C05", "onsuccess-fast-path-with-return", "future.go", onSuccessOld, "func (r Future[T]) OnSuccess(cb func(success T), ctx ...Executor) {\n	if r.IsCompleted() {\n		if v := r.Value(); v.IsSuccess() {\n			getExecutor(ctx...).ExecuteUnsafe(RunnableFunc(func() {\n				cb(v.Get())\n			}))\n		}\n		return\n	}\n	r.OnComplete(func(try Try[T]) {", "", "fast path that returns: one hand-over per path"},
	)
}
