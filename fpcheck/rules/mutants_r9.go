package rules

// Mutants for the rules added after round 9 of the seeded changes (one firing and one silent variant per rule).

func init() {
	lessEqOld := "func (r LessFunc[T]) LessEq(a, b T) bool {\n	return r.Compare(a, b) <= 0\n}"
	cloneOld := "func (r CloneFunc[T]) Clone(t T) T {\n	return r(t)\n}"
	ciaOld := "func (r *CopyOnWriteMap[K, V]) ComputeIfAbsent(k K, f func() V) V {\n	return r.ComputeIf(k, func(V) bool {\n		return false\n	}, f)\n}"
	onSuccessOld := "func (r Future[T]) OnSuccess(cb func(success T), ctx ...Executor) {\n	r.OnComplete(func(try Try[T]) {"
	travOld := "	return FoldM(fp.IteratorOfSeq(sa), fp.Seq[R]{}, func(acc fp.Seq[R], a A) fp.Try[fp.Seq[R]] {\n		return Map(fa(a), acc.Add)\n	})\n}\n\nfunc TraverseSlice["
	travEager := "	tsr := make([]fp.Try[R], 0, len(sa))\n	for _, a := range sa {\n		tsr = append(tsr, fa(a))\n	}\n	return Map(Sequence(tsr), func(v []R) fp.Seq[R] { return v })\n}\n\nfunc TraverseSlice["
	travLoop := "	acc := make(fp.Seq[R], 0, len(sa))\n	for _, a := range sa {\n		t := fa(a)\n		if t.IsFailure() {\n			return Failure[fp.Seq[R]](t.Failed().Get())\n		}\n		acc = append(acc, t.Get())\n	}\n	return Success(acc)\n}\n\nfunc TraverseSlice["
	ifmOld := "		for r.HasNext() {\n			nextItr := mf(r.Next())\n			current = Some(nextItr)\n			if nextItr.HasNext() {\n				return true\n			}\n		}\n\n		return false\n	}\n\n	return MakeIterator(\n		hasNext,\n		func() T {\n			if hasNext() {\n				return current.Get().Next()"
	ifmBad := "		if !r.HasNext() {\n			return false\n		}\n		current = Some(mf(r.Next()))\n		return current.Get().HasNext()\n	}\n\n	return MakeIterator(\n		hasNext,\n		func() T {\n			if hasNext() {\n				return current.Get().Next()"
	ifmGood := "		for {\n			if !r.HasNext() {\n				return false\n			}\n			current = Some(mf(r.Next()))\n			if current.Get().HasNext() {\n				return true\n			}\n		}\n	}\n\n	return MakeIterator(\n		hasNext,\n		func() T {\n			if hasNext() {\n				return current.Get().Next()"
	lfmOld := "\tmappedHeadLazy := lazy.Call(func() fp.List[U] {\n\t\treturn fn(opt.Head())\n\t})\n\n\ttail := opt.Tail()\n\n\treturn fp.MakeList(\n\t\tfunc() fp.Option[U] {\n\t\t\theadList := mappedHeadLazy.Get()\n\n\t\t\tif headList.IsEmpty() {\n\t\t\t\treturn Head(FlatMap(tail, fn))\n\t\t\t}\n\n\t\t\treturn fp.Some(headList.Head())\n\t\t},\n\t\tfunc() fp.List[U] {\n\t\t\theadList := mappedHeadLazy.Get()\n"
	lfmBad := "\tmappedHeadLazy := lazy.Func1(fn)\n\n\ttail := opt.Tail()\n\n\treturn fp.MakeList(\n\t\tfunc() fp.Option[U] {\n\t\t\theadList := mappedHeadLazy(opt.Head()).Get()\n\n\t\t\tif headList.IsEmpty() {\n\t\t\t\treturn Head(FlatMap(tail, fn))\n\t\t\t}\n\n\t\t\treturn fp.Some(headList.Head())\n\t\t},\n\t\tfunc() fp.List[U] {\n\t\t\theadList := mappedHeadLazy(opt.Head()).Get()\n"
	lfmGood := "\tapplyToHead := func() fp.List[U] {\n\t\treturn fn(opt.Head())\n\t}\n\tmappedHeadLazy := lazy.Call(applyToHead)\n\n\ttail := opt.Tail()\n\n\treturn fp.MakeList(\n\t\tfunc() fp.Option[U] {\n\t\t\theadList := mappedHeadLazy.Get()\n\n\t\t\tif headList.IsEmpty() {\n\t\t\t\treturn Head(FlatMap(tail, fn))\n\t\t\t}\n\n\t\t\treturn fp.Some(headList.Head())\n\t\t},\n\t\tfunc() fp.List[U] {\n\t\t\theadList := mappedHeadLazy.Get()\n"
	addMutants(
		Mutant{"C16", "list-flatmap-wrapper-called-by-both-thunks", "list/list_op.go", lfmOld, lfmBad, "R-USERONCE/list.FlatMap", "lazy.Func1(fn) applied in the head and in the tail thunk: a fresh memo each time"},
		Mutant{"C02", "traverseseq-maps-then-sequences", "try/try_traverse.go", travOld, travEager, "R-LOOPSTOP/try.TraverseSeq", "the step function runs for every element before any result is looked at"},
		Mutant{"C20", "iterator-flatmap-single-step", "iterator.go", ifmOld, ifmBad, "R-SKIPEMPTY/fp.Iterator.FlatMap", "an empty inner iterator ends the answer"},
		Mutant{"C10", "lesseq-negation-unswapped", "typeclass.go", lessEqOld, "func (r LessFunc[T]) LessEq(a, b T) bool {\n	return !r(a, b)\n}", "R-NEGLESS/fp.LessFunc.LessEq", "¬(a<b) is a≥b"},
		Mutant{"C18", "clonefunc-nil-hands-argument-back", "typeclass.go", cloneOld, "func (r CloneFunc[T]) Clone(t T) T {\n	if r == nil {\n		return t\n	}\n	return r(t)\n}", "R-CLONEID/fp.CloneFunc.Clone", "a nil instance returns the original uncloned"},
		Mutant{"C09", "ptrgiven-compares-addresses", "eq/eq_op.go", "	return Ptr(lazy.Done(Given[T]()))", "	return Given[*T]()", "R-PTRIDENT/eq.PtrGiven", "== on pointers compares addresses"},
		Mutant{"C19", "computeifabsent-get-then-blind-updated", "mutable/copyonwrite.go", ciaOld, "func (r *CopyOnWriteMap[K, V]) ComputeIfAbsent(k K, f func() V) V {\n	if cur := r.Get(k); cur.IsDefined() {\n		return cur.Get()\n	}\n	nv := f()\n	r.Updated(k, nv)\n	return nv\n}", "R-CTA/mutable.CopyOnWriteMap.ComputeIfAbsent/check-then-act", "check outside the lock, blind write through Updated"},
		Mutant{"C05", "onsuccess-fast-path-falls-through", "future.go", onSuccessOld, "func (r Future[T]) OnSuccess(cb func(success T), ctx ...Executor) {\n	if r.IsCompleted() {\n		if v := r.Value(); v.IsSuccess() {\n			getExecutor(ctx...).ExecuteUnsafe(RunnableFunc(func() {\n				cb(v.Get())\n			}))\n		}\n	}\n	r.OnComplete(func(try Try[T]) {", "R-ONEDISPATCH/fp.Future.OnSuccess/cb", "fast path without return: the call-back is dispatched and registered"},
	)
	addSilent(
		Mutant{"C16", "list-flatmap-thunk-bound-to-local", "list/list_op.go", lfmOld, lfmGood, "", "the memoised computation bound to a local before lazy.Call"},
		Mutant{"C02", "traverseseq-explicit-loop-with-early-return", "try/try_traverse.go", travOld, travLoop, "", "plain loop that leaves at the first failure"},
		Mutant{"C20", "iterator-flatmap-endless-for", "iterator.go", ifmOld, ifmGood, "", "for { … } with the exhaustion test inside"},
		Mutant{"C10", "lesseq-negation-swapped", "typeclass.go", lessEqOld, "func (r LessFunc[T]) LessEq(a, b T) bool {\n	return !r(b, a)\n}", "", "a≤b as ¬(b<a)"},
		Mutant{"C18", "clonefunc-through-local", "typeclass.go", cloneOld, "func (r CloneFunc[T]) Clone(t T) T {\n	cloned := r(t)\n	return cloned\n}", "", "result bound to a local first"},
		Mutant{"C19", "computeifabsent-optimistic-read-then-computeif", "mutable/copyonwrite.go", ciaOld, "func (r *CopyOnWriteMap[K, V]) ComputeIfAbsent(k K, f func() V) V {\n	if cur := r.Get(k); cur.IsDefined() {\n		return cur.Get()\n	}\n	return r.ComputeIf(k, func(V) bool {\n		return false\n	}, f)\n}", "", "optimistic read before a publisher that re-checks under the lock"},
		Mutant{"C05", "onsuccess-fast-path-with-return", "future.go", onSuccessOld, "func (r Future[T]) OnSuccess(cb func(success T), ctx ...Executor) {\n	if r.IsCompleted() {\n		if v := r.Value(); v.IsSuccess() {\n			getExecutor(ctx...).ExecuteUnsafe(RunnableFunc(func() {\n				cb(v.Get())\n			}))\n		}\n		return\n	}\n	r.OnComplete(func(try Try[T]) {", "", "fast path that returns: one hand-over per path"},
	)
}
