package rules

import (
	"go/ast"
	"go/types"

	"fpcheck/core"

	"golang.org/x/tools/go/packages"
)

func init() {
	register("C17", "state threading in StateT bodies", func(c *core.Ctx) {
		pkgs := []*packages.Package{c.Pkg("fp"), c.Pkg("statet")}
		Stale(c, "R-STALE", pkgs, 25, 15)
		Rerunnable(c, "R-RERUNNABLE", pkgs, 25)
		FailStop(c, "R-FAILSTOP", pkgs, 1)
		FailState(c, "R-FAILSTATE", pkgs, 1)
		RunOnce(c, "R-RUNONCE", c.Pkg("fp"), 10)
		// state flows left to right: the StateT operands of a combinator are run / consulted in declaration order
		EffOrder(c, "R-EFFORDER", []*packages.Package{c.Pkg("statet")}, 20)
		Rel(c, "R-REL", []*packages.Package{c.Pkg("statet")}, func(p *packages.Package, fd *ast.FuncDecl, fn *types.Func) bool { return true }, nil, 100)
		Rel(c, "R-REL", []*packages.Package{c.Pkg("fp")}, func(p *packages.Package, fd *ast.FuncDecl, fn *types.Func) bool {
			sig := fn.Type().(*types.Signature)
			return sig.Recv() != nil && isNamed(sig.Recv().Type(), "fp", "StateT")
		}, nil, 10)
	})
}
