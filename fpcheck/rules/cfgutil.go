package rules

// Shared go/cfg helper: guarded reachability.

import (
	"go/ast"
	"go/token"

	"golang.org/x/tools/go/cfg"
)

// unguardedReach walks the CFG forward from just after node (blk, idx) and returns the first node satisfying target
// that can be reached without passing a node satisfying guard. A guard node ends the path it lies on (whichever
// branch is taken afterwards has examined the guarded value). Nodes satisfying both count as guards.
func unguardedReach(blk *cfg.Block, idx int, target, guard func(ast.Node) bool) ast.Node {
	seen := map[*cfg.Block]bool{}
	var found ast.Node
	var scan func(b *cfg.Block, from int)
	scan = func(b *cfg.Block, from int) {
		if found != nil {
			return
		}
		for k := from; k < len(b.Nodes); k++ {
			// go/cfg keeps a short-circuit condition as one node: its operands are evaluated left to right
			for _, nd := range condAtoms(b.Nodes[k]) {
				if guard(nd) {
					return
				}
				if target(nd) {
					found = nd
					return
				}
			}
		}
		for _, s := range b.Succs {
			if !seen[s] {
				seen[s] = true
				scan(s, 0)
			}
		}
	}
	scan(blk, idx+1)
	return found
}

// isCondNode: go/cfg records branch conditions (if/for/switch tags, operands of && and ||) as bare expressions.
func isCondNode(nd ast.Node) bool {
	_, isExpr := nd.(ast.Expr)
	return isExpr
}

// condAtoms splits a condition on && and || into its operands in evaluation order; other nodes are returned as they are.
func condAtoms(nd ast.Node) []ast.Node {
	e, ok := nd.(ast.Expr)
	if !ok {
		return []ast.Node{nd}
	}
	var out []ast.Node
	var walk func(x ast.Expr)
	walk = func(x ast.Expr) {
		x = ast.Unparen(x)
		if be, ok := x.(*ast.BinaryExpr); ok && (be.Op == token.LAND || be.Op == token.LOR) {
			walk(be.X)
			walk(be.Y)
			return
		}
		if ue, ok := x.(*ast.UnaryExpr); ok && ue.Op == token.NOT {
			if _, isBin := ast.Unparen(ue.X).(*ast.BinaryExpr); isBin {
				walk(ue.X)
				return
			}
		}
		out = append(out, x)
	}
	walk(e)
	return out
}
