package rules

// E4 (part) — accessor paths, R-MIRROR and R-LEX.

import (
	"go/ast"
	"go/token"
	"go/types"
	"strings"

	"fpcheck/core"

	"golang.org/x/tools/go/packages"
)

// binClosure is a function with exactly two parameters of identical type.
type binClosure struct {
	fb   *fnBody
	a, b types.Object
	res  types.Type // single result type or nil
}

func binClosures(c *core.Ctx, pkgs []*packages.Package) []binClosure {
	var out []binClosure
	for _, fb := range funcBodies(c, pkgs) {
		info := fb.Pkg.TypesInfo
		var objs []types.Object
		for _, f := range fb.Type.Params.List {
			for _, n := range f.Names {
				if o := info.Defs[n]; o != nil {
					objs = append(objs, o)
				}
			}
		}
		np := 0
		for _, f := range fb.Type.Params.List {
			if len(f.Names) == 0 {
				np++
			} else {
				np += len(f.Names)
			}
		}
		if np != 2 || len(objs) != 2 || !types.Identical(objs[0].Type(), objs[1].Type()) {
			continue
		}
		bc := binClosure{fb: fb, a: objs[0], b: objs[1]}
		if fb.Type.Results != nil && len(fb.Type.Results.List) == 1 && len(fb.Type.Results.List[0].Names) <= 1 {
			if tv, ok := info.Types[fb.Type.Results.List[0].Type]; ok {
				bc.res = tv.Type
			}
		}
		out = append(out, bc)
	}
	return out
}

// accessorPath renders e as an accessor path with its root parameter replaced by "#";
// it returns the root object, or nil if e is not an accessor path rooted at one of roots.
func accessorPath(info *types.Info, e ast.Expr, roots map[types.Object]bool) (types.Object, string) {
	mentionsRoot := func(x ast.Expr) bool {
		return nodeContains(x, true, func(n ast.Node) bool {
			id, ok := n.(*ast.Ident)
			return ok && roots[info.Uses[id]]
		})
	}
	switch x := ast.Unparen(e).(type) {
	case *ast.Ident:
		if o := info.Uses[x]; o != nil && roots[o] {
			return o, "#"
		}
	case *ast.SelectorExpr:
		if r, s := accessorPath(info, x.X, roots); r != nil {
			return r, s + "." + x.Sel.Name
		}
	case *ast.StarExpr:
		if r, s := accessorPath(info, x.X, roots); r != nil {
			return r, "*" + s
		}
	case *ast.IndexExpr:
		if mentionsRoot(x.Index) {
			return nil, ""
		}
		if r, s := accessorPath(info, x.X, roots); r != nil {
			return r, s + "[" + exprString(x.Index) + "]"
		}
	case *ast.CallExpr:
		if len(x.Args) == 0 {
			if sel, ok := ast.Unparen(x.Fun).(*ast.SelectorExpr); ok {
				if r, s := accessorPath(info, sel.X, roots); r != nil {
					return r, s + "." + sel.Sel.Name + "()"
				}
			}
		}
		if len(x.Args) == 1 && !mentionsRoot(x.Fun) {
			if r, s := accessorPath(info, x.Args[0], roots); r != nil {
				return r, exprString(x.Fun) + "(" + s + ")"
			}
		}
	}
	return nil, ""
}

var typeclassBinMethods = map[string]bool{"Eqv": true, "Less": true, "LessEq": true, "Compare": true, "Combine": true}

func isTypeclassRecv(t types.Type) bool {
	if t == nil {
		return false
	}
	for _, n := range []string{"Eq", "Ord", "Hashable", "Semigroup", "Monoid", "EqFunc", "LessFunc", "CompareFunc", "SemigroupFunc"} {
		if isNamed(t, "fp", n) {
			return true
		}
	}
	return false
}

// Mirror: component comparisons use the same accessor path on the two sides.
// ordered=true additionally requires the first argument to be rooted at the first parameter (Combine).
func Mirror(c *core.Ctx, rule string, pkgs []*packages.Package, methods map[string]bool, ordered bool, swapOK func(bc binClosure) bool, floor int) {
	c.Rule(rule, "in every binary closure func(a, b T), each component call inst.Eqv/Less/Compare/Combine(e1, e2) whose arguments are accessor paths rooted at the closure's parameters uses the two different parameters and the same path on both sides")
	n := 0
	for _, bc := range binClosures(c, pkgs) {
		info := bc.fb.Pkg.TypesInfo
		roots := map[types.Object]bool{bc.a: true, bc.b: true}
		// locals that name a part of an operand: h1, h2 := t1.Head(), t2.Head() / l1, …, lN := left.Unapply()
		type part struct {
			root types.Object
			path string
		}
		alias := map[types.Object]part{}
		inspectShallow(bc.fb.Body, func(x ast.Node) bool {
			as, ok := x.(*ast.AssignStmt)
			if !ok || as.Tok != token.DEFINE {
				return true
			}
			switch {
			case len(as.Lhs) == len(as.Rhs):
				for i, l := range as.Lhs {
					if r, pth := accessorPath(info, as.Rhs[i], roots); r != nil {
						if o := objOf(info, l); o != nil {
							alias[o] = part{r, pth}
						}
					}
				}
			case len(as.Rhs) == 1 && len(as.Lhs) > 1:
				if r, pth := accessorPath(info, as.Rhs[0], roots); r != nil {
					for i, l := range as.Lhs {
						if o := objOf(info, l); o != nil {
							alias[o] = part{r, pth + "#" + itoa(i+1)}
						}
					}
				}
			}
			return true
		})
		resolve := func(e ast.Expr) (types.Object, string) {
			if len(alias) > 0 {
				ext := map[types.Object]bool{bc.a: true, bc.b: true}
				for o := range alias {
					ext[o] = true
				}
				if r, pth := accessorPath(info, e, ext); r != nil {
					if pt, ok := alias[r]; ok {
						return pt.root, strings.Replace(pth, "#", "("+pt.path+")", 1)
					}
					return r, pth
				}
				return nil, ""
			}
			return accessorPath(info, e, roots)
		}
		k := 0
		inspectShallow(bc.fb.Body, func(x ast.Node) bool {
			call, ok := x.(*ast.CallExpr)
			if !ok || len(call.Args) != 2 {
				return true
			}
			sel, ok := ast.Unparen(call.Fun).(*ast.SelectorExpr)
			if !ok || !methods[sel.Sel.Name] {
				return true
			}
			tv, ok := info.Types[sel.X]
			if !ok || !isTypeclassRecv(tv.Type) {
				return true
			}
			k++
			key := bc.fb.Name + "/" + exprString(sel.X) + "." + sel.Sel.Name + "#" + itoa(k)
			r1, p1 := resolve(call.Args[0])
			r2, p2 := resolve(call.Args[1])
			if r1 == nil || r2 == nil {
				c.Add(rule, key, call.Pos(), core.Skipped, "arguments are not accessor paths of the closure parameters: "+exprString(call))
				return true
			}
			n++
			switch {
			case r1 == r2:
				c.Add(rule, key, call.Pos(), core.Violated, exprString(call)+" compares parameter "+r1.Name()+" with itself: the result does not depend on the other operand")
			case p1 != p2:
				c.Add(rule, key, call.Pos(), core.Violated, exprString(call)+" pairs different components ("+strings.ReplaceAll(p1, "#", r1.Name())+" vs "+strings.ReplaceAll(p2, "#", r2.Name())+"): not component-wise")
			case ordered && r1 != bc.a && !(swapOK != nil && swapOK(bc)):
				c.Add(rule, key, call.Pos(), core.Violated, exprString(call)+" combines the operands in swapped order (second parameter first)")
			case ordered && r1 == bc.a && swapOK != nil && swapOK(bc):
				c.Add(rule, key, call.Pos(), core.Violated, exprString(call)+" combines the operands in the original order although this instance is the order-reversing one (Dual)")
			default:
				c.Add(rule, key, call.Pos(), core.Discharged, "same accessor path on both operands")
			}
			return true
		})
	}
	c.Floor(rule, "mirrored component calls", n, floor)
}

// ---------------------------------------------------------------- R-LEX

// lessTest matches `if X.Less(e1, e2) { return true }` (no else) and returns the call.
func lessTest(info *types.Info, st ast.Stmt) *ast.CallExpr {
	is, ok := st.(*ast.IfStmt)
	if !ok || is.Else != nil || is.Init != nil || len(is.Body.List) != 1 {
		return nil
	}
	ret, ok := is.Body.List[0].(*ast.ReturnStmt)
	if !ok || len(ret.Results) != 1 || exprString(ret.Results[0]) != "true" {
		return nil
	}
	call, ok := ast.Unparen(is.Cond).(*ast.CallExpr)
	if !ok || len(call.Args) != 2 {
		return nil
	}
	if inst, m := lessInst(info, call); inst == "" || m != "Less" {
		return nil
	}
	return call
}

// lessInst recognises a component comparison: X.Less/Eqv/…(e1, e2) on a typeclass instance, or the direct call
// r(e1, e2) of a value of type fp.LessFunc. It returns the instance expression (printed) and the method ("Less" for a direct call).
func lessInst(info *types.Info, call *ast.CallExpr) (inst, method string) {
	if len(call.Args) != 2 {
		return "", ""
	}
	if sel, ok := ast.Unparen(call.Fun).(*ast.SelectorExpr); ok {
		if tv, ok := info.Types[sel.X]; ok && isTypeclassRecv(tv.Type) && typeclassBinMethods[sel.Sel.Name] {
			return exprString(sel.X), sel.Sel.Name
		}
		return "", ""
	}
	if tv, ok := info.Types[call.Fun]; ok && !tv.IsType() && isNamed(tv.Type, "fp", "LessFunc") {
		return exprString(call.Fun), "Less"
	}
	return "", ""
}

// isMirrorGuard: `if X.Less(e2, e1) { return false }` or `if !X.Eqv(..) { return false }` for the given test.
func isMirrorGuard(info *types.Info, st ast.Stmt, test *ast.CallExpr) bool {
	is, ok := st.(*ast.IfStmt)
	if !ok || len(is.Body.List) != 1 {
		return false
	}
	ret, ok := is.Body.List[0].(*ast.ReturnStmt)
	if !ok || len(ret.Results) != 1 || exprString(ret.Results[0]) != "false" {
		return false
	}
	cond := ast.Unparen(is.Cond)
	neg := false
	if u, ok := cond.(*ast.UnaryExpr); ok && u.Op == token.NOT {
		cond, neg = ast.Unparen(u.X), true
	}
	call, ok := cond.(*ast.CallExpr)
	if !ok || len(call.Args) != 2 {
		return false
	}
	inst, method := lessInst(info, call)
	tinst, _ := lessInst(info, test)
	if inst == "" || inst != tinst {
		return false
	}
	a1, a2 := exprString(test.Args[0]), exprString(test.Args[1])
	b1, b2 := exprString(call.Args[0]), exprString(call.Args[1])
	if !neg && method == "Less" {
		return b1 == a2 && b2 == a1
	}
	if neg && method == "Eqv" {
		return (b1 == a1 && b2 == a2) || (b1 == a2 && b2 == a1)
	}
	return false
}

func comparesComponent(info *types.Info, n ast.Node) bool {
	return nodeContains(n, true, func(x ast.Node) bool {
		call, ok := x.(*ast.CallExpr)
		if !ok {
			return false
		}
		inst, _ := lessInst(info, call)
		return inst != ""
	})
}

func Lex(c *core.Ctx, rule string, pkgs []*packages.Package) {
	c.Rule(rule, "in every Less closure, `if inst.Less(x_a, x_b) { return true }` that is followed by the comparison of further components (later statements or the next loop iteration) is first followed by the mirrored test inst.Less(x_b, x_a) ⇒ return false (or !Eqv ⇒ return false)")
	n := 0
	for _, bc := range binClosures(c, pkgs) {
		if bc.res == nil || !types.Identical(bc.res, types.Typ[types.Bool]) {
			continue
		}
		info := bc.fb.Pkg.TypesInfo
		k := 0
		var walk func(list []ast.Stmt, inLoop bool)
		walk = func(list []ast.Stmt, inLoop bool) {
			for i, st := range list {
				if test := lessTest(info, st); test != nil {
					k++
					key := bc.fb.Name + "/" + exprString(test) + "#" + itoa(k)
					rest := list[i+1:]
					more := inLoop
					guarded := false
					for _, r := range rest {
						if isMirrorGuard(info, r, test) {
							guarded = true
							break
						}
						if comparesComponent(info, r) {
							more = true
							break
						}
					}
					if !guarded && !more {
						// nothing else compared afterwards in this list: last component
						n++
						c.Add(rule, key, test.Pos(), core.Discharged, "last component test (nothing compared afterwards)")
						continue
					}
					n++
					if guarded {
						c.Add(rule, key, test.Pos(), core.Discharged, "mirrored test precedes the next component")
					} else {
						c.Add(rule, key, test.Pos(), core.Violated,
							"after `"+exprString(test)+"` fails the code goes on to compare further components without testing the mirrored `"+
								lexInstName(test)+"("+exprString(test.Args[1])+", "+exprString(test.Args[0])+")`: Less(a,b) and Less(b,a) can both hold")
					}
					continue
				}
				switch s := st.(type) {
				case *ast.SwitchStmt:
					// a tagless switch whose cases all return is the same if-chain written differently
					if s.Tag == nil {
						var chain, dflt []ast.Stmt
						ok := true
						for _, cc := range s.Body.List {
							cl := cc.(*ast.CaseClause)
							if cl.List == nil {
								dflt = cl.Body
								continue
							}
							if len(cl.List) != 1 || len(cl.Body) == 0 {
								ok = false
								break
							}
							if _, isRet := cl.Body[len(cl.Body)-1].(*ast.ReturnStmt); !isRet {
								ok = false
								break
							}
							chain = append(chain, &ast.IfStmt{If: cl.Pos(), Cond: cl.List[0], Body: &ast.BlockStmt{List: cl.Body}})
						}
						if ok {
							walk(append(append(chain, dflt...), list[i+1:]...), inLoop)
						}
					}
				case *ast.ForStmt:
					walk(s.Body.List, true)
				case *ast.RangeStmt:
					walk(s.Body.List, true)
				case *ast.BlockStmt:
					walk(s.List, inLoop)
				case *ast.IfStmt:
					walk(s.Body.List, inLoop)
					if eb, ok := s.Else.(*ast.BlockStmt); ok {
						walk(eb.List, inLoop)
					}
				}
			}
		}
		walk(bc.fb.Body.List, false)
	}
	c.Floor(rule, "component less tests", n, 20)
}

func lexInstName(test *ast.CallExpr) string {
	if sel, ok := ast.Unparen(test.Fun).(*ast.SelectorExpr); ok {
		return exprString(sel.X) + ".Less"
	}
	return exprString(test.Fun)
}
