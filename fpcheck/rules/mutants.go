package rules

// Checker self-test: source-level mutants applied through packages.Config.Overlay
// (no copy of /repo on disk). Each mutant replaces one anchored fragment of one
// file; the named rule must then report an obligation whose key contains Expect.
// A mutant whose anchor text is no longer present is skipped and counted — edits
// to /repo can therefore never make the self-test raise an alarm.

type Mutant struct {
	Prop   string
	Name   string
	File   string // relative to the repository root
	Old    string
	New    string
	Expect string // substring of the violated obligation key
	Why    string
}

// MutantExtra: optional second replacement in the same file (e.g. an added import), keyed by "Prop/Name".
var MutantExtra = map[string][2]string{}

var Mutants = []Mutant{}

func addMutants(ms ...Mutant) { Mutants = append(Mutants, ms...) }

func MutantsFor(prop string) []Mutant {
	var out []Mutant
	for _, m := range Mutants {
		if m.Prop == prop {
			out = append(out, m)
		}
	}
	return out
}

// SilentMutants are behaviour-preserving rewrites: the property still holds, so the named
// property's rules must stay silent on them (Expect is unused). They guard against rules
// that key on today's spelling of the code.
var SilentMutants = []Mutant{}

func addSilent(ms ...Mutant) { SilentMutants = append(SilentMutants, ms...) }

func SilentFor(prop string) []Mutant {
	var out []Mutant
	for _, m := range SilentMutants {
		if m.Prop == prop {
			out = append(out, m)
		}
	}
	return out
}
