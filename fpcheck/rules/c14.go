package rules

// C14 — R-FREE: generated arity families lie in the parametric linear fragment; R-ARITY: directive ↔ members.

import (
	"go/ast"
	"go/constant"
	"go/token"
	"go/types"
	"regexp"
	"sort"
	"strconv"
	"strings"

	"fpcheck/core"

	"golang.org/x/tools/go/packages"
)

func init() {
	register("C14", "arity families: parametric linear fragment (routing forced by pairwise distinct type parameters) and directive/member coverage", func(c *core.Ctx) {
		Free(c, "R-FREE", libPkgs(c))
		Arity(c, "R-ARITY", libPkgs(c))
		// the typeclass TupleN families: routing is forced by types, use and order of the component instances is not
		tc := []*packages.Package{c.Pkg("eq"), c.Pkg("ord"), c.Pkg("hash"), c.Pkg("monoid"), c.Pkg("clone")}
		Rel(c, "R-REL", tc, func(p *packages.Package, fd *ast.FuncDecl, fn *types.Func) bool {
			return famRe.MatchString(fd.Name.Name)
		}, instanceParam, 800)
		Mirror(c, "R-MIRROR", tc, typeclassBinMethods, false, nil, 150)
		Lex(c, "R-LEX", []*packages.Package{c.Pkg("ord")})
		Sibling(c, "R-SIBLING", libPkgs(c), 500)
		// Combine is not commutative: the N-ary instance keeps the operand order at every position (monoid.Dual is the one reverser)
		Mirror(c, "R-COMBINE-ORDER", []*packages.Package{c.Pkg("monoid"), c.Pkg("semigroup")}, map[string]bool{"Combine": true}, true,
			dualExempt(c), 25)
	})
}

var famRe = regexp.MustCompile(`^([A-Za-z_]+?)([0-9]+)$`)

func containsTypeParam(t types.Type, depth int) bool {
	if depth > 8 {
		return false
	}
	switch x := t.(type) {
	case *types.TypeParam:
		return true
	case *types.Named:
		for i := 0; i < x.TypeArgs().Len(); i++ {
			if containsTypeParam(x.TypeArgs().At(i), depth+1) {
				return true
			}
		}
	case *types.Pointer:
		return containsTypeParam(x.Elem(), depth+1)
	case *types.Slice:
		return containsTypeParam(x.Elem(), depth+1)
	case *types.Signature:
		for i := 0; i < x.Params().Len(); i++ {
			if containsTypeParam(x.Params().At(i).Type(), depth+1) {
				return true
			}
		}
		for i := 0; i < x.Results().Len(); i++ {
			if containsTypeParam(x.Results().At(i).Type(), depth+1) {
				return true
			}
		}
	}
	return false
}

func Free(c *core.Ctx, rule string, pkgs []*packages.Package) {
	c.Rule(rule, "every generated arity member <Family><N>: (a) value parameters of bare type-parameter type have pairwise distinct type parameters; (b) the body fabricates no value (no zero-initialised variable of a parametric type, *new(T), fp.Zero), uses no type assertion/switch, reflect or panic and no loop; (c) every named positional parameter of the function and of its literals is used (duplication without a drop cannot type-check once (a) holds); (d) it calls its own family only at a strictly smaller arity. With (a)–(d) the type checker forces 'argument i reaches position i; nothing dropped, duplicated or reordered'")
	nFn := 0
	families := map[string]int{}
	for _, p := range pkgs {
		info := p.TypesInfo
		// families that have generated members in this package; their hand-written base cases are members too
		genFam := map[string]bool{}
		for _, f := range p.Syntax {
			if !isGenerated(f) {
				continue
			}
			for _, d := range f.Decls {
				if fd, ok := d.(*ast.FuncDecl); ok {
					if m := famRe.FindStringSubmatch(fd.Name.Name); m != nil {
						genFam[m[1]] = true
					}
				}
			}
		}
		for _, f := range p.Syntax {
			generated := isGenerated(f)
			usesReflect := false
			for _, im := range f.Imports {
				if im.Path.Value == `"reflect"` || im.Path.Value == `"unsafe"` {
					usesReflect = true
				}
			}
			for _, d := range f.Decls {
				fd, ok := d.(*ast.FuncDecl)
				if !ok || fd.Body == nil {
					continue
				}
				m := famRe.FindStringSubmatch(fd.Name.Name)
				if m == nil || (!generated && !genFam[m[1]]) {
					continue
				}
				fam, arity := m[1], atoi(m[2])
				name := c.FuncName(p, fd)
				nFn++
				families[core.ShortPkg(p.PkgPath)+"."+fam]++
				var problems []string
				var ppos token.Pos
				add := func(pos token.Pos, s string) {
					if len(problems) == 0 {
						ppos = pos
					}
					problems = append(problems, s)
				}
				if usesReflect && nodeContains(fd.Body, true, func(x ast.Node) bool {
					if sel, ok := x.(*ast.SelectorExpr); ok {
						if id, ok := sel.X.(*ast.Ident); ok {
							if pn, ok := info.Uses[id].(*types.PkgName); ok && (pn.Imported().Path() == "reflect" || pn.Imported().Path() == "unsafe") {
								return true
							}
						}
					}
					return false
				}) {
					add(fd.Pos(), "uses reflect/unsafe")
				}
				// (a) distinct type parameters among bare type-parameter value parameters (per parameter list)
				checkDistinct := func(ft *ast.FuncType) {
					seen := map[*types.TypeParam]string{}
					for _, fl := range ft.Params.List {
						for _, nm := range fl.Names {
							if v, ok := info.Defs[nm].(*types.Var); ok {
								if tp, ok := v.Type().(*types.TypeParam); ok {
									if other, dup := seen[tp]; dup {
										add(nm.Pos(), "parameters "+other+" and "+nm.Name+" share the type parameter "+tp.Obj().Name()+": their routing is not forced by types")
									}
									seen[tp] = nm.Name
								}
							}
						}
					}
				}
				checkDistinct(fd.Type)
				// (c) parameter use counts
				uses := map[types.Object]int{}
				ast.Inspect(fd.Body, func(x ast.Node) bool {
					if id, ok := x.(*ast.Ident); ok {
						if o := info.Uses[id]; o != nil {
							uses[o]++
						}
					}
					return true
				})
				var fnSig *types.Signature
				if fo, ok := info.Defs[fd.Name].(*types.Func); ok {
					fnSig = fo.Type().(*types.Signature)
				}
				checkParams := func(ft *ast.FuncType, where string) {
					for _, fl := range ft.Params.List {
						for _, nm := range fl.Names {
							if nm.Name == "_" {
								continue
							}
							v, _ := info.Defs[nm].(*types.Var)
							if v == nil {
								continue
							}
							if fl.Type != nil {
								if _, variadic := fl.Type.(*ast.Ellipsis); variadic {
									continue // trailing option list (…fp.Executor), not a positional argument
								}
							}
							if tp, ok := v.Type().(*types.TypeParam); ok && fnSig != nil && typeParamOccurrences(fnSig, tp) == 1 {
								continue // a type parameter occurring nowhere else: the value cannot reach any position (IdN by definition)
							}
							if st, ok := v.Type().Underlying().(*types.Struct); ok && st.NumFields() == 0 {
								continue // fp.Unit and other empty structs carry no information
							}
							if uses[v] == 0 {
								add(nm.Pos(), where+"parameter "+nm.Name+" is never used (dropped)")
							}
						}
					}
				}
				checkParams(fd.Type, "")
				// (b), (d)
				// `var ret Tuple[A, B]` followed at once by one assignment to each of its fields is a composite literal
				// written out: nothing of the zero value survives
				fullyInit := map[types.Object]bool{}
				ast.Inspect(fd.Body, func(x ast.Node) bool {
					blk, ok := x.(*ast.BlockStmt)
					if !ok {
						return true
					}
					for i, st := range blk.List {
						ds, ok := st.(*ast.DeclStmt)
						if !ok {
							continue
						}
						gd, ok := ds.Decl.(*ast.GenDecl)
						if !ok || len(gd.Specs) != 1 {
							continue
						}
						vs, ok := gd.Specs[0].(*ast.ValueSpec)
						if !ok || len(vs.Values) != 0 || len(vs.Names) != 1 {
							continue
						}
						v, _ := info.Defs[vs.Names[0]].(*types.Var)
						if v == nil {
							continue
						}
						stt, ok := v.Type().Underlying().(*types.Struct)
						if !ok || stt.NumFields() == 0 {
							continue
						}
						assigned := map[string]bool{}
						good := true
						for j := i + 1; j < len(blk.List) && len(assigned) < stt.NumFields(); j++ {
							as, ok := blk.List[j].(*ast.AssignStmt)
							if !ok || as.Tok != token.ASSIGN || len(as.Lhs) != 1 || len(as.Rhs) != 1 {
								good = false
								break
							}
							sel, ok := as.Lhs[0].(*ast.SelectorExpr)
							if !ok || objOf(info, sel.X) != types.Object(v) || assigned[sel.Sel.Name] {
								good = false
								break
							}
							if nodeContains(as.Rhs[0], true, func(y ast.Node) bool {
								id, ok := y.(*ast.Ident)
								return ok && info.Uses[id] == types.Object(v)
							}) {
								good = false
								break
							}
							assigned[sel.Sel.Name] = true
						}
						if good && len(assigned) == stt.NumFields() {
							fullyInit[v] = true
						}
					}
					return true
				})
				ast.Inspect(fd.Body, func(x ast.Node) bool {
					switch s := x.(type) {
					case *ast.FuncLit:
						checkDistinct(s.Type)
						checkParams(s.Type, "literal ")
					case *ast.ForStmt, *ast.RangeStmt:
						add(s.Pos(), "contains a loop")
					case *ast.TypeAssertExpr, *ast.TypeSwitchStmt:
						add(s.Pos(), "contains a type assertion / type switch")
					case *ast.ValueSpec:
						if len(s.Values) == 0 {
							for _, nm := range s.Names {
								if v, ok := info.Defs[nm].(*types.Var); ok && containsTypeParam(v.Type(), 0) && !fullyInit[v] {
									add(nm.Pos(), "declares zero-initialised "+nm.Name+" of parametric type "+v.Type().String()+" (fabricated value)")
								}
							}
						}
					case *ast.CallExpr:
						if isBuiltinCall(info, s, "panic") {
							add(s.Pos(), "calls panic")
						}
						if isBuiltinCall(info, s, "new") {
							if tv, ok := info.Types[s]; ok && containsTypeParam(tv.Type, 0) {
								add(s.Pos(), "new(T) of a parametric type (fabricated value)")
							}
						}
						if callee := calleeOf(info, s); callee != nil {
							if funcIs(callee, "fp", "Zero") {
								add(s.Pos(), "calls fp.Zero (fabricated value)")
							}
							if callee.Pkg() == p.Types {
								if cm := famRe.FindStringSubmatch(callee.Name()); cm != nil && cm[1] == fam {
									sameRecv := (callee.Type().(*types.Signature).Recv() == nil) == (fd.Recv == nil)
									if sameRecv && atoi(cm[2]) >= arity {
										add(s.Pos(), "calls "+callee.Name()+" of its own family at arity ≥ "+itoa(arity)+" (not well-founded)")
									}
								}
							}
						}
					case *ast.Ident:
						if s.Name == "nil" {
							if _, isNil := info.Uses[s].(*types.Nil); isNil {
								if tv, ok := info.Types[s]; ok && containsTypeParam(tv.Type, 0) {
									// nil of a parametric container type
								}
							}
						}
					}
					return true
				})
				if len(problems) == 0 {
					c.Add(rule, name, fd.Pos(), core.Discharged, "in the parametric linear fragment")
				} else {
					c.Add(rule, name, ppos, core.Violated, name+" (arity "+itoa(arity)+" of family "+fam+") leaves the parametric linear fragment: "+strings.Join(problems, "; "))
				}
			}
		}
	}
	var fams []string
	for f, n := range families {
		fams = append(fams, f+"×"+itoa(n))
	}
	sort.Strings(fams)
	c.Table(rule+".families", fams...)
	c.Floor(rule, "generated arity members", nFn, 700)
	c.Floor(rule, "families", len(families), 60)
}

func atoi(s string) int { n, _ := strconv.Atoi(s); return n }

var tmplNameRe = regexp.MustCompile(`(?m)^\s*func\s+(?:\([^)]*\)\s*)?([A-Za-z_]+)\{\{\s*\.N\s*\}\}`)
var tmplTypeRe = regexp.MustCompile(`(?m)^\s*type\s+([A-Za-z_]+)\{\{\s*\.N\s*\}\}`)

// Arity: each GenerateFromUntil directive's members exist for exactly the arities From..Until-1.
func Arity(c *core.Ctx, rule string, pkgs []*packages.Package) {
	c.Rule(rule, "for every GenerateFromUntil directive and every family `func Name{{.N}}` / `type Name{{.N}}` its template declares, the package declares Name<N> for exactly N = From … Until-1 (constants resolved through go/types): no member silently missing, none left over")
	n := 0
	for _, p := range pkgs {
		info := p.TypesInfo
		declared := map[string]bool{}
		for _, f := range p.Syntax {
			for _, d := range f.Decls {
				switch x := d.(type) {
				case *ast.FuncDecl:
					key := x.Name.Name
					if x.Recv != nil {
						key = "method:" + key
					}
					declared[key] = true
				case *ast.GenDecl:
					for _, sp := range x.Specs {
						if ts, ok := sp.(*ast.TypeSpec); ok {
							declared["type:"+ts.Name.Name] = true
						}
					}
				}
			}
		}
		for _, f := range p.Syntax {
			ast.Inspect(f, func(x ast.Node) bool {
				cl, ok := x.(*ast.CompositeLit)
				if !ok {
					return true
				}
				tv, ok := info.Types[cl]
				if !ok || !isNamed(tv.Type, "genfp", "GenerateFromUntil") {
					return true
				}
				var from, until int64 = -1, -1
				file, tmpl := "", ""
				for _, el := range cl.Elts {
					kv, ok := el.(*ast.KeyValueExpr)
					if !ok {
						continue
					}
					vt := info.Types[kv.Value]
					switch exprString(kv.Key) {
					case "From":
						if vt.Value != nil {
							from, _ = constant.Int64Val(vt.Value)
						}
					case "Until":
						if vt.Value != nil {
							until, _ = constant.Int64Val(vt.Value)
						}
					case "File":
						if vt.Value != nil {
							file = constant.StringVal(vt.Value)
						}
					case "Template":
						if vt.Value != nil {
							tmpl = constant.StringVal(vt.Value)
						}
					}
				}
				if from < 0 || until < 0 || tmpl == "" {
					return true
				}
				check := func(kind, fam string) {
					n++
					key := core.ShortPkg(p.PkgPath) + "/" + file + "/" + kind + fam
					var missing, extra []string
					for N := from; N < until; N++ {
						if !declared[kind+fam+itoa(int(N))] && !(kind == "" && declared["method:"+fam+itoa(int(N))]) {
							missing = append(missing, itoa(int(N)))
						}
					}
					// left-overs just outside the range
					for _, N := range []int64{until, until + 1} {
						if N >= 1 && (declared[kind+fam+itoa(int(N))]) && !declaredElsewhere(c, p, fam+itoa(int(N)), file) {
							extra = append(extra, itoa(int(N)))
						}
					}
					switch {
					case len(missing) > 0:
						c.Add(rule, key, cl.Pos(), core.Violated, "family "+fam+"N: directive prescribes N = "+itoa(int(from))+"…"+itoa(int(until-1))+" but "+fam+strings.Join(missing, ", "+fam)+" is not declared")
					case len(extra) > 0:
						c.Add(rule, key, cl.Pos(), core.Violated, "family "+fam+"N: "+fam+strings.Join(extra, ", "+fam)+" is declared in "+file+" although the directive stops at N = "+itoa(int(until-1))+" (committed code is not what the generator produces)")
					default:
						c.Add(rule, key, cl.Pos(), core.Discharged, "N = "+itoa(int(from))+"…"+itoa(int(until-1))+" all declared")
					}
				}
				seen := map[string]bool{}
				for _, m := range tmplNameRe.FindAllStringSubmatch(tmpl, -1) {
					if !seen[m[1]] {
						seen[m[1]] = true
						check("", m[1])
					}
				}
				for _, m := range tmplTypeRe.FindAllStringSubmatch(tmpl, -1) {
					if !seen["type:"+m[1]] {
						seen["type:"+m[1]] = true
						check("type:", m[1])
					}
				}
				return true
			})
		}
	}
	c.Floor(rule, "directive families", n, 40)
}

// declaredElsewhere: the member is declared in a file other than the directive's generated file (hand-written base case).
func declaredElsewhere(c *core.Ctx, p *packages.Package, name, genFile string) bool {
	for _, f := range p.Syntax {
		fname := c.Fset.Position(f.Pos()).Filename
		for _, d := range f.Decls {
			match := false
			switch x := d.(type) {
			case *ast.FuncDecl:
				match = x.Name.Name == name
			case *ast.GenDecl:
				for _, sp := range x.Specs {
					if ts, ok := sp.(*ast.TypeSpec); ok && ts.Name.Name == name {
						match = true
					}
				}
			}
			if match && !strings.HasSuffix(fname, "/"+genFile) {
				return true
			}
		}
	}
	return false
}
