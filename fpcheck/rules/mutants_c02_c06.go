package rules

func init() {
	addMutants(
		Mutant{"C02", "try-flatmap-foreign-error", "try/try_op.go", `	return Failure[B](ta.Failed().Get())`, `	return Failure[B](fp.ErrOptionEmpty)`, "try.FlatMap", "failure re-wrapped with a different error"},
		Mutant{"C02", "try-recover-handler-on-success", "try.go", `func (r Try[T]) Recover(f func(err error) T) Try[T] {
	if r.IsSuccess() {
		return r
	}`, `func (r Try[T]) Recover(f func(err error) T) Try[T] {
	if r.IsSuccess() {
		return Success(f(ErrTryNotFailed))
	}`, "fp.Try.Recover", "handler runs on success"},
		Mutant{"C02", "option-flatmap-cont-on-empty", "option.go", `func (r Option[T]) FlatMap(mf func(T) Option[T]) Option[T] {
	if r.IsDefined() {
		return mf(r.v)
	}
	return r`, `func (r Option[T]) FlatMap(mf func(T) Option[T]) Option[T] {
	if r.IsDefined() {
		return mf(r.v)
	}
	return mf(r.v)`, "fp.Option.FlatMap", "continuation invoked on None"},
		Mutant{"C02", "foldtry-continues", "iterator/iterator_op.go", `		t := f(sum, s.Next())
		if t.IsSuccess() {
			sum = t.Get()
		} else {
			return t
		}
	}
	return fp.Success(sum)`, `		t := f(sum, s.Next())
		if t.IsSuccess() {
			sum = t.Get()
		} else {
			continue
		}
	}
	return fp.Success(sum)`, "iterator.FoldTry", "fold keeps going after a failed step"},
		Mutant{"C02", "apfunc-eager-supplier", "try/try_monad.go", `func ApFunc[A any, B any](tfab fp.Try[fp.Func1[A, B]], ta func() fp.Try[A]) fp.Try[B] {
	return FlatMap(tfab, func(fab fp.Func1[A, B]) fp.Try[B] {
		return Map(ta(), fab)
	})`, `func ApFunc[A any, B any](tfab fp.Try[fp.Func1[A, B]], ta func() fp.Try[A]) fp.Try[B] {
	a := ta()
	return FlatMap(tfab, func(fab fp.Func1[A, B]) fp.Try[B] {
		return Map(a, fab)
	})`, "try.ApFunc#ta", "supplier evaluated before the function operand is known to succeed"},
		Mutant{"C02", "try-of-normal-return-fails", "try/try_op.go", `func Of[T any](f func() T) (ret fp.Try[T]) {
	defer func() {
		if p := recover(); p != nil {
			ret = Failure[T](&panicError{p, debug.Stack()})
		}
	}()`, `func Of[T any](f func() T) (ret fp.Try[T]) {
	defer func() {
		p := recover()
		ret = Failure[T](&panicError{p, debug.Stack()})
	}()`, "try.Of", "handler overwrites a normal return"},
		Mutant{"C02", "try-call-drops-panic-value", "try/try_op.go", `func Call[T any](f func() (T, error)) (ret fp.Try[T]) {
	defer func() {
		if p := recover(); p != nil {
			ret = Failure[T](&panicError{p, debug.Stack()})
		}
	}()`, `func Call[T any](f func() (T, error)) (ret fp.Try[T]) {
	defer func() {
		if p := recover(); p != nil {
			ret = Failure[T](&panicError{nil, debug.Stack()})
		}
	}()`, "try.Call", "panic value not exposed"},
		Mutant{"C06", "future-map-drops-failure", "future.go", `		if t.IsSuccess() {
			np.Success(mf(t.Get()))
		} else {
			np.Failure(t.Failed().Get())
		}`, `		if t.IsSuccess() {
			np.Success(mf(t.Get()))
		}`, "fp.Future.Map#np", "failed source leaves the derived future incomplete"},
		Mutant{"C06", "flatmap-drops-inner-oncomplete", "future/future_op.go", `			fn(t.Get()).OnComplete(func(t fp.Try[U]) {
				np.Complete(t)
			}, ctx...)
		} else {
			np.Failure(t.Failed().Get())
		}`, `			fn(t.Get())
		} else {
			np.Failure(t.Failed().Get())
		}`, "future.FlatMap#np", "result of the continuation never forwarded"},
		Mutant{"C06", "recovercasewith-undefined-case", "future.go", `			} else {
				np.Failure(t.Failed().Get())
			}
		}
	}, ctx...)`, `			}
		}
	}, ctx...)`, "fp.Future.RecoverCaseWith#np", "error outside the partial function's domain leaves the future incomplete"},
		Mutant{"C06", "apply-no-recover", "future/future_op.go", `	getExecutor(ctx...).ExecuteUnsafe(fp.RunnableFunc(func() {
		defer func() {
			if err := recover(); err != nil {
				p.Failure(fp.PanicError(err))
			}
		}()

		result := f()
		p.Success(result)
	}))`, `	getExecutor(ctx...).ExecuteUnsafe(fp.RunnableFunc(func() {
		result := f()
		p.Success(result)
	}))`, "future.Apply/has-handler", "a panicking function leaves the future incomplete"},
		Mutant{"C06", "transformwith-conditional", "future/future_op.go", `		fn(t).OnComplete(func(t fp.Try[U]) {
			np.Complete(t)
		}, ctx...)
	}, ctx...)

	return np.Future()
}

func Flatten`, `		fn(t).OnComplete(func(t fp.Try[U]) {
			if t.IsSuccess() {
				np.Complete(t)
			}
		}, ctx...)
	}, ctx...)

	return np.Future()
}

func Flatten`, "future.TransformWith#np", "only successes are forwarded"},
	)
}
