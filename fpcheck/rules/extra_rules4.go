package rules

// Rules added after the seventh round of seeded changes.

import (
	"go/ast"
	"go/token"
	"go/types"
	"sort"

	"fpcheck/core"

	"golang.org/x/tools/go/cfg"
	"golang.org/x/tools/go/packages"
)

// EmptyUsed (C11): a combinator that builds a Monoid from Monoid instances lets the identity of every instance reach
// the result: the parameter's Empty is consulted, or the parameter is handed on as a Monoid. Handing it on only as a
// Semigroup (an implicit interface conversion that forgets Empty) leaves the result with a made-up identity.
func EmptyUsed(c *core.Ctx, rule string, pkgs []*packages.Package) {
	c.Rule(rule, "in a function that returns an fp.Monoid and takes fp.Monoid instances, every such parameter has a use that keeps its identity: a selection of Empty, or a use in a position whose type is fp.Monoid (argument, assignment, composite element) — not only positions typed fp.Semigroup / method values of Combine")
	n := 0
	for _, fb := range funcBodies(c, pkgs) {
		if fb.Lit != nil || fb.Decl.Recv != nil {
			continue
		}
		info := fb.Pkg.TypesInfo
		fn, _ := info.Defs[fb.Decl.Name].(*types.Func)
		if fn == nil {
			continue
		}
		sig := fn.Type().(*types.Signature)
		if sig.Results().Len() != 1 || !isNamed(sig.Results().At(0).Type(), "fp", "Monoid") {
			continue
		}
		for i := 0; i < sig.Params().Len(); i++ {
			p := sig.Params().At(i)
			if !isNamed(p.Type(), "fp", "Monoid") {
				continue
			}
			n++
			key := fb.Name + "/" + p.Name()
			keeps := false
			// parent map
			parent := map[ast.Node]ast.Node{}
			var stack []ast.Node
			ast.Inspect(fb.Body, func(x ast.Node) bool {
				if x == nil {
					stack = stack[:len(stack)-1]
					return false
				}
				if len(stack) > 0 {
					parent[x] = stack[len(stack)-1]
				}
				stack = append(stack, x)
				return true
			})
			ast.Inspect(fb.Body, func(x ast.Node) bool {
				id, ok := x.(*ast.Ident)
				if !ok || info.Uses[id] != types.Object(p) {
					return true
				}
				switch par := parent[id].(type) {
				case *ast.SelectorExpr:
					if par.X == id && par.Sel.Name == "Empty" {
						keeps = true
					}
				case *ast.CallExpr:
					for ai, a := range par.Args {
						if a != id {
							continue
						}
						if tv, ok := info.Types[par.Fun]; ok {
							if csig, ok := tv.Type.Underlying().(*types.Signature); ok {
								var pt types.Type
								switch {
								case csig.Variadic() && ai >= csig.Params().Len()-1:
									pt = csig.Params().At(csig.Params().Len() - 1).Type().(*types.Slice).Elem()
								case ai < csig.Params().Len():
									pt = csig.Params().At(ai).Type()
								}
								if pt != nil && isNamed(pt, "fp", "Monoid") {
									keeps = true
								}
							}
						}
					}
				case *ast.AssignStmt, *ast.KeyValueExpr, *ast.CompositeLit, *ast.ReturnStmt, *ast.ValueSpec:
					keeps = true // kept as a value (its static type stays fp.Monoid)
				}
				return true
			})
			if keeps {
				c.Add(rule, key, fb.Decl.Pos(), core.Discharged, "the instance's identity reaches the result")
			} else {
				c.Add(rule, key, fb.Decl.Pos(), core.Violated, "the Monoid instance "+p.Name()+" is used only as a Semigroup (its Empty is never consulted and it is never handed on as a Monoid): the result's Empty is not built from the component's identity, so Combine(Empty, x) ≠ x whenever that identity is not the zero value")
			}
		}
	}
	c.Floor(rule, "Monoid parameters of Monoid combinators", n, 10)
}

// InstPath (C18): a combinator that takes component instances returns, on every path, an instance built from them.
// A path that returns an instance built from nothing (Given / identity) drops the components' Clone for the inputs
// that take this path.
func InstPath(c *core.Ctx, rule string, p *packages.Package, result string) {
	c.Rule(rule, "in a combinator of package "+p.Name+" that takes component instances and returns fp."+result+", every return statement of the function itself mentions a component instance (or a local built from one): no path answers with an instance built without the components")
	info := p.TypesInfo
	n := 0
	for _, fb := range funcBodies(c, []*packages.Package{p}) {
		if fb.Lit != nil || fb.Decl.Recv != nil {
			continue
		}
		fn, _ := info.Defs[fb.Decl.Name].(*types.Func)
		if fn == nil {
			continue
		}
		sig := fn.Type().(*types.Signature)
		if sig.Results().Len() != 1 || !isNamed(sig.Results().At(0).Type(), "fp", result) {
			continue
		}
		derived := map[types.Object]bool{}
		for i := 0; i < sig.Params().Len(); i++ {
			if isInstanceType(sig.Params().At(i).Type()) {
				derived[sig.Params().At(i)] = true
			}
		}
		if len(derived) == 0 {
			continue
		}
		mentions := func(nd ast.Node) bool {
			return nodeContains(nd, true, func(x ast.Node) bool {
				id, ok := x.(*ast.Ident)
				return ok && derived[info.Uses[id]]
			})
		}
		for changed := true; changed; {
			changed = false
			ast.Inspect(fb.Body, func(x ast.Node) bool {
				if as, ok := x.(*ast.AssignStmt); ok && len(as.Lhs) == len(as.Rhs) {
					for i, l := range as.Lhs {
						if o := objOf(info, l); o != nil && !derived[o] && mentions(as.Rhs[i]) {
							derived[o] = true
							changed = true
						}
					}
				}
				if vs, ok := x.(*ast.ValueSpec); ok && len(vs.Names) == len(vs.Values) { // var ret fp.CloneFunc[…] = func…
					for i, nm := range vs.Names {
						if o := info.Defs[nm]; o != nil && !derived[o] && mentions(vs.Values[i]) {
							derived[o] = true
							changed = true
						}
					}
				}
				return true
			})
		}
		k := 0
		ast.Inspect(fb.Body, func(x ast.Node) bool {
			if _, ok := x.(*ast.FuncLit); ok {
				return false
			}
			ret, ok := x.(*ast.ReturnStmt)
			if !ok || len(ret.Results) != 1 {
				return true
			}
			k++
			n++
			key := fb.Name + "/return#" + itoa(k)
			if mentions(ret.Results[0]) {
				c.Add(rule, key, ret.Pos(), core.Discharged, "built from the component instances")
			} else {
				c.Add(rule, key, ret.Pos(), core.Violated, "this path returns "+exprString(ret.Results[0])+", an instance built without the component instances the combinator was given: for the inputs that take it the components' "+result+" is never applied")
			}
			return true
		})
	}
	c.Floor(rule, "returns of combinators with instances", n, 20)
}

// CallbackParam (C06): the literal registered with OnComplete on the future a combinator waits for consults the result
// it is called with. A named parameter that the body never mentions means the derived future is completed from
// something else in scope (typically the outer call-back's result after a renaming).
func CallbackParam(c *core.Ctx, rule string, pkgs []*packages.Package) {
	c.Rule(rule, "a function literal registered with Future.OnComplete that names its parameter mentions it in its body: the result delivered by the awaited future is what the call-back acts on (a call-back that ignores it on purpose declares the parameter as _)")
	n := 0
	for _, fb := range funcBodies(c, pkgs) {
		if fb.Lit != nil {
			continue
		}
		info := fb.Pkg.TypesInfo
		k := 0
		ast.Inspect(fb.Body, func(x ast.Node) bool {
			call, ok := x.(*ast.CallExpr)
			if !ok || len(call.Args) < 1 {
				return true
			}
			sel, ok := ast.Unparen(call.Fun).(*ast.SelectorExpr)
			if !ok || sel.Sel.Name != "OnComplete" {
				return true
			}
			if tv, ok := info.Types[sel.X]; !ok || !isNamed(tv.Type, "fp", "Future") {
				return true
			}
			lit := resolveLit(info, fb.Decl, call.Args[0])
			if lit == nil || lit.Type.Params.NumFields() != 1 || len(lit.Type.Params.List[0].Names) != 1 {
				return true
			}
			nm := lit.Type.Params.List[0].Names[0]
			if nm.Name == "_" {
				return true
			}
			k++
			n++
			key := fb.Name + "/OnComplete#" + itoa(k)
			po := info.Defs[nm]
			if nodeContains(lit.Body, true, func(y ast.Node) bool {
				id, ok := y.(*ast.Ident)
				return ok && info.Uses[id] == po
			}) {
				c.Add(rule, key, lit.Pos(), core.Discharged, "the call-back consults the delivered result")
			} else {
				c.Add(rule, key, lit.Pos(), core.Violated, "the call-back names its parameter "+nm.Name+" but never mentions it: what it does (completing the derived promise) does not depend on the result of the future it was registered on — the derived future reports something else in scope")
			}
			return true
		})
	}
	c.Floor(rule, "OnComplete call-back literals", n, 20)
}

// SupplyOnce (C02): a nullary supplier parameter (func() X) is a deferred operand: the combinator mentions it once —
// calling it, or handing it to one other combinator. Two mentions on one path run the supplier twice (or make two
// results that can disagree when the supplier is not pure).
func SupplyOnce(c *core.Ctx, rule string, pkgs []*packages.Package, floor int) {
	c.Rule(rule, "a parameter of type func() X of a combinator is mentioned at most once on any path of its body (each mention is a call or a hand-over that leads to one): a deferred operand is evaluated at most once")
	n := 0
	for _, fb := range funcBodies(c, pkgs) {
		if fb.Lit != nil {
			continue
		}
		info := fb.Pkg.TypesInfo
		for _, f := range fb.Type.Params.List {
			for _, nm := range f.Names {
				po := info.Defs[nm]
				if po == nil {
					continue
				}
				sig, ok := po.Type().Underlying().(*types.Signature)
				if !ok || sig.Params().Len() != 0 || sig.Results().Len() != 1 {
					continue
				}
				if _, named := po.Type().(*types.Named); named {
					continue // named function types (lazy.Eval-like wrappers) have their own discipline
				}
				n++
				key := fb.Name + "/" + nm.Name
				// maximal number of mentions along one path: branches of if/switch/select count by their maximum
				var count func(nd ast.Node) int
				countList := func(l []ast.Stmt) int {
					t := 0
					for _, s := range l {
						t += count(s)
					}
					return t
				}
				count = func(nd ast.Node) int {
					switch s := nd.(type) {
					case nil:
						return 0
					case *ast.Ident:
						if info.Uses[s] == po {
							return 1
						}
						return 0
					case *ast.BinaryExpr:
						if (s.Op == token.EQL || s.Op == token.NEQ) && (isNilIdent(info, s.X) || isNilIdent(info, s.Y)) {
							return 0 // a nil test of the supplier evaluates nothing
						}
					case *ast.AssignStmt:
						// overwriting the parameter (f = nil to release the thunk) evaluates nothing
						t := 0
						for _, l := range s.Lhs {
							if id, ok := ast.Unparen(l).(*ast.Ident); ok && info.Uses[id] == po {
								continue
							}
							t += count(l)
						}
						for _, r := range s.Rhs {
							t += count(r)
						}
						return t
					case *ast.IfStmt:
						t := count(s.Init) + count(s.Cond)
						a, b := count(s.Body), 0
						if s.Else != nil {
							b = count(s.Else)
						}
						if b > a {
							a = b
						}
						return t + a
					case *ast.BlockStmt:
						if s == nil {
							return 0
						}
						return countList(s.List)
					case *ast.SwitchStmt:
						t := count(s.Init) + count(s.Tag)
						m := 0
						for _, cc := range s.Body.List {
							cl := cc.(*ast.CaseClause)
							k := countList(cl.Body)
							for _, e := range cl.List {
								k += count(e)
							}
							if k > m {
								m = k
							}
						}
						return t + m
					case *ast.TypeSwitchStmt:
						t := count(s.Init) + count(s.Assign)
						m := 0
						for _, cc := range s.Body.List {
							if k := countList(cc.(*ast.CaseClause).Body); k > m {
								m = k
							}
						}
						return t + m
					}
					t := 0
					ast.Inspect(nd, func(ch ast.Node) bool {
						if ch == nd || ch == nil {
							return ch == nd
						}
						t += count(ch)
						return false
					})
					return t
				}
				if k := count(fb.Body); k <= 1 {
					c.Add(rule, key, nm.Pos(), core.Discharged, "mentioned at most once on any path")
				} else {
					c.Add(rule, key, nm.Pos(), core.Violated, "the supplier "+nm.Name+" is mentioned "+itoa(k)+" times on one path of "+fb.Name+": the deferred operand is evaluated more than once (a side-effecting or non-deterministic supplier makes the parts of the result disagree)")
				}
			}
		}
	}
	c.Floor(rule, "nullary supplier parameters", n, floor)
}

// MinMax (C10, C12): Min and Max of seq, list and iterator select an element of the input, and the three siblings of
// each agree on which of two Ord-equal elements they keep.
func MinMax(c *core.Ctx, rule string, pkgs []*packages.Package) {
	c.Rule(rule, "Min/Max(collection, ord) of seq, list and iterator: (a) no made-up value (OrZero / fp.Zero) flows into a returned result — the answer is an element of the input; (b) the siblings of one name agree on the tie rule read off their selection step `if … ord.Less(x, y) … { return kept }` (negation parity of the Less test × whether the guarded return keeps the accumulator): Ord-equal but distinguishable elements give the same answer for every container")
	type shape struct {
		fb          *fnBody
		recognised  bool
		tieKeepsAcc bool
		pos         token.Pos
	}
	groups := map[string][]*shape{}
	n := 0
	for _, fb := range funcBodies(c, pkgs) {
		if fb.Lit != nil || fb.Decl.Recv != nil || (fb.Decl.Name.Name != "Min" && fb.Decl.Name.Name != "Max") {
			continue
		}
		info := fb.Pkg.TypesInfo
		fn, _ := info.Defs[fb.Decl.Name].(*types.Func)
		if fn == nil {
			continue
		}
		sig := fn.Type().(*types.Signature)
		if sig.Params().Len() != 2 || !isNamed(sig.Params().At(1).Type(), "fp", "Ord") || sig.Results().Len() != 1 || !isNamed(sig.Results().At(0).Type(), "fp", "Option") {
			continue
		}
		n++
		// (a) fabricated values in results
		var fab ast.Expr
		ast.Inspect(fb.Body, func(x ast.Node) bool {
			ret, ok := x.(*ast.ReturnStmt)
			if !ok {
				return true
			}
			for _, r := range ret.Results {
				// the outermost return hands over the fold's literal: look only at returns that carry a value expression
				if _, isCallWithLit := r.(*ast.CallExpr); isCallWithLit && nodeContains(r, false, func(y ast.Node) bool { _, l := y.(*ast.FuncLit); return l }) {
					continue
				}
				ast.Inspect(r, func(y ast.Node) bool {
					if call, ok := y.(*ast.CallExpr); ok && fab == nil {
						if sel, ok := ast.Unparen(call.Fun).(*ast.SelectorExpr); ok && sel.Sel.Name == "OrZero" {
							fab = call
						}
						if funcIs(calleeOf(info, call), "fp", "Zero") {
							fab = call
						}
					}
					return true
				})
			}
			return true
		})
		if fab != nil {
			c.Add(rule, fb.Name+"/element", fab.Pos(), core.Violated, "the result is computed from "+exprString(fab)+", a made-up zero value that competes with the elements: when every element ranks on the other side of the zero value the answer is not an element of the input")
		} else {
			c.Add(rule, fb.Name+"/element", fb.Decl.Pos(), core.Discharged, "no made-up value in a result")
		}
		// (b) tie rule
		sh := &shape{fb: fb, pos: fb.Decl.Pos()}
		var steps []*ast.IfStmt
		ast.Inspect(fb.Body, func(x ast.Node) bool {
			if is, ok := x.(*ast.IfStmt); ok {
				steps = append(steps, is)
			}
			return true
		})
		if len(steps) == 1 && steps[0].Else == nil && len(steps[0].Body.List) > 0 {
			is := steps[0]
			var less []*ast.CallExpr
			neg := map[*ast.CallExpr]bool{}
			var walk func(e ast.Expr, negated bool)
			walk = func(e ast.Expr, negated bool) {
				e = ast.Unparen(e)
				switch x := e.(type) {
				case *ast.UnaryExpr:
					if x.Op == token.NOT {
						walk(x.X, !negated)
					}
				case *ast.BinaryExpr:
					if x.Op == token.LAND || x.Op == token.LOR {
						walk(x.X, negated)
						walk(x.Y, negated)
					}
				case *ast.CallExpr:
					if sel, ok := ast.Unparen(x.Fun).(*ast.SelectorExpr); ok && sel.Sel.Name == "Less" && len(x.Args) == 2 {
						if tv, ok := info.Types[sel.X]; ok && isNamed(tv.Type, "fp", "Ord") {
							less = append(less, x)
							neg[x] = negated
						}
					}
				}
			}
			walk(is.Cond, false)
			if ret, ok := is.Body.List[len(is.Body.List)-1].(*ast.ReturnStmt); ok && len(less) == 1 && len(ret.Results) == 1 {
				returnsAcc := false
				if id, ok := ast.Unparen(ret.Results[0]).(*ast.Ident); ok {
					if tv, ok := info.Types[id]; ok && isNamed(tv.Type, "fp", "Option") {
						returnsAcc = true
					}
				}
				sh.recognised = true
				sh.tieKeepsAcc = neg[less[0]] == returnsAcc
				sh.pos = less[0].Pos()
			}
		}
		groups[fb.Decl.Name.Name] = append(groups[fb.Decl.Name.Name], sh)
	}
	for name, g := range groups {
		keep, drop := 0, 0
		for _, s := range g {
			if s.recognised {
				if s.tieKeepsAcc {
					keep++
				} else {
					drop++
				}
			}
		}
		for _, s := range g {
			key := s.fb.Name + "/tie"
			switch {
			case !s.recognised:
				c.Add(rule, key, s.pos, core.Skipped, "selection step not of the recognised if-Less-return shape")
			case keep > 0 && drop > 0 && ((s.tieKeepsAcc && keep <= drop) || (!s.tieKeepsAcc && drop <= keep)):
				which := map[bool]string{true: "keeps the first of two Ord-equal elements", false: "keeps the last of two Ord-equal elements"}
				c.Add(rule, key, s.pos, core.Violated, s.fb.Name+" "+which[s.tieKeepsAcc]+" while its "+name+" siblings do the opposite: the lazy and eager containers answer differently for elements that are equal under the Ord but distinguishable")
			default:
				c.Add(rule, key, s.pos, core.Discharged, "agrees with its siblings on ties")
			}
		}
	}
	c.Floor(rule, "Min/Max functions", n, 6)
}

// StateKind (C05): the promise's status cell holds one of three kinds of value (nothing, the registered listeners, the
// result). Whoever reads it decides by the kind: the value read is type-switched / type-asserted. A read that is only
// compared with nil confuses "listeners registered" with "completed".
func StateKind(c *core.Ctx, rule string, p *packages.Package) {
	c.Rule(rule, "in the methods of fp.Promise / fp.Future every value read from the status cell (Load / Get on an atomic cell of the receiver) reaches a type switch or type assertion in the same function — directly, through the variable it is bound to, or through an accessor of that variable; a read that is never inspected by kind cannot tell the listener list from the result")
	info := p.TypesInfo
	n := 0
	for _, fb := range funcBodies(c, []*packages.Package{p}) {
		if fb.Lit != nil || fb.Decl.Recv == nil || len(fb.Decl.Recv.List) != 1 {
			continue
		}
		rt := info.Types[fb.Decl.Recv.List[0].Type].Type
		if rt == nil || !(isNamed(rt, "fp", "Promise") || isNamed(rt, "fp", "Future")) {
			continue
		}
		// operands of type switches / assertions
		var inspected []ast.Expr
		ast.Inspect(fb.Body, func(x ast.Node) bool {
			switch s := x.(type) {
			case *ast.TypeAssertExpr:
				inspected = append(inspected, s.X)
			}
			return true
		})
		k := 0
		ast.Inspect(fb.Body, func(x ast.Node) bool {
			call, ok := x.(*ast.CallExpr)
			if !ok || len(call.Args) != 0 {
				return true
			}
			sel, ok := ast.Unparen(call.Fun).(*ast.SelectorExpr)
			if !ok || (sel.Sel.Name != "Load" && sel.Sel.Name != "Get") {
				return true
			}
			tv, ok := info.Types[sel.X]
			if !ok {
				return true
			}
			t := tv.Type
			if pt, ok := t.(*types.Pointer); ok {
				t = pt.Elem()
			}
			nt := namedOf(t)
			if nt == nil || nt.Obj().Pkg() == nil || !containsStr(nt.Obj().Pkg().Path(), "atomic") {
				return true
			}
			k++
			n++
			key := fb.Name + "/" + exprString(call) + "#" + itoa(k)
			// the variables the read is bound to, directly or through accessors (ap := cell.Get(); cur := ap.Value())
			bound := map[types.Object]bool{}
			carries := func(e ast.Node) bool {
				return nodeContains(e, true, func(y ast.Node) bool {
					if y == ast.Node(call) {
						return true
					}
					id, isId := y.(*ast.Ident)
					return isId && bound[info.Uses[id]]
				})
			}
			for changed := true; changed; {
				changed = false
				ast.Inspect(fb.Body, func(y ast.Node) bool {
					if as, ok := y.(*ast.AssignStmt); ok && len(as.Lhs) == len(as.Rhs) {
						for i, r := range as.Rhs {
							if o := objOf(info, as.Lhs[i]); o != nil && !bound[o] && carries(r) {
								bound[o] = true
								changed = true
							}
						}
					}
					return true
				})
			}
			ok2 := false
			for _, e := range inspected {
				if carries(e) {
					ok2 = true
				}
			}
			if ok2 {
				c.Add(rule, key, call.Pos(), core.Discharged, "the value read is inspected by kind")
			} else {
				c.Add(rule, key, call.Pos(), core.Violated, "the status read here is never type-switched or type-asserted in "+fb.Name+": a decision taken on it (a nil comparison) treats a promise that merely has listeners registered like a completed one — IsCompleted/Await/String then disagree with Value")
			}
			return true
		})
	}
	c.Floor(rule, "status reads", n, 2)
}

// ContraProj (C09): ContraMap(inst, f) makes Eqv(a, b) = inst.Eqv(f(a), f(b)): it is the components' equality only if f
// loses nothing. A projection that truncates (a bounded slice), picks (an index) or reduces (remainder, mask) is not a conversion.
func ContraProj(c *core.Ctx, rule string, pkgs []*packages.Package) {
	c.Rule(rule, "the projection handed to ContraMap in the instance packages is a conversion: resolved to its body (a literal, or a function of the module) it contains no bounded slice expression, no index expression and no remainder / shift / mask / division arithmetic — constructs that identify different inputs and so make Eqv coarser than equality of the components")
	n := 0
	for _, fb := range funcBodies(c, pkgs) {
		if fb.Lit != nil {
			continue
		}
		info := fb.Pkg.TypesInfo
		k := 0
		ast.Inspect(fb.Body, func(x ast.Node) bool {
			call, ok := x.(*ast.CallExpr)
			if !ok || len(call.Args) != 2 {
				return true
			}
			callee := calleeOf(info, call)
			if callee == nil || callee.Name() != "ContraMap" || callee.Pkg() == nil || callee.Pkg() != fb.Pkg.Types {
				return true
			}
			k++
			n++
			key := fb.Name + "/ContraMap#" + itoa(k)
			var body ast.Node
			binfo := info
			if fl := resolveLit(info, fb.Decl, call.Args[1]); fl != nil {
				body = fl.Body
			} else if fn := calleeOfValue(info, call.Args[1]); fn != nil && fn.Pkg() != nil {
				if fd := c.FuncDecl(fn); fd != nil && fd.Body != nil {
					if hp := c.ByPath[fn.Pkg().Path()]; hp != nil {
						body, binfo = fd.Body, hp.TypesInfo
					}
				}
			}
			if body == nil {
				c.Add(rule, key, call.Pos(), core.Skipped, "projection is a parameter / not resolvable to a body")
				return true
			}
			var lossy ast.Node
			what := ""
			ast.Inspect(body, func(y ast.Node) bool {
				if lossy != nil {
					return false
				}
				switch s := y.(type) {
				case *ast.SliceExpr:
					if s.Low != nil || s.High != nil {
						lossy, what = s, "a bounded slice expression"
					}
				case *ast.IndexExpr:
					if tv, ok := binfo.Types[s.X]; ok {
						switch tv.Type.Underlying().(type) {
						case *types.Slice, *types.Array, *types.Map, *types.Basic:
							if !tv.IsType() {
								lossy, what = s, "an index expression"
							}
						}
					}
				case *ast.BinaryExpr:
					switch s.Op {
					case token.REM, token.SHR, token.AND, token.QUO:
						lossy, what = s, "remainder / shift / mask / division arithmetic"
					}
				}
				return true
			})
			if lossy != nil {
				c.Add(rule, key, lossy.Pos(), core.Violated, "the projection contains "+what+" at "+c.RelPos(lossy.Pos())+": inputs that differ only in what it drops become Eqv-equal, although their components are not all equal")
			} else {
				c.Add(rule, key, call.Pos(), core.Discharged, "projection is a plain conversion")
			}
			return true
		})
	}
	c.Floor(rule, "ContraMap sites", n, 2)
}

// calleeOfValue resolves a function-valued expression (possibly instantiated: as.Seq[T]) to the function it names.
func calleeOfValue(info *types.Info, e ast.Expr) *types.Func {
	e = ast.Unparen(e)
	switch x := e.(type) {
	case *ast.IndexExpr:
		return calleeOfValue(info, x.X)
	case *ast.IndexListExpr:
		return calleeOfValue(info, x.X)
	case *ast.Ident:
		fn, _ := info.Uses[x].(*types.Func)
		return fn
	case *ast.SelectorExpr:
		fn, _ := info.Uses[x.Sel].(*types.Func)
		return fn
	}
	return nil
}

// TagExact (C13): directive discovery pre-filters doc comments with strings.Contains(comment, tag) — a substring test
// that also matches longer tags (@fp.GenerateTest for @fp.Generate) — and then decides by the exact parse (extractTag).
// A discovery function that keeps only the pre-filter runs directives owned by another generator.
func TagExact(c *core.Ctx, rule string, pkgs []*packages.Package) {
	c.Rule(rule, "in the directive-discovery packages every function that tests a comment with strings.Contains — itself or through a helper of the package — also reaches extractTag (the exact tag parse) through its own body or callees; a bool-valued helper that only pre-filters is judged at its callers. Siblings agree: the substring test is only a pre-filter, ownership of a directive is decided by the parsed tag")
	n := 0
	for _, p := range pkgs {
		info := p.TypesInfo
		type fact struct {
			fb         *fnBody
			pre, exact bool
			prePos     token.Pos
			callees    []*types.Func
		}
		facts := map[*types.Func]*fact{}
		for _, fb := range funcBodies(c, []*packages.Package{p}) {
			if fb.Lit != nil {
				continue
			}
			fn, _ := info.Defs[fb.Decl.Name].(*types.Func)
			if fn == nil {
				continue
			}
			ft := &fact{fb: fb}
			ast.Inspect(fb.Body, func(x ast.Node) bool {
				var used *types.Func
				switch s := x.(type) {
				case *ast.SelectorExpr:
					used, _ = info.Uses[s.Sel].(*types.Func)
				case *ast.Ident:
					used, _ = info.Uses[s].(*types.Func)
				}
				if used == nil || used.Pkg() == nil {
					return true
				}
				switch {
				case used.Pkg().Path() == "strings" && used.Name() == "Contains":
					if !ft.pre {
						ft.pre, ft.prePos = true, x.Pos()
					}
				case used.Name() == "extractTag":
					ft.exact = true
				case used.Pkg() == p.Types:
					ft.callees = append(ft.callees, used.Origin())
				}
				return true
			})
			facts[fn] = ft
		}
		var reach func(f *types.Func, seen map[*types.Func]bool, sel func(*fact) bool) bool
		reach = func(f *types.Func, seen map[*types.Func]bool, sel func(*fact) bool) bool {
			ft := facts[f]
			if ft == nil || seen[f] {
				return false
			}
			seen[f] = true
			if sel(ft) {
				return true
			}
			for _, cal := range ft.callees {
				if reach(cal, seen, sel) {
					return true
				}
			}
			return false
		}
		for fn, ft := range facts {
			if !reach(fn, map[*types.Func]bool{}, func(f *fact) bool { return f.pre }) {
				continue
			}
			exact := reach(fn, map[*types.Func]bool{}, func(f *fact) bool { return f.exact })
			sig := fn.Type().(*types.Signature)
			isPred := sig.Results().Len() == 1 && types.Identical(sig.Results().At(0).Type(), types.Typ[types.Bool])
			pos := ft.prePos
			if pos == token.NoPos {
				pos = ft.fb.Decl.Pos()
			}
			if isPred && !exact {
				c.Add(rule, ft.fb.Name, pos, core.Skipped, "bool-valued pre-filter helper: judged at its callers")
				continue
			}
			n++
			if exact {
				c.Add(rule, ft.fb.Name, pos, core.Discharged, "substring pre-filter followed by the exact tag parse")
			} else {
				c.Add(rule, ft.fb.Name, pos, core.Violated, ft.fb.Name+" selects directives by strings.Contains alone: a tag that merely contains this generator's tag (…GenerateTest) is taken for its own, so it renders directives owned by another generator and the committed files are no longer the fixpoint of the generators")
			}
		}
	}
	c.Floor(rule, "discovery functions with a substring pre-filter", n, 4)
}

// JSONFresh (C15): MarshalJSON hands its caller a slice the caller owns. Returning a package-level byte slice lets a
// caller that reuses the buffer (append(b[:0], …)) rewrite what every later encoding emits.
func JSONFresh(c *core.Ctx, rule string) {
	c.Rule(rule, "no MarshalJSON method of the library returns a package-level []byte variable (directly or sliced): the bytes returned are freshly made on every call, so no caller can alter a later encoding")
	n := 0
	for _, fb := range funcBodies(c, c.Pkgs) {
		if fb.Lit != nil || fb.Decl.Recv == nil || fb.Decl.Name.Name != "MarshalJSON" {
			continue
		}
		if containsStr(fb.Pkg.PkgPath, "/cmd/") || containsStr(fb.Pkg.PkgPath, "/internal/generator") {
			continue
		}
		info := fb.Pkg.TypesInfo
		n++
		var bad ast.Expr
		ast.Inspect(fb.Body, func(x ast.Node) bool {
			ret, ok := x.(*ast.ReturnStmt)
			if !ok || len(ret.Results) == 0 || bad != nil {
				return true
			}
			e := ast.Unparen(ret.Results[0])
			if se, ok := e.(*ast.SliceExpr); ok {
				e = ast.Unparen(se.X)
			}
			var v *types.Var
			switch y := e.(type) {
			case *ast.Ident:
				v, _ = info.Uses[y].(*types.Var)
			case *ast.SelectorExpr:
				v, _ = info.Uses[y.Sel].(*types.Var)
			}
			if v != nil && !v.IsField() && v.Pkg() != nil && v.Parent() == v.Pkg().Scope() {
				if _, isSlice := v.Type().Underlying().(*types.Slice); isSlice {
					bad = ret.Results[0]
				}
			}
			return true
		})
		if bad != nil {
			c.Add(rule, fb.Name, bad.Pos(), core.Violated, fb.Name+" returns the package-level slice "+exprString(bad)+": the caller shares its backing array with every later call — reusing the returned buffer changes what the type encodes to from then on")
		} else {
			c.Add(rule, fb.Name, fb.Decl.Pos(), core.Discharged, "returns no package-level slice")
		}
	}
	c.Floor(rule, "MarshalJSON methods", n, 4)
}

// PtrDeref (C09, C10): a binary instance over pointers answers for nil operands. Every dereference of a pointer
// parameter of the closure is reached only through a comparison of that parameter with nil.
func PtrDeref(c *core.Ctx, rule string, pkgs []*packages.Package) {
	c.Rule(rule, "in every binary closure func(a, b *T) of the instance packages, each dereference *p of a parameter is reached only through a condition that compares that same parameter with nil (go/cfg, short-circuit aware): the order/equality is defined for nil operands on either side instead of panicking")
	n := 0
	for _, bc := range binClosures(c, pkgs) {
		info := bc.fb.Pkg.TypesInfo
		for _, po := range []types.Object{bc.a, bc.b} {
			if _, isPtr := po.Type().Underlying().(*types.Pointer); !isPtr {
				continue
			}
			derefs := nodeContains(bc.fb.Body, false, func(x ast.Node) bool {
				se, ok := x.(*ast.StarExpr)
				return ok && objOf(info, se.X) == po
			})
			if !derefs {
				continue
			}
			n++
			key := bc.fb.Name + "/*" + po.Name()
			// the right operand of && / || runs only when the left one allowed it
			shortCircuited := map[ast.Node]bool{}
			directNilTest := func(nd ast.Node) bool {
				return nodeContains(nd, false, func(x ast.Node) bool {
					be, ok := x.(*ast.BinaryExpr)
					return ok && (be.Op == token.EQL || be.Op == token.NEQ) &&
						(objOf(info, be.X) == po && isNilIdent(info, be.Y) || objOf(info, be.Y) == po && isNilIdent(info, be.X))
				})
			}
			// a bool local that records the nil test (`aNil := a == nil`) stands for it in later conditions
			nilFlags := map[types.Object]bool{}
			ast.Inspect(bc.fb.Body, func(x ast.Node) bool {
				if as, ok := x.(*ast.AssignStmt); ok && as.Tok == token.DEFINE && len(as.Lhs) == len(as.Rhs) {
					for i, l := range as.Lhs {
						if id, ok := l.(*ast.Ident); ok && directNilTest(as.Rhs[i]) {
							if o := info.Defs[id]; o != nil && types.Identical(o.Type(), types.Typ[types.Bool]) {
								nilFlags[o] = true
							}
						}
					}
				}
				return true
			})
			nilTest := func(nd ast.Node) bool {
				if directNilTest(nd) {
					return true
				}
				return len(nilFlags) > 0 && nodeContains(nd, false, func(x ast.Node) bool {
					id, ok := x.(*ast.Ident)
					return ok && nilFlags[info.Uses[id]]
				})
			}
			ast.Inspect(bc.fb.Body, func(x ast.Node) bool {
				if be, ok := x.(*ast.BinaryExpr); ok && (be.Op == token.LOR || be.Op == token.LAND) && nilTest(be.X) {
					ast.Inspect(be.Y, func(y ast.Node) bool {
						if y != nil {
							shortCircuited[y] = true
						}
						return true
					})
				}
				return true
			})
			target := func(nd ast.Node) bool {
				return nodeContains(nd, false, func(x ast.Node) bool {
					if shortCircuited[x] {
						return false
					}
					se, ok := x.(*ast.StarExpr)
					return ok && objOf(info, se.X) == po
				})
			}
			guard := func(nd ast.Node) bool { return isCondNode(nd) && nilTest(nd) }
			g := cfg.New(bc.fb.Body, mayReturn(c, info))
			if len(g.Blocks) == 0 {
				continue
			}
			if hit := unguardedReach(g.Blocks[0], -1, target, guard); hit != nil {
				c.Add(rule, key, hit.Pos(), core.Violated, "*"+po.Name()+" is dereferenced at "+c.RelPos(hit.Pos())+" on a path that never compared "+po.Name()+" with nil: the instance panics for a nil operand on that side instead of ordering / comparing it")
			} else {
				c.Add(rule, key, bc.fb.Body.Pos(), core.Discharged, "every dereference follows a nil test of the same parameter")
			}
		}
	}
	c.Floor(rule, "pointer parameters dereferenced in binary closures", n, 2)
}

// BothSizes (C09): an equality over two containers that walks one of them and looks the elements up in the other
// proves inclusion only; equality needs the sizes of both.
func BothSizes(c *core.Ctx, rule string, pkgs []*packages.Package) {
	c.Rule(rule, "a binary Eq closure over containers (fp.Map / fp.Set / fp.Seq / Go map / slice) that iterates one operand (Iterator / ForAll / Exists / range / Foreach) consults the size of both operands (Size() / len): inclusion of a in b is not equality, and is not symmetric")
	n := 0
	for _, bc := range binClosures(c, pkgs) {
		if bc.res == nil || !types.Identical(bc.res, types.Typ[types.Bool]) {
			continue
		}
		isContainer := func(t types.Type) bool {
			if isNamed(t, "fp", "Map") || isNamed(t, "fp", "Set") || isNamed(t, "fp", "Seq") {
				return true
			}
			switch t.Underlying().(type) {
			case *types.Map, *types.Slice:
				return !isNamed(t, "fp", "Seq")
			}
			return false
		}
		if !isContainer(bc.a.Type()) || !isContainer(bc.b.Type()) {
			continue
		}
		info := bc.fb.Pkg.TypesInfo
		iterates := nodeContains(bc.fb.Body, true, func(x ast.Node) bool {
			switch s := x.(type) {
			case *ast.RangeStmt:
				o := objOf(info, s.X)
				return o == bc.a || o == bc.b
			case *ast.CallExpr:
				if se, ok := ast.Unparen(s.Fun).(*ast.SelectorExpr); ok {
					switch se.Sel.Name {
					case "Iterator", "ForAll", "Exists", "Foreach":
						o := objOf(info, se.X)
						return o == bc.a || o == bc.b
					}
				}
			}
			return false
		})
		if !iterates {
			continue
		}
		n++
		sized := func(po types.Object) bool {
			return nodeContains(bc.fb.Body, true, func(x ast.Node) bool {
				call, ok := x.(*ast.CallExpr)
				if !ok {
					return false
				}
				if (isBuiltinCall(info, call, "len")) && len(call.Args) == 1 && objOf(info, call.Args[0]) == po {
					return true
				}
				se, ok := ast.Unparen(call.Fun).(*ast.SelectorExpr)
				return ok && se.Sel.Name == "Size" && objOf(info, se.X) == po
			})
		}
		if sized(bc.a) && sized(bc.b) {
			c.Add(rule, bc.fb.Name, bc.fb.Body.Pos(), core.Discharged, "both sizes consulted")
		} else {
			c.Add(rule, bc.fb.Name, bc.fb.Body.Pos(), core.Violated, "the equality walks one container and looks its elements up in the other without comparing the sizes of both: a strict sub-container is Eqv to its super-container in one direction only (not symmetric, not an equivalence)")
		}
	}
	c.Floor(rule, "container equalities that iterate", n, 2)
}

// PtrIdentity (C09): an instance for a pointer type compares / hashes what the pointers refer to. The built-in `==`
// on pointers compares addresses, so a `comparable`-constrained function of the instance packages (eq.Given,
// hash.Given, …) instantiated at a pointer type yields an Eq[*T] that separates different pointers to equal targets.
func PtrIdentity(c *core.Ctx, rule string, pkgs []*packages.Package) {
	c.Rule(rule, "no function of the instance packages whose type parameter is constrained by `comparable` (the instances built on the built-in ==) is instantiated at a pointer type inside those packages: equality of *T is the equality of the targets (eq.Ptr), not of the addresses")
	n := 0
	for _, p := range pkgs {
		if p == nil {
			continue
		}
		type inst struct {
			id *ast.Ident
			in types.Instance
		}
		var all []inst
		for id, in := range p.TypesInfo.Instances {
			all = append(all, inst{id, in})
		}
		sort.Slice(all, func(i, j int) bool { return all[i].id.Pos() < all[j].id.Pos() })
		for _, it := range all {
			fn, ok := p.TypesInfo.Uses[it.id].(*types.Func)
			if !ok || fn.Pkg() == nil {
				continue
			}
			inPkgs := false
			for _, q := range pkgs {
				if q != nil && q.Types == fn.Pkg() {
					inPkgs = true
				}
			}
			if !inPkgs {
				continue
			}
			sig, _ := fn.Type().(*types.Signature)
			if sig == nil || sig.TypeParams() == nil {
				continue
			}
			for k := 0; k < sig.TypeParams().Len() && k < it.in.TypeArgs.Len(); k++ {
				tp := sig.TypeParams().At(k)
				iface, _ := tp.Constraint().Underlying().(*types.Interface)
				if iface == nil || !iface.IsComparable() || iface.NumMethods() > 0 {
					continue
				}
				// only the plain `comparable` family (no type-set restriction such as ~int | ~string)
				if iface.NumEmbeddeds() > 0 {
					plain := true
					for e := 0; e < iface.NumEmbeddeds(); e++ {
						if _, isUnion := iface.EmbeddedType(e).(*types.Union); isUnion {
							plain = false
						}
					}
					if !plain {
						continue
					}
				}
				n++
				key := enclosingFuncName(p, it.id.Pos()) + "/" + fn.Pkg().Name() + "." + fn.Name() + "[" + types.TypeString(it.in.TypeArgs.At(k), func(q *types.Package) string { return q.Name() }) + "]"
				if _, isPtr := it.in.TypeArgs.At(k).Underlying().(*types.Pointer); isPtr {
					c.Add(rule, key, it.id.Pos(), core.Violated, fn.Pkg().Name()+"."+fn.Name()+" is built on the built-in == and is instantiated at the pointer type "+it.in.TypeArgs.At(k).String()+": two different pointers to equal targets compare unequal (and hash differently)")
				} else {
					c.Add(rule, key, it.id.Pos(), core.Discharged, "not a pointer type")
				}
			}
		}
	}
	c.Floor(rule, "instantiations of comparable-constrained instance functions", n, 2)
}

// enclosingFuncName: the declared function (or package-level var) of p that contains pos.
func enclosingFuncName(p *packages.Package, pos token.Pos) string {
	for _, f := range p.Syntax {
		if pos < f.Pos() || pos > f.End() {
			continue
		}
		for _, d := range f.Decls {
			if pos < d.Pos() || pos > d.End() {
				continue
			}
			switch x := d.(type) {
			case *ast.FuncDecl:
				name := x.Name.Name
				if x.Recv != nil && len(x.Recv.List) == 1 {
					name = core.RecvTypeName(x.Recv.List[0].Type) + "." + name
				}
				return p.Types.Name() + "." + name
			case *ast.GenDecl:
				for _, sp := range x.Specs {
					if vs, ok := sp.(*ast.ValueSpec); ok && pos >= vs.Pos() && pos <= vs.End() && len(vs.Names) > 0 {
						return p.Types.Name() + ".var:" + vs.Names[0].Name
					}
				}
			}
		}
	}
	return p.Types.Name() + ".?"
}
