package rules

// C05 — Promise: structural conditions of single assignment and exactly-once delivery.

import (
	"go/ast"
	"go/token"
	"go/types"
	"strings"

	"fpcheck/core"

	"golang.org/x/tools/go/cfg"
	"golang.org/x/tools/go/packages"
	"golang.org/x/tools/go/ssa"
)

func init() {
	register("C05", "Promise status cell: CAS discipline, retry, delivery, immutable snapshots, zero value", func(c *core.Ctx) {
		NilGuard(c, "R-NILGUARD", func(t *types.Named) bool { return isNamed(t, "fp", "Promise") || isNamed(t, "fp", "Future") })
		PromiseCAS(c)
		PromiseSnapshot(c, "R-SNAPSHOT")
		AtomicCell(c, "R-ATOMIC")
		StateKind(c, "R-STATEKIND", c.Pkg("fp"))
		OneDispatch(c, "R-ONEDISPATCH", c.Pkg("fp"))
	})
}

func isAtomicRef(t types.Type) bool {
	return isNamed(t, "internal/atomic", "Reference") || isNamed(t, "internal/atomic", "Value")
}

// caseKind classifies a case clause of a status type switch.
func caseKind(info *types.Info, cc *ast.CaseClause) string {
	if cc.List == nil {
		return "default"
	}
	for _, e := range cc.List {
		if exprString(e) == "nil" {
			return "empty"
		}
		tv, ok := info.Types[e]
		if !ok {
			continue
		}
		if isNamed(tv.Type, "fp", "Try") {
			return "final"
		}
		if sl, ok := tv.Type.Underlying().(*types.Slice); ok {
			if _, isFn := sl.Elem().Underlying().(*types.Signature); isFn {
				return "list"
			}
		}
	}
	return "other"
}

func PromiseCAS(c *core.Ctx) {
	c.Rule("R-CAS-ONLY", "the status cell of a Promise is written only by CompareAndSwap against the *ValuePtr obtained from Get() in the same function; no Store on an atomic.Reference outside package internal/atomic")
	c.Rule("R-FINAL", "inside a status type switch, the case for a completed promise (fp.Try) performs no CompareAndSwap/Store: the first assignment is final")
	c.Rule("R-RETRY", "every CompareAndSwap is the condition of an if whose true branch returns and whose false continuation re-enters (self call or enclosing loop): a lost race is retried, never dropped")
	c.Rule("R-DELIVER", "Complete calls every element of the listener list returned by the completing CAS (a range or full index loop over the list, the element called in the body, no early exit); the completing case returns the loaded list itself")
	c.Rule("R-REGISTER", "in a function registering a call-back parameter cb, every case of the status switch uses cb (calls it with the completed value, or puts it into the value handed to CompareAndSwap)")
	p := c.Pkg("fp")
	info := p.TypesInfo
	nCAS, nSwitch := 0, 0
	// R-CAS-ONLY part 1: no Store anywhere in the library
	nStoreSites := 0
	for _, q := range libPkgs(c) {
		if core.ShortPkg(q.PkgPath) == "internal/atomic" {
			continue
		}
		for _, fb := range funcBodies(c, []*packages.Package{q}) {
			inspectShallow(fb.Body, func(x ast.Node) bool {
				call, ok := x.(*ast.CallExpr)
				if !ok {
					return true
				}
				sel, ok := ast.Unparen(call.Fun).(*ast.SelectorExpr)
				if !ok {
					return true
				}
				if tv, ok := fb.Pkg.TypesInfo.Types[sel.X]; ok && isAtomicRef(tv.Type) {
					nStoreSites++
					if sel.Sel.Name == "Store" {
						c.Add("R-CAS-ONLY", fb.Name+"/Store", call.Pos(), core.Violated, "the status cell is overwritten with Store: a second completion / registration replaces the first instead of losing the race")
					}
				}
				return true
			})
		}
	}
	c.Add("R-CAS-ONLY", "scan", token.NoPos, core.Discharged, itoa(nStoreSites)+" calls on atomic.Reference inspected")
	for _, fb := range funcBodies(c, []*packages.Package{p}) {
		if fb.Lit != nil || fb.Decl.Recv == nil {
			continue
		}
		recvT := core.RecvTypeName(fb.Decl.Recv.List[0].Type)
		if recvT != "Promise" && recvT != "Future" {
			continue
		}
		fnObj, _ := info.Defs[fb.Decl.Name].(*types.Func)
		// call-back parameter?
		var cbParam types.Object
		for _, f := range fb.Type.Params.List {
			for _, nm := range f.Names {
				if o := info.Defs[nm]; o != nil {
					if _, isFn := o.Type().Underlying().(*types.Signature); isFn {
						cbParam = o
					}
				}
			}
		}
		// locals assigned from X.Get()
		fromGet := map[types.Object]bool{}
		ast.Inspect(fb.Body, func(n ast.Node) bool {
			if as, ok := n.(*ast.AssignStmt); ok && len(as.Lhs) == 1 && len(as.Rhs) == 1 {
				if call, ok := ast.Unparen(as.Rhs[0]).(*ast.CallExpr); ok {
					if sel, ok := ast.Unparen(call.Fun).(*ast.SelectorExpr); ok && sel.Sel.Name == "Get" {
						if tv, ok := info.Types[sel.X]; ok && isAtomicRef(tv.Type) {
							if o := objOf(info, as.Lhs[0]); o != nil {
								fromGet[o] = true
							}
						}
					}
				}
			}
			return true
		})
		// status switches
		inspectShallow(fb.Body, func(n ast.Node) bool {
			ts, ok := n.(*ast.TypeSwitchStmt)
			if !ok {
				return true
			}
			var swVar types.Object
			if as, ok := ts.Assign.(*ast.AssignStmt); ok {
				_ = as
			}
			hasFinal := false
			for _, cl := range ts.Body.List {
				if caseKind(info, cl.(*ast.CaseClause)) == "final" {
					hasFinal = true
				}
			}
			if !hasFinal {
				return true
			}
			nSwitch++
			for ci, cl := range ts.Body.List {
				cc := cl.(*ast.CaseClause)
				kind := caseKind(info, cc)
				swVar = info.Implicits[cc]
				key := fb.Name + "/case:" + kind
				_ = ci
				// CAS calls in this clause
				var casCalls []*ast.CallExpr
				for _, st := range cc.Body {
					ast.Inspect(st, func(x ast.Node) bool {
						if call, ok := x.(*ast.CallExpr); ok {
							if sel, ok := ast.Unparen(call.Fun).(*ast.SelectorExpr); ok && (sel.Sel.Name == "CompareAndSwap" || sel.Sel.Name == "Store") {
								if tv, ok := info.Types[sel.X]; ok && isAtomicRef(tv.Type) {
									casCalls = append(casCalls, call)
								}
							}
						}
						return true
					})
				}
				if kind == "final" {
					if len(casCalls) > 0 {
						c.Add("R-FINAL", key, casCalls[0].Pos(), core.Violated, "the case for an already completed promise writes the status cell again: the completed value can be replaced")
					} else {
						c.Add("R-FINAL", key, cc.Pos(), core.Discharged, "no write to the cell once completed")
					}
					if cbParam != nil {
						// cb(status)
						called := false
						for _, st := range cc.Body {
							if nodeContains(st, true, func(x ast.Node) bool {
								call, ok := x.(*ast.CallExpr)
								return ok && objOf(info, call.Fun) == cbParam && len(call.Args) == 1 && swVar != nil && objOf(info, call.Args[0]) == swVar
							}) {
								called = true
							}
						}
						if called {
							c.Add("R-REGISTER", key, cc.Pos(), core.Discharged, "call-back invoked with the completed value")
						} else {
							c.Add("R-REGISTER", key, cc.Pos(), core.Violated, "registration on an already completed promise does not invoke the call-back with the completed value: the call-back is never run")
						}
					}
					continue
				}
				for k, call := range casCalls {
					nCAS++
					ckey := key + "/cas#" + itoa(k+1)
					sel := ast.Unparen(call.Fun).(*ast.SelectorExpr)
					if sel.Sel.Name == "Store" {
						continue // reported by R-CAS-ONLY
					}
					// expected value comes from Get() of this attempt
					if len(call.Args) == 2 && fromGet[objOf(info, call.Args[0])] {
						c.Add("R-CAS-ONLY", ckey, call.Pos(), core.Discharged, "compares against the pointer loaded by Get() in this attempt")
					} else {
						c.Add("R-CAS-ONLY", ckey, call.Pos(), core.Violated, "CompareAndSwap does not compare against the *ValuePtr loaded by Get() in the same function: a concurrent change between load and swap goes unnoticed")
					}
					// R-RETRY: find the if statement whose condition is this call
					var ifs *ast.IfStmt
					idx := -1
					for i, st := range cc.Body {
						if is, ok := st.(*ast.IfStmt); ok && ast.Unparen(is.Cond) == call {
							ifs, idx = is, i
						}
					}
					okRetry := false
					why := "CompareAndSwap is not the condition of an if statement at the top of its case"
					if ifs != nil {
						endsReturn := len(ifs.Body.List) > 0
						if endsReturn {
							_, endsReturn = ifs.Body.List[len(ifs.Body.List)-1].(*ast.ReturnStmt)
						}
						retries := false
						for _, st := range cc.Body[idx+1:] {
							if nodeContains(st, false, func(x ast.Node) bool {
								cl, ok := x.(*ast.CallExpr)
								if !ok {
									return false
								}
								callee := calleeOf(info, cl)
								return callee != nil && fnObj != nil && callee == fnObj.Origin()
							}) {
								retries = true
							}
						}
						if ifs.Else != nil {
							if nodeContains(ifs.Else, false, func(x ast.Node) bool {
								cl, ok := x.(*ast.CallExpr)
								if !ok {
									return false
								}
								callee := calleeOf(info, cl)
								return callee != nil && fnObj != nil && callee == fnObj.Origin()
							}) {
								retries = true
							}
						}
						// enclosing loop counts as retry
						if !retries && enclosedByLoop(fb.Body, ts) {
							retries = true
						}
						switch {
						case !endsReturn:
							why = "the successful branch of the CompareAndSwap does not return"
						case !retries:
							why = "when the CompareAndSwap loses the race the function neither calls itself again nor loops: the completion / registration is silently dropped"
						default:
							okRetry = true
						}
					}
					if okRetry {
						c.Add("R-RETRY", ckey, call.Pos(), core.Discharged, "success returns, failure re-enters")
					} else {
						c.Add("R-RETRY", ckey, call.Pos(), core.Violated, why)
					}
					// R-REGISTER: newval mentions cb
					if cbParam != nil && len(call.Args) == 2 {
						// objects the new value is built from: mentioned directly, or flowing into a local it mentions
						// (assignment, element assignment, copy) within this case
						from := map[types.Object]bool{}
						var addMentions func(n ast.Node)
						addMentions = func(n ast.Node) {
							ast.Inspect(n, func(x ast.Node) bool {
								if id, ok := x.(*ast.Ident); ok {
									if o := info.Uses[id]; o != nil && !from[o] {
										from[o] = true
									}
								}
								return true
							})
						}
						addMentions(call.Args[1])
						for changed := true; changed; {
							changed = false
							before := len(from)
							for _, st := range cc.Body {
								ast.Inspect(st, func(x ast.Node) bool {
									switch a := x.(type) {
									case *ast.AssignStmt:
										for i, l := range a.Lhs {
											root := l
											for {
												if ix, ok := ast.Unparen(root).(*ast.IndexExpr); ok {
													root = ix.X
													continue
												}
												break
											}
											if o := objOf(info, root); o != nil && from[o] && i < len(a.Rhs) {
												addMentions(a.Rhs[i])
											} else if o != nil && from[o] && len(a.Rhs) == 1 {
												addMentions(a.Rhs[0])
											}
										}
									case *ast.CallExpr:
										if isBuiltinCall(info, a, "copy") && len(a.Args) == 2 {
											if o := objOf(info, a.Args[0]); o != nil && from[o] {
												addMentions(a.Args[1])
											}
										}
									}
									return true
								})
							}
							if len(from) != before {
								changed = true
							}
						}
						if from[cbParam] && (kind != "list" || swVar == nil || from[swVar]) {
							c.Add("R-REGISTER", ckey, call.Pos(), core.Discharged, "the new status contains the call-back (and the previous list)")
						} else {
							c.Add("R-REGISTER", ckey, call.Pos(), core.Violated, "the value swapped in does not contain the call-back together with the previously registered ones: a registration is lost")
						}
					}
					// R-DELIVER (completing side): the list case returns the loaded list
					if cbParam == nil && kind == "list" && ifs != nil && swVar != nil {
						ret, _ := ifs.Body.List[len(ifs.Body.List)-1].(*ast.ReturnStmt)
						found := false
						if ret != nil {
							for _, r := range ret.Results {
								if objOf(info, r) == swVar {
									found = true
								}
							}
						}
						if found {
							c.Add("R-DELIVER", ckey+"/returns-list", call.Pos(), core.Discharged, "the completing CAS hands the captured listener list to the caller")
						} else {
							c.Add("R-DELIVER", ckey+"/returns-list", call.Pos(), core.Violated, "after a successful completing CAS the captured listener list is not returned: registered call-backs are never run")
						}
					}
				}
			}
			return true
		})
		// R-DELIVER (Complete): range over the list result and call each element with the result
		ast.Inspect(fb.Body, func(n ast.Node) bool {
			as, ok := n.(*ast.AssignStmt)
			if !ok || len(as.Lhs) != 2 || len(as.Rhs) != 1 {
				return true
			}
			call, ok := ast.Unparen(as.Rhs[0]).(*ast.CallExpr)
			if !ok {
				return true
			}
			listObj := objOf(info, as.Lhs[1])
			if listObj == nil {
				return true
			}
			sl, ok := listObj.Type().Underlying().(*types.Slice)
			if !ok {
				return true
			}
			if _, isFn := sl.Elem().Underlying().(*types.Signature); !isFn {
				return true
			}
			callee := calleeOf(info, call)
			if callee == nil {
				return true
			}
			key := fb.Name + "/listeners:" + callee.Name()
			good := false
			why := "the listener list returned by " + callee.Name() + " is not ranged over"
			ast.Inspect(fb.Body, func(m ast.Node) bool {
				// accepted loop forms: `for _, cb := range list { cb(…) }`, `for i := range list { list[i](…) }`,
				// `for i := 0; i < len(list); i++ { list[i](…) }`
				var body *ast.BlockStmt
				var elem, idx types.Object
				switch lp := m.(type) {
				case *ast.RangeStmt:
					if objOf(info, lp.X) != listObj {
						return true
					}
					body = lp.Body
					if lp.Value != nil {
						elem = objOf(info, lp.Value)
					} else if lp.Key != nil {
						idx = objOf(info, lp.Key)
					}
				case *ast.ForStmt:
					init, ok1 := lp.Init.(*ast.AssignStmt)
					cond, ok2 := lp.Cond.(*ast.BinaryExpr)
					post, ok3 := lp.Post.(*ast.IncDecStmt)
					if !ok1 || !ok2 || !ok3 || len(init.Lhs) != 1 || len(init.Rhs) != 1 || exprString(init.Rhs[0]) != "0" || cond.Op != token.LSS || post.Tok != token.INC {
						return true
					}
					i := objOf(info, init.Lhs[0])
					lc, isLen := ast.Unparen(cond.Y).(*ast.CallExpr)
					if i == nil || objOf(info, cond.X) != i || objOf(info, post.X) != i || !isLen || !isBuiltinCall(info, lc, "len") || objOf(info, lc.Args[0]) != listObj {
						return true
					}
					body, idx = lp.Body, i
				default:
					return true
				}
				if body == nil || (elem == nil && idx == nil) {
					return true
				}
				rs := struct{ Body *ast.BlockStmt }{body}
				calls := nodeContains(rs.Body, false, func(x ast.Node) bool {
					cl, ok := x.(*ast.CallExpr)
					if !ok {
						return false
					}
					if elem != nil && objOf(info, cl.Fun) == elem {
						return true
					}
					if ix, ok := ast.Unparen(cl.Fun).(*ast.IndexExpr); ok && idx != nil && objOf(info, ix.X) == listObj && objOf(info, ix.Index) == idx {
						return true
					}
					return false
				})
				early := nodeContains(rs.Body, false, func(x ast.Node) bool {
					switch b := x.(type) {
					case *ast.ReturnStmt:
						return true
					case *ast.BranchStmt:
						return b.Tok == token.BREAK || b.Tok == token.GOTO
					case *ast.IfStmt:
						return true
					}
					return false
				})
				switch {
				case !calls:
					why = "the loop over the listener list does not call the listeners"
				case early:
					why = "the delivery loop can exit early or skip listeners (return/break/if inside the loop)"
				default:
					good = true
				}
				return true
			})
			if good {
				c.Add("R-DELIVER", key, as.Pos(), core.Discharged, "every captured listener is called")
			} else {
				c.Add("R-DELIVER", key, as.Pos(), core.Violated, why+": some registered call-backs never run")
			}
			return true
		})
	}
	_ = nCAS
	c.Floor("R-FINAL", "status type switches", nSwitch, 2)
	retryCFG(c, p)
}

// retryCFG: R-RETRY independent of where the CompareAndSwap sits: from the failure edge of every `if CAS(...)` in a
// Promise method no function exit is reachable without passing a self call (or looping back).
func retryCFG(c *core.Ctx, p *packages.Package) {
	info := p.TypesInfo
	n := 0
	for _, fb := range funcBodies(c, []*packages.Package{p}) {
		if fb.Lit != nil || fb.Decl.Recv == nil {
			continue
		}
		recvT := core.RecvTypeName(fb.Decl.Recv.List[0].Type)
		if recvT != "Promise" && recvT != "Future" {
			continue
		}
		fnObj, _ := info.Defs[fb.Decl.Name].(*types.Func)
		isCAS := func(e ast.Expr) *ast.CallExpr {
			call, ok := ast.Unparen(e).(*ast.CallExpr)
			if !ok {
				return nil
			}
			sel, ok := ast.Unparen(call.Fun).(*ast.SelectorExpr)
			if !ok || sel.Sel.Name != "CompareAndSwap" {
				return nil
			}
			if tv, ok := info.Types[sel.X]; ok && isAtomicRef(tv.Type) {
				return call
			}
			return nil
		}
		hasCAS := nodeContains(fb.Body, false, func(x ast.Node) bool {
			e, ok := x.(ast.Expr)
			return ok && isCAS(e) != nil
		})
		if !hasCAS {
			continue
		}
		g := newCFG(c, fb)
		k := 0
		// every CAS call must be the condition of an if
		condCAS := map[*ast.CallExpr]bool{}
		for _, b := range g.Blocks {
			if len(b.Nodes) == 0 || len(b.Succs) != 2 {
				continue
			}
			last, ok := b.Nodes[len(b.Nodes)-1].(ast.Expr)
			if !ok {
				continue
			}
			neg := false
			e := ast.Unparen(last)
			if u, ok := e.(*ast.UnaryExpr); ok && u.Op == token.NOT {
				e, neg = ast.Unparen(u.X), true
			}
			call := isCAS(e)
			if call == nil {
				continue
			}
			condCAS[call] = true
			k++
			n++
			key := fb.Name + "/cas-retry#" + itoa(k)
			failSucc := b.Succs[1]
			if neg {
				failSucc = b.Succs[0]
			}
			selfCall := func(nd ast.Node) bool {
				return nodeContains(nd, false, func(x ast.Node) bool {
					cl, ok := x.(*ast.CallExpr)
					if !ok {
						return false
					}
					callee := calleeOf(info, cl)
					return callee != nil && fnObj != nil && callee == fnObj.Origin()
				})
			}
			reloads := func(nd ast.Node) bool {
				return nodeContains(nd, false, func(x ast.Node) bool {
					cl, ok := x.(*ast.CallExpr)
					if !ok {
						return false
					}
					sel, ok := ast.Unparen(cl.Fun).(*ast.SelectorExpr)
					if !ok || (sel.Sel.Name != "Get" && sel.Sel.Name != "Load") {
						return false
					}
					tv, ok := info.Types[sel.X]
					return ok && isAtomicRef(tv.Type)
				})
			}
			seen := map[*cfg.Block]bool{}
			var escapes func(x *cfg.Block) bool
			escapes = func(x *cfg.Block) bool {
				if seen[x] {
					return false
				}
				seen[x] = true
				if x == b {
					return false // looped back to the CAS: a retry
				}
				for _, nd := range x.Nodes {
					if selfCall(nd) || reloads(nd) {
						return false // the attempt starts over: status re-read (loop) or self call (recursion)
					}
				}
				if len(x.Succs) == 0 {
					return true
				}
				for _, s := range x.Succs {
					if escapes(s) {
						return true
					}
				}
				return false
			}
			if escapes(failSucc) {
				c.Add("R-RETRY", key, call.Pos(), core.Violated, "when `"+exprString(call)+"` fails (another goroutine changed the status between Get and the swap) the function can return without calling itself again or looping: the completion / registration is silently dropped — a registration racing with Complete leaves the promise incomplete for ever")
			} else {
				c.Add("R-RETRY", key, call.Pos(), core.Discharged, "a failed swap always re-enters")
			}
		}
		// R-FRESHVIEW: between (re)loading the pointer and swapping against it, the decision is derived from that pointer
		{
			type pt struct {
				b *cfg.Block
				i int
			}
			var starts []pt
			var apObj types.Object
			for _, b := range g.Blocks {
				for i, nd := range b.Nodes {
					as, ok := nd.(*ast.AssignStmt)
					if !ok || len(as.Lhs) != 1 || len(as.Rhs) != 1 {
						continue
					}
					call, ok := ast.Unparen(as.Rhs[0]).(*ast.CallExpr)
					if !ok {
						continue
					}
					sel, ok := ast.Unparen(call.Fun).(*ast.SelectorExpr)
					if !ok || sel.Sel.Name != "Get" {
						continue
					}
					if tv, ok := info.Types[sel.X]; !ok || !isAtomicRef(tv.Type) {
						continue
					}
					if o := objOf(info, as.Lhs[0]); o != nil {
						apObj = o
						starts = append(starts, pt{b, i})
					}
				}
			}
			usesView := func(nd ast.Node) bool {
				return nodeContains(nd, false, func(x ast.Node) bool {
					cl, ok := x.(*ast.CallExpr)
					if !ok {
						return false
					}
					sel, ok := ast.Unparen(cl.Fun).(*ast.SelectorExpr)
					return ok && (sel.Sel.Name == "Value" || sel.Sel.Name == "Load") && objOf(info, sel.X) == apObj
				})
			}
			casOn := func(nd ast.Node) *ast.CallExpr {
				var hit *ast.CallExpr
				ast.Inspect(nd, func(x ast.Node) bool {
					if _, ok := x.(*ast.FuncLit); ok {
						return false
					}
					if e, ok := x.(ast.Expr); ok {
						if cl := isCAS(e); cl != nil && len(cl.Args) == 2 && objOf(info, cl.Args[0]) == apObj {
							hit = cl
						}
					}
					return true
				})
				return hit
			}
			reassigns := func(nd ast.Node) bool {
				as, ok := nd.(*ast.AssignStmt)
				if !ok {
					return false
				}
				for _, l := range as.Lhs {
					if objOf(info, l) == apObj {
						return true
					}
				}
				return false
			}
			for si, st := range starts {
				var stale *ast.CallExpr
				type key struct {
					b      *cfg.Block
					passed bool
				}
				seen := map[key]bool{}
				var walk func(b *cfg.Block, from int, passed bool)
				walk = func(b *cfg.Block, from int, passed bool) {
					if stale != nil {
						return
					}
					if from == 0 {
						if seen[key{b, passed}] {
							return
						}
						seen[key{b, passed}] = true
					}
					for _, nd := range b.Nodes[from:] {
						if reassigns(nd) {
							return // a new attempt starts here; judged from its own start
						}
						if usesView(nd) {
							passed = true
						}
						if cl := casOn(nd); cl != nil && !passed {
							stale = cl
							return
						}
					}
					for _, s := range b.Succs {
						walk(s, 0, passed)
					}
				}
				walk(st.b, st.i+1, false)
				n++
				vkey := fb.Name + "/view#" + itoa(si+1)
				if stale != nil {
					c.Add("R-RETRY", vkey, stale.Pos(), core.Violated, "after the pointer "+apObj.Name()+" is (re)loaded with Get(), `"+exprString(stale)+"` is reached without the status being decoded from that pointer again ("+apObj.Name()+".Value()): the decision and the new value come from a stale view, so a retry overwrites what the winner of the race published (a registered call-back, or the completed result)")
				} else {
					c.Add("R-RETRY", vkey, st.b.Nodes[st.i].Pos(), core.Discharged, "every swap is decided on the view decoded from the pointer it compares against")
				}
			}
		}
		// CAS calls that are not an if-condition
		ast.Inspect(fb.Body, func(x ast.Node) bool {
			if e, ok := x.(ast.Expr); ok {
				if call := isCAS(e); call != nil && !condCAS[call] {
					n++
					k++
					c.Add("R-RETRY", fb.Name+"/cas-retry#"+itoa(k), call.Pos(), core.Violated, "the result of CompareAndSwap is not tested: a lost race goes unnoticed")
				}
			}
			return true
		})
	}
	c.Floor("R-RETRY", "CompareAndSwap sites in Promise methods", n, 2)
}

func unusedPromiseCAS() {}

func enclosedByLoop(body *ast.BlockStmt, target ast.Node) bool {
	found := false
	var walk func(n ast.Node, inLoop bool)
	walk = func(n ast.Node, inLoop bool) {
		ast.Inspect(n, func(x ast.Node) bool {
			if x == nil || found {
				return false
			}
			if x == target {
				found = inLoop
				return false
			}
			switch l := x.(type) {
			case *ast.ForStmt:
				walk(l.Body, true)
				return false
			case *ast.FuncLit:
				return false
			}
			return true
		})
	}
	walk(body, false)
	return found
}

// PromiseSnapshot (E1): Promise/Future methods build the values they publish without writing memory
// they did not allocate (the loaded snapshot — a published listener slice — is immutable).
func PromiseSnapshot(c *core.Ctx, rule string) {
	c.Rule(rule, "no method of fp.Promise / fp.Future writes (store, append, copy, map update — atomics excluded) memory that is not freshly allocated in that call: the snapshot loaded from the status cell is shared with racing goroutines and must stay immutable")
	e := newOwnEngine(c)
	e.scope = map[string]bool{core.ModPath: true, core.ModPath + "/internal/atomic": true}
	e.run()
	n := 0
	for _, fn := range sortedFuncs(e) {
		recv := fn.Signature.Recv()
		if recv == nil || !(isNamed(recv.Type(), "fp", "Promise") || isNamed(recv.Type(), "fp", "Future")) {
			continue
		}
		n++
		name := fnName(fn)
		bad := false
		for r, w := range e.sums[fn].writes {
			if w.g != 0 || strings.HasPrefix(w.how, "call of fp.Promise.") || strings.HasPrefix(w.how, "call of fp.Future.") {
				continue // guarded, or performed by another Promise/Future method that is judged itself
			}
			bad = true
			c.Add(rule, name+"/"+r.String(), w.pos, core.Violated, name+" writes shared memory ("+r.String()+") via "+w.how+": two goroutines that loaded the same snapshot overwrite each other's slot — a call-back is lost and another runs twice")
		}
		if !bad {
			c.Add(rule, name, fn.Pos(), core.Discharged, "publishes only freshly built values")
		}
	}
	c.Floor(rule, "Promise/Future methods", n, 15)
}

func sortedFuncs(e *ownEngine) []*ssa.Function {
	var fns []*ssa.Function
	for fn := range e.sums {
		fns = append(fns, fn)
	}
	sortFuncs(fns)
	return fns
}

// AtomicCell: internal/atomic.Value touches its pointer only through sync/atomic; ValuePtr.v is written only in literals.
func AtomicCell(c *core.Ctx, rule string) {
	c.Rule(rule, "internal/atomic.Value accesses its pointer field only through sync/atomic (Load/Store/CompareAndSwapPointer on its address, or the methods of a sync/atomic typed wrapper such as atomic.Pointer[T]), and the ValuePtr box is immutable after construction (its field is set only in composite literals)")
	p := c.Pkg("internal/atomic")
	if p == nil {
		c.Add(rule, "pkg", token.NoPos, core.Undecided, "package internal/atomic not found")
		return
	}
	info := p.TypesInfo
	n := 0
	for _, fb := range funcBodies(c, []*packages.Package{p}) {
		ast.Inspect(fb.Body, func(x ast.Node) bool {
			switch s := x.(type) {
			case *ast.AssignStmt:
				for _, l := range s.Lhs {
					if sel, ok := ast.Unparen(l).(*ast.SelectorExpr); ok {
						if tv, ok := info.Types[sel.X]; ok && (isNamed(tv.Type, "internal/atomic", "Value") || isNamed(tv.Type, "internal/atomic", "ValuePtr")) {
							n++
							c.Add(rule, fb.Name+"/assign:"+exprString(l), s.Pos(), core.Violated, "plain assignment to "+exprString(l)+": the cell / the published box must only change through sync/atomic")
						}
					}
				}
			case *ast.SelectorExpr:
				// uses of r.value must be &r.value as argument of a sync/atomic call
				if tv, ok := info.Types[s.X]; ok && isNamed(tv.Type, "internal/atomic", "Value") && s.Sel.Name == "value" {
					n++
					okUse := false
					ast.Inspect(fb.Body, func(y ast.Node) bool {
						call, ok := y.(*ast.CallExpr)
						if !ok {
							return true
						}
						callee := calleeOf(info, call)
						if callee == nil || callee.Pkg() == nil || callee.Pkg().Path() != "sync/atomic" {
							return true
						}
						for _, a := range call.Args {
							if u, ok := ast.Unparen(a).(*ast.UnaryExpr); ok && u.Op == token.AND && ast.Unparen(u.X) == s {
								okUse = true
							}
						}
						// a typed wrapper (atomic.Pointer[T], atomic.Value): the method call on the field is the atomic access
						if msel, ok := ast.Unparen(call.Fun).(*ast.SelectorExpr); ok && ast.Unparen(msel.X) == ast.Expr(s) && callee.Type().(*types.Signature).Recv() != nil {
							okUse = true
						}
						return true
					})
					if okUse {
						c.Add(rule, fb.Name+"/value", s.Pos(), core.Discharged, "accessed through sync/atomic")
					} else {
						c.Add(rule, fb.Name+"/value", s.Pos(), core.Violated, "the pointer field is read or written without sync/atomic: torn or stale reads under concurrency")
					}
				}
			}
			return true
		})
	}
	c.Floor(rule, "accesses of the atomic cell", n, 2)
}
