package rules

// C15 — JSON methods: target unchanged on error, nil receiver checked, null only for None, no self-recursion.

import (
	"go/ast"
	"go/token"
	"go/types"
	"strings"

	"fpcheck/core"

	"golang.org/x/tools/go/cfg"
)

func init() {
	register("C15", "UnmarshalJSON leaves the target unchanged on error and never dereferences a nil receiver; MarshalJSON emits null only for the empty case and never marshals the receiver itself", func(c *core.Ctx) {
		JSONMethods(c)
		JSONQuote(c, "R-JSONQUOTE")
		JSONDecDefault(c, "R-JSONDEC")
		JSONBounds(c, "R-JSONBOUNDS")
		JSONFresh(c, "R-JSONFRESH")
	})
}

func isNilIdent(info *types.Info, e ast.Expr) bool {
	id, ok := ast.Unparen(e).(*ast.Ident)
	if !ok {
		return false
	}
	_, isNil := info.Uses[id].(*types.Nil)
	return isNil
}

func JSONMethods(c *core.Ctx) {
	c.Rule("R-NILRECV", "an UnmarshalJSON method that dereferences its pointer receiver first tests it against nil and returns an error")
	c.Rule("R-UNCHANGED", "every store through the receiver of an UnmarshalJSON method is inside the `err == nil` branch of the decoding call, or every return reachable after it returns a nil error: on error the target is left unchanged")
	c.Rule("R-NULL", "a MarshalJSON method never passes its own receiver (same type) to json.Marshal (unbounded recursion), and fp.Option returns the constant null only on the not-defined side of its test and the encoding of the payload on the defined side")
	nU, nM := 0, 0
	for _, fb := range funcBodies(c, c.Pkgs) {
		if fb.Lit != nil || fb.Decl.Recv == nil || len(fb.Decl.Recv.List) != 1 || len(fb.Decl.Recv.List[0].Names) != 1 {
			continue
		}
		if strings.Contains(fb.Pkg.PkgPath, "/cmd/") || strings.Contains(fb.Pkg.PkgPath, "/internal/generator") {
			continue
		}
		info := fb.Pkg.TypesInfo
		recv := info.Defs[fb.Decl.Recv.List[0].Names[0]]
		if recv == nil {
			continue
		}
		name := fb.Name
		switch fb.Decl.Name.Name {
		case "UnmarshalJSON":
			if _, isPtr := recv.Type().(*types.Pointer); !isPtr {
				continue
			}
			nU++
			// dereferences
			var derefs []ast.Node
			ast.Inspect(fb.Body, func(x ast.Node) bool {
				switch s := x.(type) {
				case *ast.StarExpr:
					if objOf(info, s.X) == recv {
						derefs = append(derefs, s)
					}
				case *ast.SelectorExpr:
					if objOf(info, s.X) == recv {
						derefs = append(derefs, s)
					}
				}
				return true
			})
			if len(derefs) == 0 {
				c.Add("R-NILRECV", name, fb.Decl.Pos(), core.Discharged, "receiver never dereferenced")
			} else {
				guarded := false
				if len(fb.Body.List) > 0 {
					if is, ok := fb.Body.List[0].(*ast.IfStmt); ok {
						if be, ok := ast.Unparen(is.Cond).(*ast.BinaryExpr); ok && be.Op == token.EQL &&
							(objOf(info, be.X) == recv && isNilIdent(info, be.Y) || objOf(info, be.Y) == recv && isNilIdent(info, be.X)) && terminates(is.Body.List) {
							if ret, ok := is.Body.List[len(is.Body.List)-1].(*ast.ReturnStmt); ok && len(ret.Results) == 1 && !isNilIdent(info, ret.Results[0]) {
								guarded = true
							}
						}
					}
				}
				// or (tagless switch `case r == nil:`, merged conditions): no dereference is reachable from the entry without
				// passing a condition that compares the receiver with nil, and some such condition leads to a non-nil error return
				if !guarded {
					isNilTest := func(nd ast.Node) bool {
						return isCondNode(nd) && nodeContains(nd, false, func(x ast.Node) bool {
							be, ok := x.(*ast.BinaryExpr)
							return ok && (be.Op == token.EQL || be.Op == token.NEQ) &&
								(objOf(info, be.X) == recv && isNilIdent(info, be.Y) || objOf(info, be.Y) == recv && isNilIdent(info, be.X))
						})
					}
					isDeref := func(nd ast.Node) bool {
						return nodeContains(nd, false, func(x ast.Node) bool {
							switch s := x.(type) {
							case *ast.StarExpr:
								return objOf(info, s.X) == recv
							case *ast.SelectorExpr:
								return objOf(info, s.X) == recv
							}
							return false
						})
					}
					cg := cfg.New(fb.Body, mayReturn(c, info))
					errRet := nodeContains(fb.Body, false, func(x ast.Node) bool {
						cc, ok := x.(*ast.CaseClause)
						if !ok || len(cc.List) != 1 || !isNilTest(cc.List[0]) || len(cc.Body) == 0 {
							return false
						}
						ret, ok := cc.Body[len(cc.Body)-1].(*ast.ReturnStmt)
						return ok && len(ret.Results) == 1 && !isNilIdent(info, ret.Results[0])
					})
					// …or the inverted guard (`if r != nil { decode; return err }; return fp.Error(…)`): every dereference
					// lies inside the body of an if whose condition has the conjunct `r != nil` (or the else of `r == nil`),
					// and some return constructs an error value
					if !errRet {
						conj := func(e ast.Expr, op token.Token, cmp token.Token) bool {
							var parts []ast.Expr
							var split func(e ast.Expr)
							split = func(e ast.Expr) {
								if be, ok := ast.Unparen(e).(*ast.BinaryExpr); ok && be.Op == op {
									split(be.X)
									split(be.Y)
									return
								}
								parts = append(parts, ast.Unparen(e))
							}
							split(e)
							for _, pe := range parts {
								if be, ok := pe.(*ast.BinaryExpr); ok && be.Op == cmp &&
									(objOf(info, be.X) == recv && isNilIdent(info, be.Y) || objOf(info, be.Y) == recv && isNilIdent(info, be.X)) {
									return true
								}
							}
							return false
						}
						safe := map[ast.Node]bool{}
						ast.Inspect(fb.Body, func(x ast.Node) bool {
							if is, ok := x.(*ast.IfStmt); ok {
								if conj(is.Cond, token.LAND, token.NEQ) {
									safe[is.Body] = true
								}
								if is.Else != nil && conj(is.Cond, token.LOR, token.EQL) {
									safe[is.Else] = true
								}
							}
							return true
						})
						allInside := len(safe) > 0
						var stack []ast.Node
						ast.Inspect(fb.Body, func(x ast.Node) bool {
							if x == nil {
								stack = stack[:len(stack)-1]
								return true
							}
							stack = append(stack, x)
							isD := false
							switch sx := x.(type) {
							case *ast.StarExpr:
								isD = objOf(info, sx.X) == recv
							case *ast.SelectorExpr:
								isD = objOf(info, sx.X) == recv
							}
							if isD {
								in := false
								for _, anc := range stack {
									if safe[anc] {
										in = true
									}
								}
								if !in {
									allInside = false
								}
							}
							return true
						})
						if allInside {
							errRet = nodeContains(fb.Body, false, func(x ast.Node) bool {
								ret, ok := x.(*ast.ReturnStmt)
								if !ok || len(ret.Results) != 1 {
									return false
								}
								_, isCall := ast.Unparen(ret.Results[0]).(*ast.CallExpr)
								return isCall && !isDeref(ret.Results[0])
							})
						}
					}
					if errRet && len(cg.Blocks) > 0 && unguardedReach(cg.Blocks[0], -1, isDeref, isNilTest) == nil {
						guarded = true
					}
				}
				if guarded {
					c.Add("R-NILRECV", name, fb.Decl.Pos(), core.Discharged, "nil receiver rejected with an error before the first dereference")
				} else {
					c.Add("R-NILRECV", name, derefs[0].Pos(), core.Violated, "the receiver is dereferenced without a leading `if "+recv.Name()+" == nil { return err }`: decoding into a nil pointer panics")
				}
			}
			// stores through the receiver
			g := newCFG(c, fb)
			k := 0
			for _, b := range g.Blocks {
				for i, nd := range b.Nodes {
					// &r.field / r handed to a decoder writes the target before the outcome is known
					if nodeContains(nd, false, func(x ast.Node) bool {
						call, ok := x.(*ast.CallExpr)
						if !ok {
							return false
						}
						callee := calleeOf(info, call)
						if callee == nil || callee.Pkg() == nil || callee.Pkg().Path() != "encoding/json" {
							return false
						}
						for _, a := range call.Args {
							a = ast.Unparen(a)
							if u, ok := a.(*ast.UnaryExpr); ok && u.Op == token.AND {
								if sel, ok := ast.Unparen(u.X).(*ast.SelectorExpr); ok && objOf(info, sel.X) == recv {
									return true
								}
							}
							if objOf(info, a) == recv {
								return true
							}
						}
						return false
					}) {
						k++
						c.Add("R-UNCHANGED", name+"/store#"+itoa(k), nd.Pos(), core.Violated, "the decoder is handed the target itself (the receiver or the address of one of its fields): a decode that fails part-way has already modified the target, and encoding/json merges into an existing value instead of replacing it")
						continue
					}
					as, ok := nd.(*ast.AssignStmt)
					if !ok {
						continue
					}
					isStore := false
					for _, l := range as.Lhs {
						switch s := ast.Unparen(l).(type) {
						case *ast.StarExpr:
							if objOf(info, s.X) == recv {
								isStore = true
							}
						case *ast.SelectorExpr:
							if objOf(info, s.X) == recv {
								isStore = true
							}
						}
					}
					if !isStore {
						continue
					}
					k++
					key := name + "/store#" + itoa(k)
					// (a) lexically inside `if err == nil`
					inOK := false
					ast.Inspect(fb.Body, func(x ast.Node) bool {
						is, ok := x.(*ast.IfStmt)
						if !ok {
							return true
						}
						be, ok := ast.Unparen(is.Cond).(*ast.BinaryExpr)
						if !ok || be.Op != token.EQL {
							return true
						}
						var ev ast.Expr
						if isNilIdent(info, be.Y) {
							ev = be.X
						} else if isNilIdent(info, be.X) {
							ev = be.Y
						}
						if ev == nil {
							return true
						}
						if tv, ok := info.Types[ev]; ok && types.Identical(tv.Type, types.Universe.Lookup("error").Type()) {
							if as.Pos() >= is.Body.Pos() && as.End() <= is.Body.End() {
								inOK = true
							}
						}
						return true
					})
					if inOK {
						c.Add("R-UNCHANGED", key, as.Pos(), core.Discharged, "store only when the decoder reported no error")
						continue
					}
					// (b) all returns reachable after the store return nil
					okAll := true
					seen := map[int32]bool{}
					var walk func(blk int, from int)
					var badRet ast.Node
					walk = func(bi int, from int) {
						blk := g.Blocks[bi]
						for _, n2 := range blk.Nodes[from:] {
							if ret, ok := n2.(*ast.ReturnStmt); ok {
								if len(ret.Results) != 1 || !isNilIdent(info, ret.Results[0]) {
									okAll = false
									badRet = ret
								}
							}
						}
						for _, s := range blk.Succs {
							if !seen[s.Index] {
								seen[s.Index] = true
								walk(int(s.Index), 0)
							}
						}
					}
					walk(int(b.Index), i+1)
					if okAll {
						c.Add("R-UNCHANGED", key, as.Pos(), core.Discharged, "every return after the store reports success")
					} else {
						c.Add("R-UNCHANGED", key, as.Pos(), core.Violated, "the target is overwritten and the method can still return an error ("+c.RelPos(badRet.Pos())+"): a failed decode leaves a modified target")
					}
				}
			}
		case "MarshalJSON":
			nM++
			// never json.Marshal(receiver)
			self := false
			ast.Inspect(fb.Body, func(x ast.Node) bool {
				call, ok := x.(*ast.CallExpr)
				if !ok {
					return true
				}
				callee := calleeOf(info, call)
				if callee != nil && callee.Pkg() != nil && callee.Pkg().Path() == "encoding/json" && callee.Name() == "Marshal" && len(call.Args) == 1 {
					a := ast.Unparen(call.Args[0])
					if u, ok := a.(*ast.UnaryExpr); ok && u.Op == token.AND {
						a = ast.Unparen(u.X)
					}
					if objOf(info, a) == recv {
						self = true
						c.Add("R-NULL", name+"/self", call.Pos(), core.Violated, "MarshalJSON passes its own receiver to json.Marshal: encoding recurses into MarshalJSON without bound")
					}
				}
				return true
			})
			if !self {
				c.Add("R-NULL", name+"/self", fb.Decl.Pos(), core.Discharged, "does not marshal the receiver itself")
			}
			// Option: null only on the empty side
			if monadKind(recv.Type()) != "" {
				for _, st := range fb.Body.List {
					is, ok := st.(*ast.IfStmt)
					if !ok {
						continue
					}
					m, onTrue, ok := successTest(info, is.Cond)
					if !ok || m != recv {
						continue
					}
					hasNull := func(list []ast.Stmt) bool {
						for _, s := range list {
							if nodeContains(s, true, func(x ast.Node) bool {
								if bl, ok := x.(*ast.BasicLit); ok && bl.Value == `"null"` {
									return true
								}
								// a module helper whose body is `return []byte("null")` (jsonNull())
								if call, ok := x.(*ast.CallExpr); ok && len(call.Args) == 0 {
									if callee := calleeOf(info, call); callee != nil && callee.Pkg() != nil && strings.HasPrefix(callee.Pkg().Path(), core.ModPath) {
										if hfd := c.FuncDecl(callee.Origin()); hfd != nil && hfd.Body != nil && len(hfd.Body.List) == 1 {
											if r, ok := hfd.Body.List[0].(*ast.ReturnStmt); ok && len(r.Results) == 1 {
												return nodeContains(r.Results[0], true, func(y ast.Node) bool {
													bl, ok := y.(*ast.BasicLit)
													return ok && bl.Value == `"null"`
												})
											}
										}
									}
								}
								return false
							}) {
								return true
							}
						}
						return false
					}
					thenL := is.Body.List
					var restL []ast.Stmt
					for i, s2 := range fb.Body.List {
						if s2 == st {
							restL = fb.Body.List[i+1:]
						}
					}
					if eb, ok := is.Else.(*ast.BlockStmt); ok {
						restL = eb.List
					}
					succ, fail := thenL, restL
					if !onTrue {
						succ, fail = restL, thenL
					}
					if hasNull(succ) {
						c.Add("R-NULL", name+"/null", is.Pos(), core.Violated, "the constant null is emitted on the defined side: Some(v) encodes as null and decodes as None")
					} else if !hasNull(fail) {
						c.Add("R-NULL", name+"/null", is.Pos(), core.Violated, "the not-defined side does not emit null")
					} else {
						// defined side marshals something derived from the receiver's payload
						payload := false
						for _, s := range succ {
							if nodeContains(s, true, func(x ast.Node) bool {
								call, ok := x.(*ast.CallExpr)
								if !ok {
									return false
								}
								callee := calleeOf(info, call)
								if callee == nil || callee.Name() != "Marshal" || len(call.Args) != 1 {
									return false
								}
								return nodeContains(call.Args[0], true, func(y ast.Node) bool {
									id, ok := y.(*ast.Ident)
									return ok && info.Uses[id] == recv
								})
							}) {
								payload = true
							}
						}
						if payload {
							c.Add("R-NULL", name+"/null", is.Pos(), core.Discharged, "null ⇔ not defined; payload encoded otherwise")
						} else {
							c.Add("R-NULL", name+"/null", is.Pos(), core.Violated, "the defined side does not encode the payload of the receiver")
						}
					}
				}
			}
		}
	}
	c.Floor("R-UNCHANGED", "UnmarshalJSON methods", nU, 5)
	c.Floor("R-NULL", "MarshalJSON methods", nM, 5)
}

// JSONBounds: decoding arbitrary bytes never panics — an index or bounded slice of the input of an UnmarshalJSON method
// is reached only after a test of the input's length.
func JSONBounds(c *core.Ctx, rule string) {
	c.Rule(rule, "in an UnmarshalJSON method every index / bounded slice expression on the input bytes is reached only through a condition that consults len(input): a caller may hand in an empty or nil byte string (a delegating wrapper, an absent json.RawMessage)")
	n := 0
	for _, fb := range funcBodies(c, c.Pkgs) {
		if fb.Lit != nil || fb.Decl.Recv == nil || fb.Decl.Name.Name != "UnmarshalJSON" {
			continue
		}
		if strings.Contains(fb.Pkg.PkgPath, "/cmd/") || strings.Contains(fb.Pkg.PkgPath, "/internal/generator") {
			continue
		}
		info := fb.Pkg.TypesInfo
		if fb.Type.Params.NumFields() != 1 || len(fb.Type.Params.List[0].Names) != 1 {
			continue
		}
		in := info.Defs[fb.Type.Params.List[0].Names[0]]
		if in == nil {
			continue
		}
		if sl, ok := in.Type().Underlying().(*types.Slice); !ok || !types.Identical(sl.Elem(), types.Typ[types.Byte]) {
			continue
		}
		n++
		lenTest := func(nd ast.Node) bool {
			return nodeContains(nd, false, func(x ast.Node) bool {
				call, ok := x.(*ast.CallExpr)
				return ok && isBuiltinCall(info, call, "len") && len(call.Args) == 1 && objOf(info, call.Args[0]) == in
			})
		}
		// the right operand of && / || is evaluated only after the left one: `len(b) == 0 || b[0] == 'n'` tests first
		shortCircuited := map[ast.Node]bool{}
		ast.Inspect(fb.Body, func(x ast.Node) bool {
			if be, ok := x.(*ast.BinaryExpr); ok && (be.Op == token.LOR || be.Op == token.LAND) && lenTest(be.X) {
				ast.Inspect(be.Y, func(y ast.Node) bool {
					if y != nil {
						shortCircuited[y] = true
					}
					return true
				})
			}
			return true
		})
		indexes := func(nd ast.Node) bool {
			return nodeContains(nd, false, func(x ast.Node) bool {
				if shortCircuited[x] {
					return false
				}
				switch s := x.(type) {
				case *ast.IndexExpr:
					return objOf(info, s.X) == in
				case *ast.SliceExpr:
					return objOf(info, s.X) == in && (s.Low != nil || s.High != nil)
				}
				return false
			})
		}
		guard := func(nd ast.Node) bool {
			if !isCondNode(nd) {
				return false
			}
			return nodeContains(nd, false, func(x ast.Node) bool {
				call, ok := x.(*ast.CallExpr)
				return ok && isBuiltinCall(info, call, "len") && len(call.Args) == 1 && objOf(info, call.Args[0]) == in
			})
		}
		g := cfg.New(fb.Body, mayReturn(c, info))
		if len(g.Blocks) == 0 {
			continue
		}
		if hit := unguardedReach(g.Blocks[0], -1, indexes, guard); hit != nil {
			c.Add(rule, fb.Name, hit.Pos(), core.Violated, "the input is indexed at "+c.RelPos(hit.Pos())+" on a path that never tested its length: UnmarshalJSON(nil) / UnmarshalJSON([]byte{}) panics with index out of range")
		} else {
			c.Add(rule, fb.Name, fb.Decl.Pos(), core.Discharged, "every index of the input follows a length test (or the input is not indexed)")
		}
	}
	c.Floor(rule, "UnmarshalJSON methods", n, 2)
}
