package rules

// Rules added after seed round 9.

import (
	"go/ast"
	"go/token"
	"go/types"
	"strings"

	"fpcheck/core"

	"golang.org/x/tools/go/cfg"
	"golang.org/x/tools/go/packages"
)

// NegLess (C10): a ≤ b is ¬(b < a). Inside a function named LessEq(a, b), the negation of a strict comparison applied
// to the two parameters in their declared order, !less(a, b), is a ≥ b.
func NegLess(c *core.Ctx, rule string, pkgs []*packages.Package) {
	c.Rule(rule, "in every two-parameter function or method named LessEq, a negated call !f(x, y) whose arguments are exactly the two parameters takes them in swapped order (¬(b < a)); in declared order it denotes a ≥ b")
	for _, fb := range funcBodies(c, pkgs) {
		if fb.Lit != nil || fb.Decl == nil || fb.Decl.Name.Name != "LessEq" || fb.Body == nil {
			continue
		}
		info := fb.Pkg.TypesInfo
		var ps []types.Object
		for _, f := range fb.Type.Params.List {
			for _, nm := range f.Names {
				ps = append(ps, info.Defs[nm])
			}
		}
		if len(ps) != 2 || ps[0] == nil || ps[1] == nil {
			continue
		}
		var bad *ast.UnaryExpr
		ast.Inspect(fb.Body, func(x ast.Node) bool {
			ue, ok := x.(*ast.UnaryExpr)
			if !ok || ue.Op != token.NOT {
				return true
			}
			call, ok := ast.Unparen(ue.X).(*ast.CallExpr)
			if !ok || len(call.Args) != 2 {
				return true
			}
			// a call of Compare/Eqv-like results is not a strict comparison: only bool-valued calls
			if tv, ok := info.Types[call]; !ok || !types.Identical(tv.Type, types.Typ[types.Bool]) {
				return true
			}
			if sel, ok := ast.Unparen(call.Fun).(*ast.SelectorExpr); ok && (sel.Sel.Name == "Eqv" || sel.Sel.Name == "LessEq") {
				return true
			}
			if objOf(info, call.Args[0]) == ps[0] && objOf(info, call.Args[1]) == ps[1] && bad == nil {
				bad = ue
			}
			return true
		})
		if bad != nil {
			c.Add(rule, fb.Name, bad.Pos(), core.Violated, "LessEq("+ps[0].Name()+", "+ps[1].Name()+") is computed as "+exprString(bad)+": the negation of the strict order on the operands in declared order is "+ps[0].Name()+" ≥ "+ps[1].Name()+"; a ≤ b is !less(b, a)")
		} else {
			c.Add(rule, fb.Name, fb.Decl.Pos(), core.Discharged, "no negated strict comparison on the operands in declared order")
		}
	}
}

// CloneIdentity (C18): a Clone method never hands its argument back.
func CloneIdentity(c *core.Ctx, rule string, pkgs []*packages.Package) {
	c.Rule(rule, "no method named Clone with signature func(T) T returns its parameter itself on any path: the copy comes from the instance (the wrapped function), an argument handed back shares all its storage with the original")
	for _, fb := range funcBodies(c, pkgs) {
		if fb.Lit != nil || fb.Decl == nil || fb.Decl.Recv == nil || fb.Decl.Name.Name != "Clone" || fb.Body == nil {
			continue
		}
		info := fb.Pkg.TypesInfo
		if fb.Type.Params.NumFields() != 1 || fb.Type.Results == nil || fb.Type.Results.NumFields() != 1 || len(fb.Type.Params.List[0].Names) != 1 {
			continue
		}
		po := info.Defs[fb.Type.Params.List[0].Names[0]]
		if po == nil {
			continue
		}
		if rt, ok := info.Types[fb.Type.Results.List[0].Type]; !ok || !types.Identical(rt.Type, po.Type()) {
			continue
		}
		var bad *ast.ReturnStmt
		ast.Inspect(fb.Body, func(x ast.Node) bool {
			if _, isLit := x.(*ast.FuncLit); isLit {
				return false
			}
			if ret, ok := x.(*ast.ReturnStmt); ok && len(ret.Results) == 1 && objOf(info, ret.Results[0]) == po && bad == nil {
				bad = ret
			}
			return true
		})
		if bad != nil {
			c.Add(rule, fb.Name, bad.Pos(), core.Violated, "Clone returns its argument "+po.Name()+" itself: the result shares every pointer, slice and map of the original")
		} else {
			c.Add(rule, fb.Name, fb.Decl.Pos(), core.Discharged, "the argument is never returned as the copy")
		}
	}
}

// OneDispatch (C05): a registration method hands its call-back over at most once per call.
func OneDispatch(c *core.Ctx, rule string, p *packages.Package) {
	c.Rule(rule, "in every method of Future / Promise that takes a call-back (a function-typed parameter), no path through the method (go/cfg) hands that call-back over twice — a hand-over is a statement that passes the parameter to a call or mentions it inside a function literal — and no hand-over lies on a cycle: a registered call-back runs exactly once")
	n := 0
	for _, fb := range funcBodies(c, []*packages.Package{p}) {
		if fb.Lit != nil || fb.Decl == nil || fb.Decl.Recv == nil || fb.Body == nil {
			continue
		}
		rn := core.RecvTypeName(fb.Decl.Recv.List[0].Type)
		if rn != "Future" && rn != "Promise" {
			continue
		}
		info := fb.Pkg.TypesInfo
		for _, f := range fb.Type.Params.List {
			for _, nm := range f.Names {
				po := info.Defs[nm]
				if po == nil {
					continue
				}
				if _, isFn := po.Type().Underlying().(*types.Signature); !isFn {
					continue
				}
				n++
				key := fb.Name + "/" + po.Name()
				selfFn := info.Defs[fb.Decl.Name]
				handsOver := func(nd ast.Node) bool {
					return nodeContains(nd, true, func(x ast.Node) bool {
						switch s := x.(type) {
						case *ast.CallExpr:
							// the method calling itself with the same call-back is the retry of a lost CAS, not a second registration
							if callee := calleeOf(info, s); callee != nil && selfFn != nil && (callee == selfFn || callee.Origin() == selfFn) {
								return false
							}
							for _, a := range s.Args {
								if objOf(info, a) == po {
									return true
								}
							}
						case *ast.FuncLit:
							return nodeContains(s.Body, true, func(y ast.Node) bool {
								id, ok := y.(*ast.Ident)
								return ok && info.Uses[id] == po
							})
						}
						return false
					})
				}
				g := cfg.New(fb.Body, mayReturn(c, info))
				if len(g.Blocks) == 0 {
					continue
				}
				cnt := map[*cfg.Block]int{}
				var first = map[*cfg.Block]ast.Node{}
				for _, b := range g.Blocks {
					for _, nd := range b.Nodes {
						if handsOver(nd) {
							cnt[b]++
							if first[b] == nil {
								first[b] = nd
							}
						}
					}
				}
				// longest path (number of hand-overs) from the entry; a hand-over on a cycle counts as two
				best := map[*cfg.Block]int{}
				onStack := map[*cfg.Block]bool{}
				var witness ast.Node
				cyc := false
				var dfs func(b *cfg.Block, acc int)
				dfs = func(b *cfg.Block, acc int) {
					acc += cnt[b]
					if acc >= 2 && witness == nil && cnt[b] > 0 {
						witness = first[b]
					}
					if v, ok := best[b]; ok && v >= acc {
						return
					}
					best[b] = acc
					onStack[b] = true
					for _, s := range b.Succs {
						if onStack[s] {
							// back edge: does the cycle contain a hand-over?
							if cnt[s] > 0 || cnt[b] > 0 {
								cyc = true
								if witness == nil {
									witness = first[s]
									if witness == nil {
										witness = first[b]
									}
								}
							}
							continue
						}
						if acc < 3 {
							dfs(s, acc)
						}
					}
					onStack[b] = false
				}
				dfs(g.Blocks[0], 0)
				if witness != nil || cyc {
					pos := fb.Decl.Pos()
					if witness != nil {
						pos = witness.Pos()
					}
					c.Add(rule, key, pos, core.Violated, "the call-back "+po.Name()+" is handed over a second time on one path through "+fb.Name+" (at "+c.RelPos(pos)+"): it runs twice for one registration")
				} else {
					c.Add(rule, key, fb.Decl.Pos(), core.Discharged, "at most one hand-over on every path")
				}
			}
		}
	}
	c.Floor(rule, "call-back parameters of Future/Promise methods", n, 10)
}

// LoopStop (C02): a loop that applies a user function returning Try examines each result before the next iteration.
func LoopStop(c *core.Ctx, rule string, pkgs []*packages.Package) {
	c.Rule(rule, "in the Try packages, a for/range loop whose body calls a function-typed parameter that returns fp.Try (the user's step function) contains, in the same loop body, a branch on that result (a condition that mentions the call or a variable assigned from it) that leaves the loop (return / break / goto): after a failing element the function is not applied to later elements")
	n := 0
	for _, fb := range funcBodies(c, pkgs) {
		if fb.Body == nil {
			continue
		}
		info := fb.Pkg.TypesInfo
		isUserStep := func(call *ast.CallExpr) bool {
			id, ok := ast.Unparen(call.Fun).(*ast.Ident)
			if !ok {
				return false
			}
			v, ok := info.Uses[id].(*types.Var)
			if !ok || v.IsField() || v.Parent() == nil || v.Parent() == fb.Pkg.Types.Scope() {
				return false
			}
			sig, ok := v.Type().Underlying().(*types.Signature)
			if !ok || sig.Results().Len() != 1 || !isNamed(sig.Results().At(0).Type(), "fp", "Try") {
				return false
			}
			// a parameter (of this function or an enclosing one), not a local closure
			return isParamVar(fb, info, v)
		}
		ast.Inspect(fb.Body, func(x ast.Node) bool {
			if lit, ok := x.(*ast.FuncLit); ok && (fb.Lit == nil || lit != fb.Lit) {
				return false // judged as its own body
			}
			var body *ast.BlockStmt
			var loopCond ast.Expr
			switch s := x.(type) {
			case *ast.ForStmt:
				body = s.Body
				loopCond = s.Cond
			case *ast.RangeStmt:
				body = s.Body
			}
			if body == nil {
				return true
			}
			var step *ast.CallExpr
			ast.Inspect(body, func(y ast.Node) bool {
				if _, isLit := y.(*ast.FuncLit); isLit {
					return false
				}
				if call, ok := y.(*ast.CallExpr); ok && step == nil && isUserStep(call) {
					step = call
				}
				return true
			})
			if step == nil {
				return true
			}
			n++
			key := fb.Name + "/loop@" + exprString(step)
			derived := map[types.Object]bool{}
			mentions := func(nd ast.Node) bool {
				return nd != nil && nodeContains(nd, false, func(z ast.Node) bool {
					if z == ast.Node(step) {
						return true
					}
					id, ok := z.(*ast.Ident)
					return ok && derived[info.Uses[id]]
				})
			}
			for changed := true; changed; {
				changed = false
				ast.Inspect(body, func(y ast.Node) bool {
					if as, ok := y.(*ast.AssignStmt); ok {
						for i, l := range as.Lhs {
							rhs := as.Rhs[0]
							if i < len(as.Rhs) {
								rhs = as.Rhs[i]
							}
							o := objOf(info, l)
							if id, isId := l.(*ast.Ident); isId && o == nil {
								o = info.Defs[id]
							}
							if o != nil && !derived[o] && mentions(rhs) {
								derived[o] = true
								changed = true
							}
						}
					}
					return true
				})
			}
			leaves := func(nd ast.Node) bool {
				return nd != nil && nodeContains(nd, false, func(z ast.Node) bool {
					switch b := z.(type) {
					case *ast.ReturnStmt:
						return true
					case *ast.BranchStmt:
						return b.Tok == token.BREAK || b.Tok == token.GOTO
					}
					return false
				})
			}
			examined := nodeContains(body, false, func(y ast.Node) bool {
				switch s := y.(type) {
				case *ast.IfStmt:
					return (mentions(s.Cond) || mentions(s.Init)) && (leaves(s.Body) || leaves(s.Else))
				case *ast.SwitchStmt:
					return (mentions(s.Tag) || mentions(s.Init) || mentions(s.Body)) && leaves(s.Body)
				}
				return false
			})
			// …or the loop condition itself examines the result (`for i := 0; acc.IsSuccess() && i < n; i++`)
			if !examined && loopCond != nil && mentions(loopCond) {
				examined = true
			}
			if examined {
				c.Add(rule, key, step.Pos(), core.Discharged, "the loop leaves on a branch that examines the step's result")
			} else {
				c.Add(rule, key, step.Pos(), core.Violated, "the loop applies the user function "+exprString(step.Fun)+" to every element and never branches on its result inside the loop: after a failing element the function still runs for all later elements (failure does not short-circuit)")
			}
			return true
		})
	}
	c.Floor(rule, "loops applying a Try-valued step function", n, 4)
}

// isParamVar: v is a parameter of fb's function or of a function enclosing it.
func isParamVar(fb *fnBody, info *types.Info, v *types.Var) bool {
	found := false
	check := func(ft *ast.FuncType) {
		if ft == nil || ft.Params == nil {
			return
		}
		for _, f := range ft.Params.List {
			for _, nm := range f.Names {
				if info.Defs[nm] == v {
					found = true
				}
			}
		}
	}
	check(fb.Type)
	if fb.Decl != nil {
		check(fb.Decl.Type)
		ast.Inspect(fb.Decl, func(x ast.Node) bool {
			if lit, ok := x.(*ast.FuncLit); ok {
				check(lit.Type)
			}
			return true
		})
	}
	return found
}

// UserOncePerCell (C16): the two thunks of a lazy list cell (head, tail) do not both apply the user's function.
func UserOncePerCell(c *core.Ctx, rule string, pkgs []*packages.Package) {
	c.Rule(rule, "in a function that builds a lazy cell with fp.MakeList(head, tail), a function-typed parameter — or a local function obtained by wrapping it (w := wrap(fn), w of function type) — is not *called* inside both thunk literals: a user function applied once per cell is applied by one thunk (or through one shared memoised lazy.Call), otherwise forcing head and tail runs it twice for the same element")
	n := 0
	for _, fb := range funcBodies(c, pkgs) {
		if fb.Lit != nil || fb.Decl == nil || fb.Body == nil {
			continue
		}
		info := fb.Pkg.TypesInfo
		userFns := map[types.Object]bool{}
		for _, f := range fb.Type.Params.List {
			for _, nm := range f.Names {
				if o := info.Defs[nm]; o != nil {
					if _, isFn := o.Type().Underlying().(*types.Signature); isFn {
						userFns[o] = true
					}
				}
			}
		}
		if len(userFns) == 0 {
			continue
		}
		// wrappers: w := g(fn) where w has function type
		ast.Inspect(fb.Body, func(x ast.Node) bool {
			as, ok := x.(*ast.AssignStmt)
			if !ok || as.Tok != token.DEFINE || len(as.Lhs) != 1 || len(as.Rhs) != 1 {
				return true
			}
			call, ok := ast.Unparen(as.Rhs[0]).(*ast.CallExpr)
			if !ok {
				return true
			}
			id, ok := as.Lhs[0].(*ast.Ident)
			if !ok || info.Defs[id] == nil {
				return true
			}
			if _, isFn := info.Defs[id].Type().Underlying().(*types.Signature); !isFn {
				return true
			}
			for _, a := range call.Args {
				if userFns[objOf(info, a)] {
					userFns[info.Defs[id]] = true
				}
			}
			return true
		})
		ast.Inspect(fb.Body, func(x ast.Node) bool {
			call, ok := x.(*ast.CallExpr)
			if !ok || len(call.Args) != 2 {
				return true
			}
			callee := calleeOf(info, call)
			if callee == nil || !funcIs(callee, "fp", "MakeList") {
				return true
			}
			h, ok1 := ast.Unparen(call.Args[0]).(*ast.FuncLit)
			t, ok2 := ast.Unparen(call.Args[1]).(*ast.FuncLit)
			if !ok1 || !ok2 {
				return true
			}
			calls := func(lit *ast.FuncLit) map[types.Object]*ast.CallExpr {
				out := map[types.Object]*ast.CallExpr{}
				ast.Inspect(lit.Body, func(y ast.Node) bool {
					if _, isLit := y.(*ast.FuncLit); isLit && y != ast.Node(lit) {
						return false // a nested literal is deferred work of its own (judged where it is forced)
					}
					if cc, ok := y.(*ast.CallExpr); ok {
						if o := objOf(info, cc.Fun); o != nil && userFns[o] && out[o] == nil {
							out[o] = cc
						}
					}
					return true
				})
				return out
			}
			hc, tc := calls(h), calls(t)
			n++
			key := fb.Name + "/MakeList"
			var bad *ast.CallExpr
			for o, cc := range tc {
				if hc[o] != nil && (bad == nil || cc.Pos() < bad.Pos()) {
					bad = cc
				}
			}
			if bad != nil {
				c.Add(rule, key, bad.Pos(), core.Violated, "both the head thunk and the tail thunk call "+exprString(bad.Fun)+": forcing the head and then the tail of one cell applies the user's function twice to the same element")
			} else {
				c.Add(rule, key, call.Pos(), core.Discharged, "no user function is called by both thunks")
			}
			return true
		})
	}
	c.Floor(rule, "MakeList cells in functions with a function parameter", n, 6)
}

// SkipEmpty (C20, C12): an iterator combinator that obtains inner iterators from a user function keeps asking until
// one of them has an element.
func SkipEmpty(c *core.Ctx, rule string, pkgs []*packages.Package) {
	c.Rule(rule, "in the iterator packages, a call of a function-typed parameter that returns an fp.Iterator (the inner iterator of a flat-map) made inside a function literal lies inside a for loop of the enclosing declaration, or inside a literal / declaration that refers to itself (recursion): an inner iterator may be empty, so answering from the first one obtained loses the elements behind it")
	n := 0
	for _, fb := range funcBodies(c, pkgs) {
		if fb.Lit != nil || fb.Decl == nil || fb.Body == nil {
			continue
		}
		info := fb.Pkg.TypesInfo
		inner := map[types.Object]bool{}
		for _, f := range fb.Type.Params.List {
			for _, nm := range f.Names {
				if o := info.Defs[nm]; o != nil {
					if sig, isFn := o.Type().Underlying().(*types.Signature); isFn && sig.Results().Len() == 1 && isNamed(sig.Results().At(0).Type(), "fp", "Iterator") {
						inner[o] = true
					}
				}
			}
		}
		if len(inner) == 0 {
			continue
		}
		self := info.Defs[fb.Decl.Name]
		declRecursive := nodeContains(fb.Body, true, func(x ast.Node) bool {
			id, ok := x.(*ast.Ident)
			return ok && self != nil && info.Uses[id] == self
		})
		// literals bound to a local that they mention themselves
		selfRef := map[*ast.FuncLit]bool{}
		ast.Inspect(fb.Body, func(x ast.Node) bool {
			var lhs []ast.Expr
			var rhs []ast.Expr
			switch s := x.(type) {
			case *ast.AssignStmt:
				lhs, rhs = s.Lhs, s.Rhs
			case *ast.ValueSpec:
				for _, nm := range s.Names {
					lhs = append(lhs, nm)
				}
				rhs = s.Values
			}
			if len(lhs) != len(rhs) {
				return true
			}
			for i, r := range rhs {
				lit, ok := ast.Unparen(r).(*ast.FuncLit)
				if !ok {
					continue
				}
				o := objOf(info, lhs[i])
				if id, isId := lhs[i].(*ast.Ident); isId && o == nil {
					o = info.Defs[id]
				}
				if o != nil && nodeContains(lit.Body, true, func(y ast.Node) bool {
					id, ok := y.(*ast.Ident)
					return ok && info.Uses[id] == o
				}) {
					selfRef[lit] = true
				}
			}
			return true
		})
		var stack []ast.Node
		ast.Inspect(fb.Body, func(x ast.Node) bool {
			if x == nil {
				stack = stack[:len(stack)-1]
				return true
			}
			stack = append(stack, x)
			call, ok := x.(*ast.CallExpr)
			if !ok || !inner[objOf(info, call.Fun)] {
				return true
			}
			inLit, inLoop, inSelf := false, false, declRecursive
			for _, anc := range stack {
				switch a := anc.(type) {
				case *ast.FuncLit:
					// the thunks of the iterator protocol take no parameters; a literal with parameters (Compose's
					// func(a A) Iterator[C]) is a function the caller applies, not a per-demand step
					if a.Type.Params.NumFields() == 0 {
						inLit = true
					}
					if selfRef[a] {
						inSelf = true
					}
				case *ast.ForStmt, *ast.RangeStmt:
					inLoop = true
				}
			}
			if !inLit {
				return true // applied eagerly, once, when the combinator is called: not a per-demand inner iterator
			}
			n++
			key := fb.Name + "/" + exprString(call.Fun)
			if inLoop || inSelf {
				c.Add(rule, key, call.Pos(), core.Discharged, "inner iterators are requested in a loop / recursively")
			} else {
				c.Add(rule, key, call.Pos(), core.Violated, "the inner iterator "+exprString(call)+" is obtained once per demand, outside any loop or recursion: when it is empty the combinator answers from it although later inner iterators have elements (HasNext false while elements remain)")
			}
			return true
		})
	}
	c.Floor(rule, "inner-iterator requests inside protocol thunks", n, 2)
}

// ArgOrder (C01): MapN(x1, …, xn, f) = x1.FlatMap(v1 => … xn.Map(vn => f(v1, …, vn))): the value bound by the
// continuation attached to the i-th operand is the i-th argument of f.
func ArgOrder(c *core.Ctx, rule string, pkgs []*packages.Package) {
	c.Rule(rule, "in a function named Map<N> / LiftA<N> / LiftM<N> / ZipWith<N> whose parameters are n operands followed by an n-ary function f, the call f(a1, …, an) made inside nested continuation literals takes as a_i the parameter of the literal that is attached (argument of a call that mentions operand x_i) to the i-th operand: the derived combinator equals its FlatMap/Map definition also when two operands have the same type")
	n := 0
	for _, fb := range funcBodies(c, pkgs) {
		if fb.Lit != nil || fb.Decl == nil || fb.Body == nil || fb.Decl.Recv != nil {
			continue
		}
		name := fb.Decl.Name.Name
		base := strings.TrimRight(name, "0123456789")
		if base == name || (base != "Map" && base != "LiftA" && base != "LiftM" && base != "ZipWith") {
			continue
		}
		info := fb.Pkg.TypesInfo
		var params []types.Object
		for _, f := range fb.Type.Params.List {
			for _, nm := range f.Names {
				params = append(params, info.Defs[nm])
			}
		}
		// f: the first function-typed parameter with arity k >= 2, preceded by at least k operands
		fi := -1
		arity := 0
		for i, p := range params {
			if p == nil {
				continue
			}
			if sig, ok := p.Type().Underlying().(*types.Signature); ok && sig.Params().Len() >= 2 && i >= sig.Params().Len() {
				fi, arity = i, sig.Params().Len()
				break
			}
		}
		if fi < 0 {
			continue
		}
		operands := params[fi-arity : fi]
		opIndex := map[types.Object]int{}
		for i, o := range operands {
			if o != nil {
				opIndex[o] = i
			}
		}
		// literal parameter -> index of the operand its literal is attached to
		bound := map[types.Object]int{}
		ast.Inspect(fb.Body, func(x ast.Node) bool {
			call, ok := x.(*ast.CallExpr)
			if !ok {
				return true
			}
			// operands mentioned directly by this call (receiver or plain arguments, not inside literals)
			idx := -1
			count := 0
			see := func(e ast.Expr) {
				if o := objOf(info, e); o != nil {
					if i, ok := opIndex[o]; ok {
						idx = i
						count++
					}
				}
			}
			if sel, ok := ast.Unparen(call.Fun).(*ast.SelectorExpr); ok {
				see(sel.X)
			}
			for _, a := range call.Args {
				see(a)
			}
			if count != 1 {
				return true
			}
			for _, a := range call.Args {
				if lit, ok := ast.Unparen(a).(*ast.FuncLit); ok && len(lit.Type.Params.List) == 1 && len(lit.Type.Params.List[0].Names) == 1 {
					if o := info.Defs[lit.Type.Params.List[0].Names[0]]; o != nil {
						bound[o] = idx
					}
				}
			}
			return true
		})
		ast.Inspect(fb.Body, func(x ast.Node) bool {
			call, ok := x.(*ast.CallExpr)
			if !ok || objOf(info, call.Fun) != params[fi] || len(call.Args) != arity {
				return true
			}
			n++
			key := fb.Name + "/" + exprString(call.Fun)
			resolved := true
			bad := -1
			for i, a := range call.Args {
				o := objOf(info, a)
				j, ok := bound[o]
				if o == nil || !ok {
					resolved = false
					break
				}
				if j != i && bad < 0 {
					bad = i
				}
			}
			switch {
			case !resolved:
				c.Add(rule, key, call.Pos(), core.Skipped, "arguments are not all parameters of continuations attached to single operands: "+exprString(call))
			case bad >= 0:
				c.Add(rule, key, call.Pos(), core.Violated, exprString(call)+": argument "+itoa(bad+1)+" is the value bound from operand "+itoa(bound[objOf(info, call.Args[bad])]+1)+" ("+operands[bound[objOf(info, call.Args[bad])]].Name()+"): "+name+" no longer equals its FlatMap/Map definition (the operands reach f in permuted order)")
			default:
				c.Add(rule, key, call.Pos(), core.Discharged, "each argument comes from the continuation of the operand in the same position")
			}
			return true
		})
	}
	c.Floor(rule, "MapN-style definitions", n, 8)
}
