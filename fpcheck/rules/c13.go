package rules

// C13 — generator determinism (map-order rule), orphan/cross-reference rule, format error rule.

import (
	"go/ast"
	"go/constant"
	"go/token"
	"go/types"
	"os"
	"path/filepath"
	"sort"
	"strings"

	"fpcheck/core"

	"golang.org/x/tools/go/packages"
)

func init() {
	register("C13", "generators: no map-iteration order reaches emitted text unsorted; every generated file has its directive and every directive its file; format errors are fatal", func(c *core.Ctx) {
		Det(c, "R-DET")
		DetExpr(c, "R-DET")
		Orphan(c, "R-ORPHAN")
		FmtErr(c, "R-FMTERR")
		SortUsed(c, "R-SORTUSED", c.Pkgs)
		var disc []*packages.Package
		for _, p := range c.Pkgs {
			if strings.HasSuffix(p.PkgPath, "/genfp/generator") || strings.HasSuffix(p.PkgPath, "/metafp") {
				disc = append(disc, p)
			}
		}
		TagExact(c, "R-TAGEXACT", disc)
	})
}

func generatorPkgs(c *core.Ctx) []*packages.Package {
	var out []*packages.Package
	for _, p := range c.Pkgs {
		rel := core.ShortPkg(p.PkgPath)
		if rel == "cmd/gombok" || rel == "metafp" || rel == "genfp" || strings.HasPrefix(rel, "genfp/") || strings.HasPrefix(rel, "internal/generator") {
			out = append(out, p)
		}
	}
	return out
}

// mapLikeSource: does the expression enumerate a hash-ordered collection?
func unorderedSource(info *types.Info, e ast.Expr) (string, bool) {
	e = ast.Unparen(e)
	if tv, ok := info.Types[e]; ok {
		if _, isMap := tv.Type.Underlying().(*types.Map); isMap {
			return "Go map " + types.TypeString(tv.Type, func(p *types.Package) string { return p.Name() }), true
		}
	}
	if call, ok := e.(*ast.CallExpr); ok {
		if sel, ok := ast.Unparen(call.Fun).(*ast.SelectorExpr); ok {
			switch sel.Sel.Name {
			case "Iterator", "Keys", "Values", "All", "ToSeq":
				if tv, ok := info.Types[sel.X]; ok {
					t := tv.Type
					if isNamed(t, "fp", "Map") || isNamed(t, "fp", "Set") || isNamed(t, "mutable", "Map") || isNamed(t, "mutable", "Set") || isNamed(t, "fp", "UnsafeGoMap") || isNamed(t, "fp", "UnsafeGoSet") {
						return typeBaseName(t) + "." + sel.Sel.Name + "()", true
					}
				}
			}
		}
		if callee := calleeOf(info, call); callee != nil && callee.Pkg() != nil {
			full := callee.Pkg().Path() + "." + callee.Name()
			switch {
			case strings.HasSuffix(full, "/seq.FromMap"), strings.HasSuffix(full, "/seq.FromMapKeys"), strings.HasSuffix(full, "/seq.FromMapValues"),
				strings.HasSuffix(full, "/iterator.FromMap"), strings.HasSuffix(full, "/iterator.FromMapKey"), strings.HasSuffix(full, "/iterator.FromMapValue"),
				full == "maps.Keys", full == "maps.Values", full == "maps.All":
				return callee.Name() + "(map)", true
			}
		}
	}
	return "", false
}

// detTable: order-sensitive-looking sites that are deterministic for a stated reason (function + source).
var detTable = map[string]string{
	"genfp.workingPackage.EvalTypeExpr|collects into imports in map order without sorting it afterwards":                               usesReason,
	"genfp/generator.evalConst|collects into imports in map order without sorting it afterwards":                                       usesReason,
	"genfp/generator.evalFuncLit|collects into imports in map order without sorting it afterwards":                                     usesReason,
	"metafp.EvalTypeExprWithImport|collects into imports in map order without sorting it afterwards":                                   usesReason,
	"cmd/gombok.TypeClassSummonContext.lookupTypeClassInstanceLocalDeclared|Map.Keys()|notused: consumed by Foreach (order-sensitive)": "each element is removed from a set (UsedParam.Excl): set difference does not depend on the order of removals",
	"metafp.EvalTypeExprWithImport|calls fmt.Printf per element":                                                                       "diagnostic print of a constant string to stdout, not part of any generated file",
}

const usesReason = "imports are collected from types.Info.Uses in map order but only feed GetImportedName with the source file's own local package name as alias, which is unique per file: no two entries of one loop can collide, so the alias table is order-independent"

// detCond: sites that are deterministic only while a re-checked condition on the repository holds.
var detCond = map[string]func(c *core.Ctx) (bool, string){
	"genfp.writer.ImportList|collects into ret in map order without sorting it afterwards": func(c *core.Ctx) (bool, string) {
		// every caller must pass the list through go/format.Source (which sorts the import block) — itself, through a
		// helper it calls, or in every function that calls it (the text is assembled in one function and formatted by
		// its caller): call graph over the generator packages, three levels up and down
		type fnode struct {
			fb      *fnBody
			callees map[*types.Func]bool
			formats bool
			imports bool
		}
		nodes := map[*types.Func]*fnode{}
		for _, fb := range funcBodies(c, generatorPkgs(c)) {
			if fb.Lit != nil || fb.Decl == nil {
				continue
			}
			info := fb.Pkg.TypesInfo
			self, _ := info.Defs[fb.Decl.Name].(*types.Func)
			if self == nil {
				continue
			}
			n := &fnode{fb: fb, callees: map[*types.Func]bool{}}
			ast.Inspect(fb.Body, func(x ast.Node) bool {
				call, ok := x.(*ast.CallExpr)
				if !ok {
					return true
				}
				callee := calleeOf(info, call)
				if callee == nil || callee.Pkg() == nil {
					return true
				}
				if callee.Pkg().Path() == "go/format" && callee.Name() == "Source" {
					n.formats = true
				}
				if callee.Name() == "ImportList" && strings.HasSuffix(callee.Pkg().Path(), "/genfp") {
					n.imports = true
				}
				n.callees[callee.Origin()] = true
				return true
			})
			nodes[self.Origin()] = n
		}
		var formatsDown func(f *types.Func, depth int) bool
		formatsDown = func(f *types.Func, depth int) bool {
			n := nodes[f]
			if n == nil || depth > 3 {
				return false
			}
			if n.formats {
				return true
			}
			for cal := range n.callees {
				if cal != f && formatsDown(cal, depth+1) {
					return true
				}
			}
			return false
		}
		var normalised func(f *types.Func, depth int) bool
		normalised = func(f *types.Func, depth int) bool {
			if formatsDown(f, 0) {
				return true
			}
			if depth > 3 {
				return false
			}
			callers := 0
			for g, n := range nodes {
				if g != f && n.callees[f] {
					callers++
					if !normalised(g, depth+1) {
						return false
					}
				}
			}
			return callers > 0
		}
		callers, formatted := 0, 0
		for f, n := range nodes {
			if !n.imports {
				continue
			}
			callers++
			if normalised(f, 0) {
				formatted++
			}
		}
		if callers >= 1 && callers == formatted {
			return true, "every caller of ImportList (" + itoa(callers) + ") passes the text through go/format.Source (itself, in a helper, or in all of its callers), which sorts the import block"
		}
		return false, "ImportList returns the imports in map order and a caller does not normalise them through go/format.Source"
	},
	"cmd/gombok.generateAdaptor|assigns fieldSet":  adaptorDirectiveCond("ExtendsWith", ""),
	"cmd/gombok.generateAdaptor|assigns methodSet": adaptorDirectiveCond("Options", "Delegate"),
}

// adaptorDirectiveCond: every in-module genfp.GenerateAdaptor literal has at most one entry in field (with subKey, if given).
func adaptorDirectiveCond(field, subKey string) func(c *core.Ctx) (bool, string) {
	return func(c *core.Ctx) (bool, string) {
		nLit := 0
		for _, p := range c.Pkgs {
			info := p.TypesInfo
			for _, f := range p.Syntax {
				bad := ""
				ast.Inspect(f, func(x ast.Node) bool {
					cl, ok := x.(*ast.CompositeLit)
					if !ok {
						return true
					}
					tv, ok := info.Types[cl]
					if !ok || !isNamed(tv.Type, "genfp", "GenerateAdaptor") {
						return true
					}
					nLit++
					for _, el := range cl.Elts {
						kv, ok := el.(*ast.KeyValueExpr)
						if !ok || exprString(kv.Key) != field {
							continue
						}
						inner, ok := ast.Unparen(kv.Value).(*ast.CompositeLit)
						if !ok {
							continue
						}
						cnt := 0
						for _, e := range inner.Elts {
							if subKey == "" {
								cnt++
								continue
							}
							if nodeContains(e, true, func(y ast.Node) bool {
								k, ok := y.(*ast.KeyValueExpr)
								return ok && exprString(k.Key) == subKey
							}) {
								cnt++
							}
						}
						if cnt > 1 {
							bad = c.RelPos(cl.Pos())
						}
					}
					return true
				})
				if bad != "" {
					return false, "the GenerateAdaptor directive at " + bad + " has more than one qualifying " + field + " entry: struct fields / method implementations are emitted in Go map order"
				}
			}
		}
		return true, "latent: the loop appends emitted text in map order, but every in-module GenerateAdaptor directive (" + itoa(nLit) + ") has at most one qualifying " + field + " entry"
	}
}

func Det(c *core.Ctx, rule string) {
	c.Rule(rule, "in the generator packages every enumeration of a hash-ordered collection (range over a Go map, iterators of fp.Map/fp.Set/mutable.Map/Set, seq.FromMap*, maps.Keys…) either has an order-insensitive body (map/set insertion keyed by the loop key, boolean accumulation, counting), or feeds a slice that is sorted before use, or is listed with a reason; otherwise emitted text depends on Go's randomised map order")
	n := 0
	for _, fb := range funcBodies(c, generatorPkgs(c)) {
		if fb.Lit != nil {
			continue
		}
		info := fb.Pkg.TypesInfo
		k := 0
		ast.Inspect(fb.Body, func(x ast.Node) bool {
			switch s := x.(type) {
			case *ast.RangeStmt:
				src, ok := unorderedSource(info, s.X)
				if !ok {
					return true
				}
				k++
				n++
				key := fb.Name + "/range#" + itoa(k)
				verdict, why := classifyLoop(info, fb, s)
				tkey := fb.Name + "|" + why
				switch {
				case verdict:
					c.Add(rule, key, s.Pos(), core.Discharged, src+": "+why)
				case detTable[tkey] != "":
					c.Add(rule, key, s.Pos(), core.Discharged, src+": listed — "+detTable[tkey])
				case detCond[tkey] != nil:
					if ok, msg := detCond[tkey](c); ok {
						c.Add(rule, key, s.Pos(), core.Discharged, src+": conditionally deterministic — "+msg)
					} else {
						c.Add(rule, key, s.Pos(), core.Violated, "range over "+src+" in map order: "+msg)
					}
				default:
					c.Add(rule, key, s.Pos(), core.Violated, "range over "+src+" with an order-sensitive body ("+why+"): the emitted text depends on map iteration order")
				}
			}
			return true
		})
	}
	c.Floor(rule, "enumerations of hash-ordered collections", n, 10)
}

// classifyLoop: is the body of a range over an unordered source order-insensitive (or sorted afterwards)?
func classifyLoop(info *types.Info, fb *fnBody, rs *ast.RangeStmt) (bool, string) {
	keyObj := types.Object(nil)
	if rs.Key != nil {
		keyObj = objOf(info, rs.Key)
	}
	var appended []types.Object
	sensitive := ""
	var check func(list []ast.Stmt)
	check = func(list []ast.Stmt) {
		for _, st := range list {
			switch s := st.(type) {
			case *ast.AssignStmt:
				for i, l := range s.Lhs {
					lhs := ast.Unparen(l)
					// m[k] = …  (keyed insertion) — order-insensitive when the index mentions the loop key or value
					if ix, ok := lhs.(*ast.IndexExpr); ok {
						if tv, ok := info.Types[ix.X]; ok {
							if _, isMap := tv.Type.Underlying().(*types.Map); isMap {
								continue
							}
						}
					}
					// x = append(x, …): remember the slice; fine if sorted later
					if i < len(s.Rhs) {
						if call, ok := ast.Unparen(s.Rhs[i]).(*ast.CallExpr); ok && isBuiltinCall(info, call, "append") {
							if o := objOf(info, lhs); o != nil {
								appended = append(appended, o)
								continue
							}
						}
					}
					// boolean / numeric accumulation: x = x || …, n += …, x = true
					if s.Tok == token.ADD_ASSIGN || s.Tok == token.OR_ASSIGN {
						if tv, ok := info.Types[lhs]; ok {
							if b, ok := tv.Type.Underlying().(*types.Basic); ok && b.Info()&(types.IsNumeric|types.IsBoolean) != 0 {
								continue
							}
						}
					}
					if tv, ok := info.Types[lhs]; ok {
						if b, ok := tv.Type.Underlying().(*types.Basic); ok && b.Kind() == types.Bool {
							continue
						}
					}
					if s.Tok == token.DEFINE {
						continue // a fresh local per iteration
					}
					sensitive = "assigns " + exprString(lhs)
				}
			case *ast.IfStmt:
				check(s.Body.List)
				if eb, ok := s.Else.(*ast.BlockStmt); ok {
					check(eb.List)
				}
			case *ast.BlockStmt:
				check(s.List)
			case *ast.BranchStmt:
				if s.Tok == token.BREAK {
					sensitive = "breaks at the first match"
				}
			case *ast.ReturnStmt:
				sensitive = "returns from inside the loop (picks the first element in map order)"
			case *ast.IncDecStmt, *ast.DeclStmt, *ast.EmptyStmt:
			case *ast.ExprStmt:
				call, ok := s.X.(*ast.CallExpr)
				if !ok {
					sensitive = "evaluates " + exprString(s.X)
					continue
				}
				if isBuiltinCall(info, call, "delete") {
					continue
				}
				// genfp.Generate(pack, <loop key>, …): each iteration writes its own file
				if callee := calleeOf(info, call); callee != nil && callee.Name() == "Generate" && callee.Pkg() != nil && strings.HasSuffix(callee.Pkg().Path(), "/genfp") && len(call.Args) >= 2 && keyObj != nil {
					if nodeContains(call.Args[1], true, func(y ast.Node) bool { id, ok := y.(*ast.Ident); return ok && info.Uses[id] == keyObj }) {
						continue
					}
				}
				// method calls that insert into sets/maps are order-insensitive
				if sel, ok := ast.Unparen(call.Fun).(*ast.SelectorExpr); ok {
					if tv, ok := info.Types[sel.X]; ok && (isNamed(tv.Type, "mutable", "Set") || isNamed(tv.Type, "mutable", "Map")) {
						continue
					}
				}
				sensitive = "calls " + exprString(call.Fun) + " per element"
			case *ast.RangeStmt, *ast.ForStmt:
				sensitive = "nested loop with effects"
			default:
				sensitive = "statement not recognised as order-insensitive"
			}
		}
	}
	check(rs.Body.List)
	_ = keyObj
	if sensitive != "" {
		return false, sensitive
	}
	// appended slices must be sorted after the loop in the same function
	for _, o := range appended {
		sorted := false
		ast.Inspect(fb.Body, func(x ast.Node) bool {
			call, ok := x.(*ast.CallExpr)
			if !ok || call.Pos() < rs.End() {
				return true
			}
			callee := calleeOf(info, call)
			if callee == nil || callee.Pkg() == nil {
				return true
			}
			isSort := callee.Pkg().Path() == "sort" || (callee.Pkg().Path() == "slices" && strings.HasPrefix(callee.Name(), "Sort")) || (strings.HasPrefix(callee.Pkg().Path(), core.ModPath) && callee.Name() == "Sort")
			if !isSort {
				return true
			}
			for _, a := range call.Args {
				if nodeContains(a, true, func(y ast.Node) bool { id, ok := y.(*ast.Ident); return ok && info.Uses[id] == o }) {
					sorted = true
				}
			}
			return true
		})
		if !sorted {
			return false, "collects into " + o.Name() + " in map order without sorting it afterwards"
		}
	}
	if len(appended) > 0 {
		return true, "collected slice is sorted after the loop"
	}
	return true, "order-insensitive body (keyed insertion / accumulation)"
}

// Orphan: generated files ↔ directives.
// generatorTag: the doc comment carries a tag one of the three generators looks for.
func generatorTag(doc string) bool {
	for _, line := range strings.Split(doc, "\n") {
		t := strings.TrimSpace(line)
		if t == "@internal.Generate" || t == "@fp.Generate" || strings.HasPrefix(t, "@internal.Generate(") || strings.HasPrefix(t, "@fp.Generate(") {
			return true
		}
	}
	return false
}

func Orphan(c *core.Ctx, rule string) {
	c.Rule(rule, "every file headed `// Code generated by G, DO NOT EDIT.` is produced by a directive of its package (a File: field of an @internal.Generate/@fp.Generate literal, or gombok's <pkg>_value_generated.go / <pkg>_derive_generated.go with a go:generate gombok line), and every File: named by a directive exists")
	nFiles, nDirs := 0, 0
	for _, p := range c.Pkgs {
		if len(p.GoFiles) == 0 {
			continue
		}
		dir := filepath.Dir(p.GoFiles[0])
		info := p.TypesInfo
		// directive files
		named := map[string]token.Pos{}
		hasGombok := false
		for _, f := range p.Syntax {
			for _, cg := range f.Comments {
				for _, cm := range cg.List {
					if strings.HasPrefix(cm.Text, "//go:generate") && strings.Contains(cm.Text, "gombok") {
						hasGombok = true
					}
				}
			}
			for _, d := range f.Decls {
				var doc *ast.CommentGroup
				switch x := d.(type) {
				case *ast.GenDecl:
					doc = x.Doc
				case *ast.FuncDecl:
					doc = x.Doc
				}
				if doc == nil || !generatorTag(doc.Text()) {
					continue // not a directive the generators consume (e.g. @fp.GenerateTest fixtures)
				}
				ast.Inspect(d, func(x ast.Node) bool {
					cl, ok := x.(*ast.CompositeLit)
					if !ok {
						return true
					}
					tv, ok := info.Types[cl]
					if !ok {
						return true
					}
					nt := namedOf(tv.Type)
					if nt == nil || nt.Obj().Pkg() == nil || !strings.HasSuffix(nt.Obj().Pkg().Path(), "/genfp") {
						return true
					}
					for _, el := range cl.Elts {
						if kv, ok := el.(*ast.KeyValueExpr); ok && exprString(kv.Key) == "File" {
							if v := info.Types[kv.Value].Value; v != nil && v.Kind() == constant.String {
								named[constant.StringVal(v)] = kv.Pos()
							}
						}
					}
					return true
				})
			}
		}
		// also non-Go-visible files in the directory (generated files are all compiled, so p.Syntax suffices)
		pkgName := p.Name
		for _, f := range p.Syntax {
			if !isGenerated(f) {
				continue
			}
			nFiles++
			fname := filepath.Base(c.Fset.Position(f.Pos()).Filename)
			key := core.ShortPkg(p.PkgPath) + "/" + fname
			_, byDirective := named[fname]
			conv := hasGombok && (fname == pkgName+"_value_generated.go" || fname == pkgName+"_derive_generated.go" || strings.HasSuffix(fname, "_generated.go"))
			if byDirective || conv {
				c.Add(rule, key, f.Pos(), core.Discharged, "produced by a directive of the package")
			} else {
				c.Add(rule, key, f.Pos(), core.Violated, "generated file "+fname+" has no generator directive in its package (no File: \""+fname+"\" and not gombok's conventional output): regenerating would not reproduce it")
			}
		}
		var names []string
		for n := range named {
			names = append(names, n)
		}
		sort.Strings(names)
		for _, fn := range names {
			nDirs++
			key := core.ShortPkg(p.PkgPath) + "/directive:" + fn
			if _, err := os.Stat(filepath.Join(dir, fn)); err == nil {
				c.Add(rule, key, named[fn], core.Discharged, "named file exists")
			} else {
				c.Add(rule, key, named[fn], core.Violated, "a directive names File: \""+fn+"\" but the file is not committed: the committed tree is not the generators' fixpoint")
			}
		}
	}
	c.Floor(rule, "generated files", nFiles, 60)
	c.Floor(rule, "File: directives", nDirs, 35)
}

// FmtErr: the error of format.Source is never ignored in the generator.
func FmtErr(c *core.Ctx, rule string) {
	c.Rule(rule, "the error result of go/format.Source in the generator is checked and leads to a fatal exit / returned error: unformattable output is never written")
	n := 0
	for _, fb := range funcBodies(c, generatorPkgs(c)) {
		info := fb.Pkg.TypesInfo
		inspectShallow(fb.Body, func(x ast.Node) bool {
			as, ok := x.(*ast.AssignStmt)
			if !ok || len(as.Rhs) != 1 {
				return true
			}
			call, ok := ast.Unparen(as.Rhs[0]).(*ast.CallExpr)
			if !ok {
				return true
			}
			callee := calleeOf(info, call)
			if callee == nil || callee.Pkg() == nil || callee.Pkg().Path() != "go/format" || callee.Name() != "Source" {
				return true
			}
			n++
			key := fb.Name + "/format.Source"
			if len(as.Lhs) != 2 || exprString(as.Lhs[1]) == "_" {
				c.Add(rule, key, call.Pos(), core.Violated, "the error of format.Source is discarded")
				return true
			}
			errObj := objOf(info, as.Lhs[1])
			checked := nodeContains(fb.Body, false, func(y ast.Node) bool {
				is, ok := y.(*ast.IfStmt)
				if !ok || is.Pos() < as.End() {
					return false
				}
				be, ok := ast.Unparen(is.Cond).(*ast.BinaryExpr)
				if !ok || be.Op != token.NEQ || objOf(info, be.X) != errObj {
					return false
				}
				return nodeContains(is.Body, false, func(z ast.Node) bool {
					switch t := z.(type) {
					case *ast.ReturnStmt:
						return true
					case *ast.CallExpr:
						return !mayReturn(c, info)(t)
					}
					return false
				})
			})
			if checked {
				c.Add(rule, key, call.Pos(), core.Discharged, "error checked; fatal / returned")
			} else {
				c.Add(rule, key, call.Pos(), core.Violated, "the error of format.Source does not stop the generator: malformed output can be written")
			}
			return true
		})
	}
	c.Floor(rule, "format.Source call sites", n, 1)
}

// ---- expression-level sources (iterators of hash-ordered collections outside range statements)

var orderTransformers = map[string]bool{"Concat": true, "Map": true, "Filter": true, "FilterNot": true, "ToSeq": true, "ToSlice": true, "Take": true, "Drop": true, "FlatMap": true, "FilterMap": true, "Widen": true, "Seq": true, "Appended": true, "TapEach": true, "Collect": true, "FromSeq": true, "Iterator": true}
var orderInsensitive = map[string]bool{"ToGoSet": true, "ToGoMap": true, "ToMap": true, "ToSet": true, "Exists": true, "ForAll": true, "Contains": true, "Size": true, "Count": true, "IsEmpty": true, "NonEmpty": true, "HasNext": true}

func isSortCall(info *types.Info, call *ast.CallExpr) bool {
	callee := calleeOf(info, call)
	if callee == nil || callee.Pkg() == nil {
		return false
	}
	return callee.Pkg().Path() == "sort" || (callee.Pkg().Path() == "slices" && strings.HasPrefix(callee.Name(), "Sort")) ||
		(strings.HasPrefix(callee.Pkg().Path(), core.ModPath) && (callee.Name() == "Sort" || callee.Name() == "Min" || callee.Name() == "Max"))
}

func DetExpr(c *core.Ctx, rule string) {
	n := 0
	for _, fb := range funcBodies(c, generatorPkgs(c)) {
		if fb.Lit != nil {
			continue
		}
		info := fb.Pkg.TypesInfo
		parent := map[ast.Node]ast.Node{}
		var stack []ast.Node
		ast.Inspect(fb.Body, func(x ast.Node) bool {
			if x == nil {
				stack = stack[:len(stack)-1]
				return false
			}
			if len(stack) > 0 {
				parent[x] = stack[len(stack)-1]
			}
			stack = append(stack, x)
			return true
		})
		k := 0
		var judge func(e ast.Expr, depth int) (bool, string)
		judge = func(e ast.Expr, depth int) (bool, string) {
			if depth > 12 {
				return false, "consumer chain too long to follow"
			}
			p := parent[e]
			switch pp := p.(type) {
			case *ast.ParenExpr:
				return judge(pp, depth+1)
			case *ast.SelectorExpr: // e.Method
				if call, ok := parent[pp].(*ast.CallExpr); ok && call.Fun == pp {
					switch {
					case orderInsensitive[pp.Sel.Name]:
						return true, "consumed by order-insensitive " + pp.Sel.Name
					case orderTransformers[pp.Sel.Name]:
						return judge(call, depth+1)
					}
					return false, "consumed by " + pp.Sel.Name + " (order-sensitive)"
				}
				return false, "method value"
			case *ast.CallExpr: // e is an argument
				if isSortCall(info, pp) {
					if totalOrderSort(info, pp) {
						return true, "sorted by " + exprString(pp.Fun) + " with a natural total order"
					}
					return false, "sorted by " + exprString(pp.Fun) + " with a custom comparator (elements it does not distinguish stay in map order)"
				}
				name := ""
				switch f := ast.Unparen(pp.Fun).(type) {
				case *ast.SelectorExpr:
					name = f.Sel.Name
				case *ast.Ident:
					name = f.Name
				case *ast.IndexExpr:
					if s, ok := f.X.(*ast.SelectorExpr); ok {
						name = s.Sel.Name
					}
				}
				if orderInsensitive[name] {
					return true, "consumed by order-insensitive " + name
				}
				if orderTransformers[name] {
					return judge(pp, depth+1)
				}
				return false, "passed to " + exprString(pp.Fun) + " (order-sensitive)"
			case *ast.AssignStmt:
				// v := e — every later use of v must itself be sorted / insensitive
				for i, r := range pp.Rhs {
					if r == e && i < len(pp.Lhs) {
						v := objOf(info, pp.Lhs[i])
						if v == nil {
							return false, "assigned to a non-variable"
						}
						okAll, uses := true, 0
						why := ""
						cleanFrom := token.Pos(0) // after a reassignment the variable no longer holds the map-ordered sequence
						ast.Inspect(fb.Body, func(x ast.Node) bool {
							if as2, ok := x.(*ast.AssignStmt); ok && as2.Pos() >= pp.End() && cleanFrom == 0 {
								for _, l := range as2.Lhs {
									if objOf(info, l) == v {
										// uses inside the right-hand side are still judged (e.g. the sort call); later ones are not
										cleanFrom = as2.End()
									}
								}
							}
							return true
						})
						// an in-place total-order sort (sort.Strings(v), slices.Sort(v)) as a statement of its own also
						// ends the hash-ordered life of the variable
						ast.Inspect(fb.Body, func(x ast.Node) bool {
							es, ok := x.(*ast.ExprStmt)
							if !ok || es.Pos() < pp.End() {
								return true
							}
							call, ok := ast.Unparen(es.X).(*ast.CallExpr)
							if !ok || len(call.Args) == 0 || objOf(info, call.Args[0]) != v {
								return true
							}
							callee := calleeOf(info, call)
							if callee == nil || callee.Pkg() == nil || (callee.Pkg().Path() != "sort" && callee.Pkg().Path() != "slices") {
								return true
							}
							if isSortCall(info, call) && totalOrderSort(info, call) && (cleanFrom == 0 || es.End() < cleanFrom) {
								cleanFrom = es.End()
							}
							return true
						})
						ast.Inspect(fb.Body, func(x ast.Node) bool {
							id, ok := x.(*ast.Ident)
							if !ok || info.Uses[id] != v || id.Pos() < pp.End() {
								return true
							}
							if cleanFrom != 0 && id.Pos() >= cleanFrom {
								return true
							}
							if as2, ok := parent[id].(*ast.AssignStmt); ok {
								isLHS := false
								for _, l := range as2.Lhs {
									if l == ast.Expr(id) {
										isLHS = true
									}
								}
								if isLHS {
									return true
								}
							}
							uses++
							if good, w := judge(id, depth+1); !good {
								okAll, why = false, w
							}
							return true
						})
						if uses == 0 {
							return true, "never used"
						}
						if okAll {
							return true, "every use of " + v.Name() + " is sorted / order-insensitive"
						}
						return false, v.Name() + ": " + why
					}
				}
			case *ast.RangeStmt:
				if pp.X == e {
					if _, direct := unorderedSource(info, pp.X); direct {
						return true, "ranged (judged by the loop-body rule)"
					}
					// a variable (or derived sequence) still in hash order is ranged over: judge the body here
					if good, why := classifyLoop(info, fb, pp); good {
						return true, "ranged with an order-insensitive body: " + why
					} else {
						return false, "ranged over while still in hash order, with an order-sensitive body (" + why + ")"
					}
				}
			case *ast.ReturnStmt:
				return false, "returned to the caller in map order"
			}
			return false, "used in an order-sensitive position"
		}
		ast.Inspect(fb.Body, func(x ast.Node) bool {
			call, ok := x.(*ast.CallExpr)
			if !ok {
				return true
			}
			src, ok := unorderedSource(info, call)
			if !ok || strings.HasPrefix(src, "Go map ") {
				return true // plain map values are judged where they are ranged over
			}
			if rs, ok := parent[call].(*ast.RangeStmt); ok && rs.X == call {
				return true
			}
			k++
			n++
			key := fb.Name + "/source#" + itoa(k) + ":" + src
			good, why := judge(call, 0)
			tkey := fb.Name + "|" + src + "|" + why
			switch {
			case good:
				c.Add(rule, key, call.Pos(), core.Discharged, why)
			case detTable[tkey] != "":
				c.Add(rule, key, call.Pos(), core.Discharged, "listed — "+detTable[tkey])
			default:
				c.Add(rule, key, call.Pos(), core.Violated, src+" enumerates a hash-ordered collection and the sequence is "+why+": emitted text / diagnostics depend on map order")
			}
			return true
		})
	}
	c.Floor(rule, "iterator-style sources", n, 4)
}

// totalOrderSort: the sort call orders by a natural total order of the elements — sort.Strings/Ints, slices.Sort,
// or an fp Sort whose Ord argument is ord.Given[T]() or ord.ContraMap(ord.Given[T](), keyAccessor) (a map's keys are
// pairwise distinct, so ordering entries by key is total). Anything else may leave ties in input (= map) order.
func totalOrderSort(info *types.Info, call *ast.CallExpr) bool {
	callee := calleeOf(info, call)
	if callee == nil || callee.Pkg() == nil {
		return false
	}
	switch callee.Pkg().Path() {
	case "sort":
		return callee.Name() == "Strings" || callee.Name() == "Ints" || callee.Name() == "Float64s"
	case "slices":
		return callee.Name() == "Sort"
	}
	if len(call.Args) < 2 {
		return false
	}
	var natural func(e ast.Expr) bool
	natural = func(e ast.Expr) bool {
		c2, ok := ast.Unparen(e).(*ast.CallExpr)
		if !ok {
			return false
		}
		f := calleeOf(info, c2)
		if f == nil || f.Pkg() == nil || !strings.HasSuffix(f.Pkg().Path(), "/ord") {
			return false
		}
		switch f.Name() {
		case "Given":
			return true
		case "ContraMap", "GivenField":
			return len(c2.Args) >= 1 && (f.Name() == "GivenField" || natural(c2.Args[0]))
		}
		return false
	}
	return natural(call.Args[1])
}
