package rules

// R-SANITIZE (C18): in a clone closure every use of the input flows through a component Clone.

import (
	"go/ast"
	"go/token"
	"go/types"

	"fpcheck/core"

	"golang.org/x/tools/go/packages"
)

func isCloneMethodValue(info *types.Info, e ast.Expr) bool {
	sel, ok := ast.Unparen(e).(*ast.SelectorExpr)
	if !ok || sel.Sel.Name != "Clone" {
		return false
	}
	tv, ok := info.Types[sel.X]
	return ok && (isNamed(tv.Type, "fp", "Clone") || isNamed(tv.Type, "fp", "CloneFunc"))
}

func calleeOrigin(info *types.Info, call *ast.CallExpr) *types.Func {
	if fn := calleeOf(info, call); fn != nil {
		return fn.Origin()
	}
	return nil
}

func Sanitize(c *core.Ctx, rule string, p *packages.Package) {
	c.Rule(rule, "in every clone closure of a combinator that takes component instances, each use of the input (or of a range variable over it) is the argument of a component instance's Clone, the collection argument of a map whose function is a Clone method value, a range expression, or a nil/len test — nothing of the input reaches the result uncloned")
	info := p.TypesInfo
	nCl, nUses := 0, 0
	helperPkg := func(fd *ast.FuncDecl) bool {
		for _, f := range p.Syntax {
			if f.Pos() <= fd.Pos() && fd.End() <= f.End() {
				return true
			}
		}
		return false
	}
	for _, f := range p.Syntax {
		for _, d := range f.Decls {
			fd, ok := d.(*ast.FuncDecl)
			if !ok || fd.Body == nil {
				continue
			}
			hasInst := false
			for _, fl := range fd.Type.Params.List {
				if tv, ok := info.Types[fl.Type]; ok && isInstanceType(tv.Type) {
					hasInst = true
				}
			}
			name := c.FuncName(p, fd)
			ast.Inspect(fd.Body, func(n ast.Node) bool {
				call, ok := n.(*ast.CallExpr)
				if !ok || len(call.Args) != 1 {
					return true
				}
				callee := calleeOf(info, call)
				isNew := callee != nil && funcIs(callee, "clone", "New")
				if tv, ok := info.Types[call.Fun]; ok && tv.IsType() && isNamed(tv.Type, "fp", "CloneFunc") {
					isNew = true
				}
				if !isNew {
					return true
				}
				lit := resolveLit(info, fd, call.Args[0]) // the literal itself, or a local bound once to it (cloneTuple := func…)
				if lit == nil || len(lit.Type.Params.List) != 1 || len(lit.Type.Params.List[0].Names) != 1 {
					return true
				}
				if !hasInst {
					c.Add(rule, name, lit.Pos(), core.Skipped, "combinator takes no component instance (identity / constant clone by declaration)")
					return true
				}
				nCl++
				// analyse classifies every use of the roots (the input and what is derived from it) in blk and returns the
				// unsanctioned ones
				var analyse func(blk ast.Node, roots map[types.Object]bool, depth int) []ast.Expr
				analyse = func(blk ast.Node, roots map[types.Object]bool, depth int) []ast.Expr {
					// range variables over the input become roots
					for changed := true; changed; {
						changed = false
						ast.Inspect(blk, func(x ast.Node) bool {
							if rs, ok := x.(*ast.RangeStmt); ok {
								if r, _ := accessorPath(info, rs.X, roots); r != nil {
									for _, v := range []ast.Expr{rs.Key, rs.Value} {
										if v == nil {
											continue
										}
										if o := objOf(info, v); o != nil && !roots[o] {
											// an integer index over a slice is not a component
											if _, isSlice := info.Types[rs.X].Type.Underlying().(*types.Slice); isSlice && v == rs.Key {
												continue
											}
											roots[o] = true
											changed = true
										}
									}
								}
							}
							return true
						})
					}
					// locals bound to a component's Clone method value (cloneElem := tclone.Clone) clone like the method itself;
					// locals bound to an accessor path of the input (repr := gen.To(a)) stand for that part of the input
					cloneFns := map[types.Object]bool{}
					aliasDefs := map[ast.Expr]bool{}
					for changed := true; changed; {
						changed = false
						ast.Inspect(blk, func(x ast.Node) bool {
							as, ok := x.(*ast.AssignStmt)
							if !ok {
								return true
							}
							// v, ok := s.Unapply() / v, ok := m[k]: v names a part of the input, ok is a flag
							if len(as.Lhs) >= 2 && len(as.Rhs) == 1 && as.Tok == token.DEFINE {
								r := ast.Unparen(as.Rhs[0])
								inner := r
								if call, ok := r.(*ast.CallExpr); ok && len(call.Args) == 0 {
									if sel, ok := ast.Unparen(call.Fun).(*ast.SelectorExpr); ok {
										inner = sel.X
									}
								}
								if root, _ := accessorPath(info, inner, roots); root != nil {
									// v, ok := s.Unapply() names one part and a flag; i1, …, iN := t.Unapply() names N parts
									parts := as.Lhs[:1]
									if len(as.Lhs) > 2 {
										parts = as.Lhs
									}
									for _, l := range parts {
										if o := objOf(info, l); o != nil && !roots[o] {
											roots[o] = true
											aliasDefs[as.Rhs[0]] = true
											changed = true
										}
									}
								}
								return true
							}
							if len(as.Lhs) != len(as.Rhs) {
								return true
							}
							for i, r := range as.Rhs {
								o := objOf(info, as.Lhs[i])
								if o == nil {
									continue
								}
								if isCloneMethodValue(info, r) && !cloneFns[o] {
									cloneFns[o] = true
									changed = true
								}
								if as.Tok == token.DEFINE && !nodeContains(r, true, func(y ast.Node) bool {
									call, ok := y.(*ast.CallExpr)
									return ok && (isCloneMethodValue(info, call.Fun) || cloneFns[objOf(info, call.Fun)])
								}) {
									if root, _ := accessorPath(info, r, roots); root != nil && !roots[o] {
										roots[o] = true
										aliasDefs[r] = true
										changed = true
									}
								}
							}
							return true
						})
					}
					// a local of the combinator bound once to a literal that does nothing but clone its parameter
					// (cloneElem := func(v T) T { return inst.Get().Clone(v) }) clones like the method itself
					wrapperFns := map[types.Object]bool{}
					ast.Inspect(fd.Body, func(x ast.Node) bool {
						as, ok := x.(*ast.AssignStmt)
						if !ok || as.Tok != token.DEFINE || len(as.Lhs) != 1 || len(as.Rhs) != 1 {
							return true
						}
						wl, ok := ast.Unparen(as.Rhs[0]).(*ast.FuncLit)
						if !ok || len(wl.Type.Params.List) != 1 || len(wl.Type.Params.List[0].Names) != 1 || len(wl.Body.List) != 1 {
							return true
						}
						ret, ok := wl.Body.List[0].(*ast.ReturnStmt)
						if !ok || len(ret.Results) != 1 {
							return true
						}
						call, ok := ast.Unparen(ret.Results[0]).(*ast.CallExpr)
						if !ok || len(call.Args) != 1 || objOf(info, call.Args[0]) != info.Defs[wl.Type.Params.List[0].Names[0]] {
							return true
						}
						if isCloneMethodValue(info, call.Fun) || cloneFns[objOf(info, call.Fun)] {
							if o := objOf(info, as.Lhs[0]); o != nil {
								wrapperFns[o] = true
							} else if id, isId := as.Lhs[0].(*ast.Ident); isId && info.Defs[id] != nil {
								wrapperFns[info.Defs[id]] = true
							}
						}
						return true
					})
					isCloner := func(e ast.Expr) bool {
						return isCloneMethodValue(info, e) || cloneFns[objOf(info, e)] || wrapperFns[objOf(info, e)]
					}
					// classify every maximal accessor path
					var visit func(n ast.Node, ctx string)
					var bad []ast.Expr
					report := func(e ast.Expr) {
						nUses++
						bad = append(bad, e)
					}
					visit = func(n ast.Node, ctx string) {
						if e, ok := n.(ast.Expr); ok && aliasDefs[e] {
							nUses++ // names a part of the input; its uses are judged where they occur
							return
						}
						switch x := n.(type) {
						case nil:
							return
						case *ast.FuncLit:
							visit(x.Body, "")
							return
						case *ast.RangeStmt:
							if r, _ := accessorPath(info, x.X, roots); r != nil {
								nUses++ // sanctioned: iteration
							} else {
								visit(x.X, "")
							}
							visit(x.Body, "")
							return
						case *ast.BinaryExpr:
							if (x.Op == token.EQL || x.Op == token.NEQ) && (exprString(x.Y) == "nil" || exprString(x.X) == "nil") {
								for _, s := range []ast.Expr{x.X, x.Y} {
									if r, _ := accessorPath(info, s, roots); r != nil {
										nUses++
									} else {
										visit(s, "")
									}
								}
								return
							}
						case *ast.CallExpr:
							if isBuiltinCall(info, x, "len") || isBuiltinCall(info, x, "cap") {
								nUses++
								return
							}
							// s.IsEmpty() / s.IsDefined(): a parameterless test of the input yields a bool, which shares nothing
							if len(x.Args) == 0 {
								if se, ok := ast.Unparen(x.Fun).(*ast.SelectorExpr); ok {
									if tv, ok := info.Types[x]; ok && types.Identical(tv.Type, types.Typ[types.Bool]) {
										if r, _ := accessorPath(info, se.X, roots); r != nil {
											nUses++
											return
										}
									}
								}
							}
							// X.Clone(arg) / cloneElem(arg)
							if isCloner(x.Fun) && len(x.Args) == 1 {
								if r, _ := accessorPath(info, x.Args[0], roots); r != nil {
									nUses++
									if se, ok := ast.Unparen(x.Fun).(*ast.SelectorExpr); ok {
										visit(se.X, "")
									}
									return
								}
							}
							// helper(…, input, …): a function of this package whose own uses of the corresponding parameters are all
							// sanctioned (copyEntries(map[K]V{}, s, clonek, clonev))
							if hfd := c.FuncDecl(calleeOrigin(info, x)); hfd != nil && hfd.Body != nil && hfd.Recv == nil && depth < 2 && helperPkg(hfd) {
								hroots := map[types.Object]bool{}
								passed := map[int]bool{}
								idx := 0
								for _, fl := range hfd.Type.Params.List {
									for _, nm := range fl.Names {
										if idx < len(x.Args) {
											if r, _ := accessorPath(info, x.Args[idx], roots); r != nil {
												if o := info.Defs[nm]; o != nil {
													hroots[o] = true
													passed[idx] = true
												}
											}
										}
										idx++
									}
								}
								if len(hroots) > 0 && idx == len(x.Args) && len(analyse(hfd.Body, hroots, depth+1)) == 0 {
									for i, a := range x.Args {
										if passed[i] {
											nUses++
										} else {
											visit(a, "")
										}
									}
									return
								}
							}
							// coll.Map(inst.Clone): the type-preserving method form of the same map
							if len(x.Args) == 1 && isCloner(x.Args[0]) {
								if se, ok := ast.Unparen(x.Fun).(*ast.SelectorExpr); ok && se.Sel.Name == "Map" {
									if r, _ := accessorPath(info, se.X, roots); r != nil {
										nUses++
										return
									}
								}
							}
							// Map(coll, inst.Clone)
							if len(x.Args) == 2 && isCloner(x.Args[1]) {
								if r, _ := accessorPath(info, x.Args[0], roots); r != nil {
									nUses++
									return
								}
							}
						case ast.Expr:
							if aliasDefs[x] {
								nUses++ // names a part of the input; its uses are judged where they occur
								return
							}
							if r, _ := accessorPath(info, x, roots); r != nil {
								report(x)
								return
							}
						}
						// generic descent
						ast.Inspect(n, func(ch ast.Node) bool {
							if ch == n || ch == nil {
								return ch == n
							}
							visit(ch, "")
							return false
						})
					}
					// declarations of roots themselves (lit params, range vars) are Defs, not Uses: accessorPath only matches Uses
					visit(blk, "")
					return bad
				}
				bad := 0
				for _, e := range analyse(lit.Body, map[types.Object]bool{info.Defs[lit.Type.Params.List[0].Names[0]]: true}, 0) {
					bad++
					c.Add(rule, name+"/"+exprString(e)+"#"+itoa(bad), e.Pos(), core.Violated,
						"input component `"+exprString(e)+"` is used without passing through a component instance's Clone: original and clone share what it refers to")
				}
				if bad == 0 {
					c.Add(rule, name, lit.Pos(), core.Discharged, "every use of the input is cloned through a component instance")
				}
				return true
			})
		}
	}
	c.Floor(rule, "clone closures with instances", nCl, 20)
	c.Floor(rule, "input uses classified", nUses, 40)
}
