package rules

import (
	"go/ast"
	"go/types"
	"sort"
	"strings"

	"fpcheck/core"

	"golang.org/x/tools/go/packages"
)

func init() {
	register("C03", "immutable Map/Set wrappers: zero value, threaded results, exhaustive node switches", func(c *core.Ctx) {
		NilGuard(c, "R-NILGUARD", func(t *types.Named) bool {
			return isNamed(t, "fp", "Map") || isNamed(t, "fp", "Set") ||
				(t.Obj().Pkg() != nil && t.Obj().Pkg().Path() == core.ModPath+"/immutable")
		})
		MustUse(c, "R-MUSTUSE", libPkgs(c), false, true)
		NodeSwitch(c, "R-SWITCH", c.Pkg("immutable"))
		StackBound(c, "R-STACKBOUND", c.Pkg("immutable"))
		TrieFrag(c, "R-FRAG", c.Pkg("immutable"))
		TrieLevel(c, "R-LEVEL", c.Pkg("immutable"))
		TrieResized(c, "R-RESIZED", c.Pkg("immutable"))
		WrapperCtx(c, "R-SETCTX", c.Pkg("fp"), 2)
		TrieSlotCount(c, "R-SLOTCOUNT", c.Pkg("immutable"))
	})
}

// NodeSwitch: type switches over the trie's node interface are exhaustive.
func NodeSwitch(c *core.Ctx, rule string, p *packages.Package) {
	c.Rule(rule, "every type switch over a trie node interface of package immutable has a default, or covers all implementations, or (leaf-only switch) covers every implementation that has no child nodes")
	info := p.TypesInfo
	// node interfaces: interface types of the package implemented by >= 2 pointer-to-struct types of the package
	scope := p.Types.Scope()
	var ifaces []*types.Named
	var structs []*types.Named
	for _, nm := range scope.Names() {
		tn, ok := scope.Lookup(nm).(*types.TypeName)
		if !ok {
			continue
		}
		nt, ok := tn.Type().(*types.Named)
		if !ok {
			continue
		}
		switch nt.Underlying().(type) {
		case *types.Interface:
			ifaces = append(ifaces, nt)
		case *types.Struct:
			structs = append(structs, nt)
		}
	}
	implsOf := func(iface *types.Named) []*types.Named {
		var out []*types.Named
		for _, s := range structs {
			if implementsGeneric(s, iface) {
				out = append(out, s)
			}
		}
		return out
	}
	hasChildren := func(s *types.Named, iface *types.Named) bool {
		st := s.Underlying().(*types.Struct)
		for i := 0; i < st.NumFields(); i++ {
			ft := st.Field(i).Type()
			if sl, ok := ft.Underlying().(*types.Slice); ok {
				ft = sl.Elem()
			}
			if ar, ok := ft.Underlying().(*types.Array); ok {
				ft = ar.Elem()
			}
			if n := namedOf(ft); n != nil && n.Obj() == iface.Obj() {
				return true
			}
		}
		return false
	}
	n := 0
	for _, fb := range funcBodies(c, []*packages.Package{p}) {
		k := 0
		inspectShallow(fb.Body, func(x ast.Node) bool {
			ts, ok := x.(*ast.TypeSwitchStmt)
			if !ok {
				return true
			}
			var subject ast.Expr
			switch a := ts.Assign.(type) {
			case *ast.AssignStmt:
				subject = a.Rhs[0].(*ast.TypeAssertExpr).X
			case *ast.ExprStmt:
				subject = a.X.(*ast.TypeAssertExpr).X
			}
			tv, ok := info.Types[subject]
			if !ok {
				return true
			}
			sn := namedOf(tv.Type)
			if sn == nil {
				return true
			}
			var iface *types.Named
			for _, i := range ifaces {
				if i.Obj() == sn.Obj() {
					iface = i
				}
			}
			if iface == nil {
				return true
			}
			impls := implsOf(iface)
			if len(impls) < 2 {
				return true
			}
			k++
			n++
			key := fb.Name + "/switch#" + itoa(k) + ":" + iface.Obj().Name()
			covered := map[*types.TypeName]bool{}
			hasDefault := false
			for _, cl := range ts.Body.List {
				cc := cl.(*ast.CaseClause)
				if cc.List == nil {
					hasDefault = true
				}
				for _, e := range cc.List {
					ctv, ok := info.Types[e]
					if !ok {
						continue
					}
					if cn := namedOf(ctv.Type); cn != nil {
						if _, isI := cn.Underlying().(*types.Interface); isI {
							for _, s := range structs {
								if implementsGeneric(s, cn) {
									covered[s.Obj()] = true
								}
							}
						} else {
							covered[cn.Obj()] = true
						}
					}
				}
			}
			if hasDefault {
				c.Add(rule, key, ts.Pos(), core.Discharged, "has a default clause")
				return true
			}
			var missAll, missLeaf []string
			for _, s := range impls {
				if !covered[s.Obj()] {
					missAll = append(missAll, s.Obj().Name())
					if !hasChildren(s, iface) {
						missLeaf = append(missLeaf, s.Obj().Name())
					}
				}
			}
			sort.Strings(missAll)
			sort.Strings(missLeaf)
			switch {
			case len(missAll) == 0:
				c.Add(rule, key, ts.Pos(), core.Discharged, "covers all "+itoa(len(impls))+" node kinds")
			case len(missLeaf) == 0:
				c.Add(rule, key, ts.Pos(), core.Discharged, "leaf-only switch: covers every node kind without children (branch kinds "+strings.Join(missAll, ",")+" omitted)")
			default:
				c.Add(rule, key, ts.Pos(), core.Violated, "type switch over "+iface.Obj().Name()+" has no default and misses node kind(s) "+strings.Join(missLeaf, ",")+": entries stored in such nodes are skipped or yield zero values")
			}
			return true
		})
	}
	c.Floor(rule, "node type switches", n, 3)
}

// implementsGeneric: does *S (generic struct) implement generic interface I, instantiated with S's own type parameters?
func implementsGeneric(s, iface *types.Named) bool {
	it, ok := iface.Underlying().(*types.Interface)
	if !ok {
		return false
	}
	// compare method names only (both are generic in the same parameters; signatures are checked by the compiler at use sites)
	ms := types.NewMethodSet(types.NewPointer(s))
	for i := 0; i < it.NumMethods(); i++ {
		if ms.Lookup(s.Obj().Pkg(), it.Method(i).Name()) == nil {
			return false
		}
	}
	return it.NumMethods() > 0
}
