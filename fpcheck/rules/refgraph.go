package rules

// E3 — definitional reference graph.  R-STRAT, R-BARRIER (classification), R-REL.

import (
	"go/ast"
	"go/token"
	"go/types"
	"sort"
	"strings"

	"fpcheck/core"

	"golang.org/x/tools/go/packages"
)

// monadPackages discovers packages carrying a genfp.GenerateMonadFunctions directive.
func monadPackages(c *core.Ctx) []*packages.Package {
	var out []*packages.Package
	for _, p := range libPkgs(c) {
		found := false
		for _, f := range p.Syntax {
			ast.Inspect(f, func(n ast.Node) bool {
				if cl, ok := n.(*ast.CompositeLit); ok && !found {
					if tv, ok := p.TypesInfo.Types[cl]; ok && isNamed(tv.Type, "genfp", "GenerateMonadFunctions") {
						found = true
					}
				}
				return !found
			})
		}
		if found {
			out = append(out, p)
		}
	}
	return out
}

type refNode struct {
	fn         *types.Func
	fd         *ast.FuncDecl
	pkg        *packages.Package
	name       string
	branchFree bool
	succ       []*refNode
	// tarjan
	index, low int
	onStack    bool
}

func hasBranch(body ast.Node) bool {
	return nodeContains(body, true, func(n ast.Node) bool {
		switch x := n.(type) {
		case *ast.IfStmt, *ast.SwitchStmt, *ast.TypeSwitchStmt, *ast.RangeStmt, *ast.ForStmt, *ast.SelectStmt:
			return true
		case *ast.BinaryExpr:
			return x.Op == token.LAND || x.Op == token.LOR
		}
		return false
	})
}

func buildRefGraph(c *core.Ctx, p *packages.Package) []*refNode {
	nodes := map[*types.Func]*refNode{}
	var order []*refNode
	for _, f := range p.Syntax {
		for _, d := range f.Decls {
			fd, ok := d.(*ast.FuncDecl)
			if !ok || fd.Body == nil {
				continue
			}
			fn, _ := p.TypesInfo.Defs[fd.Name].(*types.Func)
			if fn == nil {
				continue
			}
			n := &refNode{fn: fn, fd: fd, pkg: p, name: c.FuncName(p, fd), branchFree: !hasBranch(fd.Body), index: -1}
			nodes[fn] = n
			order = append(order, n)
		}
	}
	for _, n := range order {
		seen := map[*refNode]bool{}
		ast.Inspect(n.fd.Body, func(x ast.Node) bool {
			if id, ok := x.(*ast.Ident); ok {
				if o, ok := p.TypesInfo.Uses[id].(*types.Func); ok {
					if m := nodes[o.Origin()]; m != nil && !seen[m] {
						seen[m] = true
						n.succ = append(n.succ, m)
					}
				}
			}
			return true
		})
	}
	return order
}

func sccs(nodes []*refNode) [][]*refNode {
	var out [][]*refNode
	idx := 0
	var stack []*refNode
	var strong func(v *refNode)
	strong = func(v *refNode) {
		v.index, v.low = idx, idx
		idx++
		stack = append(stack, v)
		v.onStack = true
		for _, w := range v.succ {
			if w.index < 0 {
				strong(w)
				if w.low < v.low {
					v.low = w.low
				}
			} else if w.onStack && w.index < v.low {
				v.low = w.index
			}
		}
		if v.low == v.index {
			var comp []*refNode
			for {
				w := stack[len(stack)-1]
				stack = stack[:len(stack)-1]
				w.onStack = false
				comp = append(comp, w)
				if w == v {
					break
				}
			}
			out = append(out, comp)
		}
	}
	for _, v := range nodes {
		if v.index < 0 {
			strong(v)
		}
	}
	return out
}

// monad representation observers: a function calling one of these is a primitive.
var monadObservers = map[string]map[string]bool{
	"Try":    {"IsSuccess": true, "IsFailure": true, "Get": true, "Failed": true, "Unapply": true},
	"Option": {"IsDefined": true, "IsEmpty": true, "Get": true, "Unapply": true},
	"Either": {"IsLeft": true, "IsRight": true, "Left": true, "Get": true},
}

func isPrimitive(p *packages.Package, fd *ast.FuncDecl) bool {
	info := p.TypesInfo
	return nodeContains(fd.Body, true, func(n ast.Node) bool {
		call, ok := n.(*ast.CallExpr)
		if !ok {
			return false
		}
		if sel, ok := ast.Unparen(call.Fun).(*ast.SelectorExpr); ok {
			if tv, ok := info.Types[sel.X]; ok {
				for tn, ms := range monadObservers {
					if isNamed(tv.Type, "fp", tn) && ms[sel.Sel.Name] {
						return true
					}
				}
			}
		}
		// applying a StateT value
		if tv, ok := info.Types[call.Fun]; ok && isNamed(tv.Type, "fp", "StateT") {
			return true
		}
		if sel, ok := ast.Unparen(call.Fun).(*ast.SelectorExpr); ok && sel.Sel.Name == "Run" {
			if tv, ok := info.Types[sel.X]; ok && isNamed(tv.Type, "fp", "StateT") {
				return true
			}
		}
		return false
	})
}

func Strat(c *core.Ctx, rule string) {
	c.Rule(rule, "in every package with a GenerateMonadFunctions directive the reference graph of its functions has no cycle made only of branch-free functions (a circular definition diverges on all-success inputs)")
	pkgs := monadPackages(c)
	var names []string
	for _, p := range pkgs {
		names = append(names, core.ShortPkg(p.PkgPath))
		nodes := buildRefGraph(c, p)
		nPrim, nDer := 0, 0
		var prims []string
		for _, n := range nodes {
			if isPrimitive(p, n.fd) {
				nPrim++
				prims = append(prims, n.name)
			} else {
				nDer++
			}
		}
		sort.Strings(prims)
		c.Table("R-BARRIER.primitives."+core.ShortPkg(p.PkgPath), prims...)
		c.Floor(rule, "derived functions in "+core.ShortPkg(p.PkgPath), nDer, 60)
		c.Floor(rule, "primitive functions in "+core.ShortPkg(p.PkgPath), nPrim, 4)
		inCycle := map[*refNode]bool{}
		for _, comp := range sccs(nodes) {
			cyc := len(comp) > 1
			if !cyc {
				for _, s := range comp[0].succ {
					if s == comp[0] {
						cyc = true
					}
				}
			}
			if !cyc {
				continue
			}
			sort.Slice(comp, func(i, j int) bool { return comp[i].name < comp[j].name })
			allFree := true
			var ns []string
			for _, n := range comp {
				inCycle[n] = true
				ns = append(ns, n.name)
				if !n.branchFree {
					allFree = false
				}
			}
			key := "cycle:" + strings.Join(ns, "+")
			if allFree {
				c.Add(rule, key, comp[0].fd.Pos(), core.Violated,
					"circular definition: {"+strings.Join(ns, ", ")+"} refer to each other and none of them contains a branch, so control can never leave the cycle (stack overflow on every input)")
			} else {
				c.Add(rule, key, comp[0].fd.Pos(), core.Skipped, "recursive but contains a branch (not a definitional cycle)")
			}
		}
		for _, n := range nodes {
			if !inCycle[n] {
				c.Add(rule, n.name, n.fd.Pos(), core.Discharged, "not on a reference cycle")
			}
		}
	}
	sort.Strings(names)
	c.Table(rule+".monad_packages", names...)
	c.Floor(rule, "monad packages", len(pkgs), 4)
}

// Rel: every named parameter of the selected declarations is used in the body.
func Rel(c *core.Ctx, rule string, pkgs []*packages.Package, want func(p *packages.Package, fd *ast.FuncDecl, fn *types.Func) bool, paramFilter func(v *types.Var) bool, floor int) {
	if _, ok := c.Rules[rule]; !ok {
		c.Rule(rule, "relevance: every named parameter of the selected functions is used in the body (an ignored operand/instance type-checks but drops a component)")
	}
	n := 0
	for _, p := range pkgs {
		info := p.TypesInfo
		for _, f := range p.Syntax {
			for _, d := range f.Decls {
				fd, ok := d.(*ast.FuncDecl)
				if !ok || fd.Body == nil {
					continue
				}
				fn, _ := info.Defs[fd.Name].(*types.Func)
				if fn == nil || fd.Name.Name == "_" || !want(p, fd, fn) {
					continue
				}
				used := map[types.Object]bool{}
				ast.Inspect(fd.Body, func(x ast.Node) bool {
					if id, ok := x.(*ast.Ident); ok {
						if o := info.Uses[id]; o != nil {
							used[o] = true
						}
					}
					return true
				})
				name := c.FuncName(p, fd)
				for _, fl := range fd.Type.Params.List {
					for _, nm := range fl.Names {
						if nm.Name == "_" {
							continue
						}
						v, _ := info.Defs[nm].(*types.Var)
						if v == nil || (paramFilter != nil && !paramFilter(v)) {
							continue
						}
						if tp, ok := v.Type().(*types.TypeParam); ok && typeParamOccurrences(fn.Type().(*types.Signature), tp) == 1 {
							c.Add(rule, name+"#"+nm.Name, nm.Pos(), core.Skipped, "type parameter "+tp.Obj().Name()+" occurs nowhere else in the signature: by parametricity the value cannot influence the result")
							continue
						}
						n++
						if used[v] {
							c.Add(rule, name+"#"+nm.Name, nm.Pos(), core.Discharged, "parameter used")
						} else {
							c.Add(rule, name+"#"+nm.Name, nm.Pos(), core.Violated, "parameter "+nm.Name+" ("+types.TypeString(v.Type(), func(p *types.Package) string { return p.Name() })+") is never used: the function cannot depend on it")
						}
					}
				}
			}
		}
	}
	c.Floor(rule, "parameters checked", n, floor)
}

// typeParamOccurrences counts occurrences of tp in the parameter and result types of sig.
func typeParamOccurrences(sig *types.Signature, tp *types.TypeParam) int {
	n := 0
	var walk func(t types.Type, depth int)
	walk = func(t types.Type, depth int) {
		if depth > 12 {
			return
		}
		switch x := t.(type) {
		case *types.TypeParam:
			if x == tp {
				n++
			}
		case *types.Named:
			for i := 0; i < x.TypeArgs().Len(); i++ {
				walk(x.TypeArgs().At(i), depth+1)
			}
		case *types.Alias:
			walk(types.Unalias(x), depth+1)
		case *types.Pointer:
			walk(x.Elem(), depth+1)
		case *types.Slice:
			walk(x.Elem(), depth+1)
		case *types.Array:
			walk(x.Elem(), depth+1)
		case *types.Map:
			walk(x.Key(), depth+1)
			walk(x.Elem(), depth+1)
		case *types.Chan:
			walk(x.Elem(), depth+1)
		case *types.Signature:
			for i := 0; i < x.Params().Len(); i++ {
				walk(x.Params().At(i).Type(), depth+1)
			}
			for i := 0; i < x.Results().Len(); i++ {
				walk(x.Results().At(i).Type(), depth+1)
			}
		case *types.Struct:
			for i := 0; i < x.NumFields(); i++ {
				walk(x.Field(i).Type(), depth+1)
			}
		case *types.Tuple:
			for i := 0; i < x.Len(); i++ {
				walk(x.At(i).Type(), depth+1)
			}
		}
	}
	walk(sig.Params(), 0)
	walk(sig.Results(), 0)
	return n
}
