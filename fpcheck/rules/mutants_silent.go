package rules

func init() {
	addSilent(
		Mutant{"C09", "eq-seq-empty-fastpath", "eq/eq_op.go", `		if a.Size() != b.Size() {
			return false
		}

		for i := range a {
			if !eq.Eqv(a[i], b[i]) {`, `		if len(a) == 0 && len(b) == 0 {
			return true
		}
		if a.Size() != b.Size() {
			return false
		}

		for i := range a {
			if !eq.Eqv(a[i], b[i]) {`, "", "both-empty fast path before the size test"},
		Mutant{"C09", "eq-seq-same-array-after-size", "eq/eq_op.go", `		if a.Size() != b.Size() {
			return false
		}

		for i := range a {
			if !eq.Eqv(a[i], b[i]) {`, `		if a.Size() != b.Size() {
			return false
		}
		if len(a) == 0 {
			return true
		}

		for i := range a {
			if !eq.Eqv(a[i], b[i]) {`, "", "early true after the size test"},
		Mutant{"C10", "given-less-as-greater", "typeclass.go", `		if a < b {
			return -1
		}
		if a > b {
			return 1
		}
		return 0`, `		if b > a {
			return -1
		}
		if b < a {
			return 1
		}
		return 0`, "", "same comparisons spelled the other way round"},
		Mutant{"C10", "seq-compare-by-sign", "ord/ord_op.go", `			if ord.Less(a[i], b[i]) {
				return true
			}
			if ord.Less(b[i], a[i]) {
				return false
			}`, `			if c := ord.Compare(a[i], b[i]); c < 0 {
				return true
			} else if c > 0 {
				return false
			}`, "", "lexicographic step through the sign of Compare"},
		Mutant{"C10", "reversed-by-swapping", "typeclass.go", `func (r LessFunc[T]) Reversed() Ord[T] {
	return CompareFunc[T](func(a, b T) int {
		return -r.Compare(a, b)
	})
}`, `func (r LessFunc[T]) Reversed() Ord[T] {
	return CompareFunc[T](func(a, b T) int {
		return r.Compare(b, a)
	})
}`, "", "Reversed by swapping the operands"},
		Mutant{"C12", "take-bound-first-and", "iterator.go", `		if i < n {
			return r.HasNext()
		}
		return false`, `		return i < n && r.HasNext()`, "", "bound tested first in a conjunction"},
		Mutant{"C12", "list-fold-for-nonempty", "list/list_op.go", `	for !cursor.IsEmpty() {
		sum = f(sum, cursor.Head())
		cursor = cursor.Tail()
	}
	return sum`, `	for cursor.NonEmpty() {
		h, t := cursor.Unapply()
		sum = f(sum, h)
		cursor = t
	}
	return sum`, "", "same loop through Unapply"},
		Mutant{"C05", "complete-loop-retry", "future.go", `func (r Promise[T]) tryCompleteAndGetListeners(v Try[T]) (bool, []onCompleteFunc[T]) {
	ap := r.status.Get()
	switch status := ap.Value().(type) {
	case nil:
		if r.status.CompareAndSwap(ap, v) {
			return true, nil
		}
		return r.tryCompleteAndGetListeners(v)

	case []onCompleteFunc[T]:
		if r.status.CompareAndSwap(ap, v) {
			return true, status
		}
		return r.tryCompleteAndGetListeners(v)

	case Try[T]:
		return false, nil
	}
	panic("not possible")
}`, `func (r Promise[T]) tryCompleteAndGetListeners(v Try[T]) (bool, []onCompleteFunc[T]) {
	for {
		ap := r.status.Get()
		switch status := ap.Value().(type) {
		case nil:
			if r.status.CompareAndSwap(ap, v) {
				return true, nil
			}
		case []onCompleteFunc[T]:
			if r.status.CompareAndSwap(ap, v) {
				return true, status
			}
		case Try[T]:
			return false, nil
		default:
			panic("not possible")
		}
	}
}`, "", "retry written as a loop instead of recursion"},
		Mutant{"C04", "seq-append-via-append-on-fresh", "seq.go", `		tail := Seq[T](items)
		ret := make(Seq[T], r.Size()+tail.Size())

		copy(ret, r)

		for i := range tail {
			ret[i+r.Size()] = tail[i]
		}

		return ret`, `		ret := make(Seq[T], 0, len(r)+len(items))
		ret = append(ret, r...)
		ret = append(ret, items...)
		return ret`, "", "append onto a fresh slice"},
		Mutant{"C04", "seq-sort-clone", "seq/seq_op.go", `	ns := make(fp.Seq[T], len(r))
	copy(ns, r)
	sort.Sort(&seqSorter[T]{ns, ord})`, `	ns := append(fp.Seq[T](nil), r...)
	sort.Sort(&seqSorter[T]{ns, ord})`, "", "copy through append(nil, r...)"},
		Mutant{"C02", "map2-named-lambda-vars", "try/try_monad.go", `func Map2[A any, B, R any](first fp.Try[A], second fp.Try[B], fab func(A, B) R) fp.Try[R] {
	return FlatMap(first, func(a A) fp.Try[R] {
		return Map(second, func(b B) R {
			return fab(a, b)
		})
	})
}`, `func Map2[A any, B, R any](first fp.Try[A], second fp.Try[B], fab func(A, B) R) fp.Try[R] {
	inner := func(a A) fp.Try[R] {
		return FlatMap(second, func(b B) fp.Try[R] {
			return Success(fab(a, b))
		})
	}
	return FlatMap(first, inner)
}`, "", "Map2 spelled with FlatMap/Success and a named continuation"},
		Mutant{"C02", "flatmap-else-form", "try/try_op.go", `	if ta.IsSuccess() {
		return fn(ta.Get())
	}
	return Failure[B](ta.Failed().Get())`, `	if ta.IsFailure() {
		return Failure[B](ta.Failed().Get())
	} else {
		return fn(ta.Get())
	}`, "", "negated test with else"},
		Mutant{"C17", "flatmap-named-results", "statet/statet_op.go", `		ret, ns := st(s)
		if ret.IsSuccess() {
			return f(ret.Get())(ns)
		}
		return try.Failure[B](ret.Failed().Get()), ns`, `		ret, ns := st.Run(s)
		if ret.IsFailure() {
			return try.Failure[B](ret.Failed().Get()), ns
		}
		next := f(ret.Get())
		return next.Run(ns)`, "", "same threading through Run and an early return"},
		Mutant{"C18", "slice-explicit-loop", "clone/clone.go", `	return New(func(s []T) []T {
		return seq.Map(s, tclone.Clone)
	})`, `	return New(func(s []T) []T {
		ret := make([]T, len(s))
		for i := range s {
			ret[i] = tclone.Clone(s[i])
		}
		return ret
	})`, "", "explicit loop cloning every element"},
		Mutant{"C19", "updated-copy-helper-inline", "mutable/copyonwrite.go", `		nm := fp.UnsafeGoMap[K, V]{}

		for k, v := range om {
			nm[k] = v

		}
		nm[k] = v
		return nm
	})

	return r
}

func (r *CopyOnWriteMap[K, V]) UpdatedWith(`, `		nm := make(fp.UnsafeGoMap[K, V], len(om)+1)
		for ok, ov := range om {
			nm[ok] = ov
		}
		nm[k] = v
		return nm
	})

	return r
}

func (r *CopyOnWriteMap[K, V]) UpdatedWith(`, "", "pre-sized copy"},
		Mutant{"C20", "all-via-nextoption", "iterator.go", `		for r.HasNext() {
			if !f(r.Next()) {
				return
			}
		}`, `		for {
			v := r.NextOption()
			if v.IsEmpty() || !f(v.Get()) {
				return
			}
		}`, "", "All through NextOption"},
		Mutant{"C11", "reduce-first-element", "seq/seq_op.go", `	reduce := m.Empty()
	for i := 0; i < len(r); i++ {
		reduce = m.Combine(reduce, r[i])
	}

	return reduce`, `	reduce := m.Combine(m.Empty(), r[0])
	for i := 1; i < len(r); i++ {
		reduce = m.Combine(reduce, r[i])
	}

	return reduce`, "", "first step unrolled"},
		Mutant{"C16", "call-memoize-inline-var", "lazy/lazy.go", `func Call[T any](f func() T) Eval[T] {
	mf := Memoize(f)
	// return call[T](func() Eval[T] {
	// 	return Done(mf())
	// })
	return Eval[T]{
		firstFunc: mf,
	}`, `func Call[T any](f func() T) Eval[T] {
	return Eval[T]{
		firstFunc: Memoize(f),
	}`, "", "memoiser applied inline"},
		Mutant{"C15", "option-unmarshal-early-return", "option.go", `			err := json.Unmarshal(b, &t)
			if err == nil {
				*r = Some(t)
			}
			return err`, `			if err := json.Unmarshal(b, &t); err != nil {
				return err
			}
			*r = Some(t)
			return nil`, "", "error returned early, store afterwards"},
		Mutant{"C13", "gombok-sort-with-slices", "cmd/gombok/gombok.go", `	klist := keyTags.Iterator().ToSeq()
	seq.Sort(klist, ord.Given[string]()).Foreach(func(name string) {`, `	klist := keyTags.Iterator().ToSeq()
	klist = seq.Sort(klist, ord.Given[string]())
	fp.Seq[string](klist).Foreach(func(name string) {`, "", "sorted result bound to a variable first"},
		Mutant{"C06", "future-map-transform", "future.go", `		if t.IsSuccess() {
			np.Success(mf(t.Get()))
		} else {
			np.Failure(t.Failed().Get())
		}`, `		if !t.IsSuccess() {
			np.Complete(t)
			return
		}
		np.Success(mf(t.Get()))`, "", "failure forwarded with Complete and an early return"},
		Mutant{"C03", "map-get-via-size", "map.go", `func (r Map[K, V]) Contains(k K) bool {
	return r.Get(k).IsDefined()
}`, `func (r Map[K, V]) Contains(k K) bool {
	if r.Base == nil {
		return false
	}
	return r.Base.Get(k).IsDefined()
}`, "", "explicit nil guard"},
		Mutant{"C01", "map-via-flatmap-lambda", "option/option_monad.go", `func Map[A any, R any](m fp.Option[A], f func(A) R) fp.Option[R] {
	return FlatMap(m, fp.Compose2(f, Pure[R]))
}`, `func Map[A any, R any](m fp.Option[A], f func(A) R) fp.Option[R] {
	return FlatMap(m, func(a A) fp.Option[R] {
		return Pure(f(a))
	})
}`, "", "Map with an explicit lambda"},
		Mutant{"C14", "revert-via-locals", "curried/curried_gen.go", `func Revert3[A1, A2, A3, R any](f fp.Func1[A1, fp.Func1[A2, fp.Func1[A3, R]]]) func(A1, A2, A3) R {
	return func(a1 A1, a2 A2, a3 A3) R {
		return f(a1)(a2)(a3)
	}`, `func Revert3[A1, A2, A3, R any](f fp.Func1[A1, fp.Func1[A2, fp.Func1[A3, R]]]) func(A1, A2, A3) R {
	return func(a1 A1, a2 A2, a3 A3) R {
		g := f(a1)
		h := g(a2)
		return h(a3)
	}`, "", "partial applications bound to locals"},
	)
}
