package rules

import (
	"go/token"
	"go/types"
	"sort"
	"strings"

	"fpcheck/core"

	"golang.org/x/tools/go/ssa"
)

// srcFuncs returns every source-level function (declared or literal) of the
// module packages, sorted by position; synthetic wrappers are excluded.
func srcFuncs(c *core.Ctx) []*ssa.Function {
	prog, pkgs := c.SSA()
	if cached, ok := srcFuncCache[prog]; ok {
		return cached
	}
	var out []*ssa.Function
	seen := map[*ssa.Function]bool{}
	var add func(fn *ssa.Function)
	add = func(fn *ssa.Function) {
		if fn == nil || seen[fn] || fn.Synthetic != "" || fn.Blocks == nil {
			return
		}
		seen[fn] = true
		out = append(out, fn)
		for _, a := range fn.AnonFuncs {
			add(a)
		}
	}
	for _, p := range pkgs {
		if p == nil || p.Pkg == nil || !strings.HasPrefix(p.Pkg.Path(), core.ModPath) {
			continue
		}
		for _, mem := range p.Members {
			switch m := mem.(type) {
			case *ssa.Function:
				add(m)
			case *ssa.Type:
				if nt, ok := m.Type().(*types.Named); ok {
					for i := 0; i < nt.NumMethods(); i++ {
						add(prog.FuncValue(nt.Method(i)))
					}
				}
			}
		}
		// package initialiser literals (var x = func(){...})
		if init := p.Func("init"); init != nil {
			for _, a := range init.AnonFuncs {
				add(a)
			}
		}
	}
	sort.Slice(out, func(i, j int) bool {
		if out[i].Pos() != out[j].Pos() {
			return out[i].Pos() < out[j].Pos()
		}
		return out[i].String() < out[j].String()
	})
	srcFuncCache[prog] = out
	return out
}

var srcFuncCache = map[*ssa.Program][]*ssa.Function{}

// topFunc returns the declared function lexically enclosing fn.
func topFunc(fn *ssa.Function) *ssa.Function {
	for fn.Parent() != nil {
		fn = fn.Parent()
	}
	return fn
}

// fnName renders pkg.Recv.Method / pkg.Func, with $n for literals.
func fnName(fn *ssa.Function) string {
	top := topFunc(fn)
	name := top.Name()
	if sig := top.Signature; sig != nil && sig.Recv() != nil {
		name = typeBaseName(sig.Recv().Type()) + "." + name
	}
	pkg := ""
	if top.Pkg != nil {
		pkg = core.ShortPkg(top.Pkg.Pkg.Path())
	}
	if fn != top {
		// literal suffix relative to the top function, e.g. $1$2
		suffix := strings.TrimPrefix(fn.Name(), top.Name())
		return pkg + "." + name + suffix
	}
	return pkg + "." + name
}

func typeBaseName(t types.Type) string {
	for {
		switch tt := t.(type) {
		case *types.Pointer:
			t = tt.Elem()
			continue
		case *types.Named:
			return tt.Obj().Name()
		case *types.Alias:
			t = types.Unalias(tt)
			continue
		}
		return t.String()
	}
}

// namedOf returns the named type behind t (through pointers/aliases), or nil.
func namedOf(t types.Type) *types.Named {
	for {
		switch tt := t.(type) {
		case *types.Pointer:
			t = tt.Elem()
			continue
		case *types.Alias:
			t = types.Unalias(tt)
			continue
		case *types.Named:
			return tt
		}
		return nil
	}
}

// isNamed reports whether t is (a pointer to) the named type pkgRel.name of the module.
func isNamed(t types.Type, pkgRel, name string) bool {
	n := namedOf(t)
	if n == nil || n.Obj().Pkg() == nil {
		return false
	}
	want := core.ModPath
	if pkgRel != "" && pkgRel != "fp" {
		want += "/" + pkgRel
	}
	return n.Obj().Name() == name && n.Obj().Pkg().Path() == want
}

// calleeFunc resolves the *types.Func (generic origin) statically called by a call, or nil.
func calleeFunc(cc *ssa.CallCommon) *types.Func {
	if cc.IsInvoke() {
		return nil
	}
	if fn := cc.StaticCallee(); fn != nil {
		if o, ok := fn.Object().(*types.Func); ok && o != nil {
			return o.Origin()
		}
		if org := fn.Origin(); org != nil {
			if o, ok := org.Object().(*types.Func); ok && o != nil {
				return o.Origin()
			}
		}
	}
	return nil
}

// structFieldVar returns the origin field variable selected by index i on (pointer to) struct type t.
func structFieldVar(t types.Type, i int) *types.Var {
	if p, ok := t.Underlying().(*types.Pointer); ok {
		t = p.Elem()
	}
	st, ok := t.Underlying().(*types.Struct)
	if !ok || i >= st.NumFields() {
		return nil
	}
	return st.Field(i).Origin()
}

func isNilConst(v ssa.Value) bool {
	c, ok := v.(*ssa.Const)
	return ok && c.IsNil()
}

func instrPos(in ssa.Instruction) token.Pos {
	if p := in.Pos(); p.IsValid() {
		return p
	}
	if v, ok := in.(ssa.Value); ok {
		_ = v
	}
	// fall back to the closest positioned instruction in the block, then the function
	b := in.Block()
	if b != nil {
		for _, i2 := range b.Instrs {
			if p := i2.Pos(); p.IsValid() {
				return p
			}
		}
		return b.Parent().Pos()
	}
	return token.NoPos
}

func modulePkg(p *types.Package) bool {
	return p != nil && strings.HasPrefix(p.Path(), core.ModPath)
}

func isTestPkgPath(path string) bool {
	return strings.Contains(path, "/test/") || strings.HasSuffix(path, "/test") || strings.Contains(path, "/internal/generator")
}

// libFuncs: source functions of the library proper (see libPkgs).
func libFuncs(c *core.Ctx) []*ssa.Function {
	lib := map[string]bool{}
	for _, p := range libPkgs(c) {
		lib[p.PkgPath] = true
	}
	var out []*ssa.Function
	for _, fn := range srcFuncs(c) {
		if fn.Pkg != nil && lib[fn.Pkg.Pkg.Path()] {
			out = append(out, fn)
		}
	}
	return out
}
