package rules

// Mutants for the rules added after round 5 of the seeded changes.

func init() {
	MutantExtra["C10/ord-option-unapply-zero-payload"] = [2]string{"\t\"github.com/csgura/fp/option\"\n", ""}
	MutantExtra["C10/ord-option-unapply-both-tested"] = [2]string{"\t\"github.com/csgura/fp/option\"\n", ""}
	addMutants(
		Mutant{"C02", "recover-unwraps-captured-panic", "try/try_op.go", "func Of[T any](f func() T) (ret fp.Try[T]) {\n	defer func() {\n		if p := recover(); p != nil {\n			ret = Failure[T](&panicError{p, debug.Stack()})\n		}\n	}()", "func newPanicError(p any) *panicError {\n	if pe, ok := p.(Panic); ok {\n		return &panicError{pe.Panic(), pe.Stack()}\n	}\n	return &panicError{p, debug.Stack()}\n}\n\nfunc Of[T any](f func() T) (ret fp.Try[T]) {\n	defer func() {\n		if p := recover(); p != nil {\n			ret = Failure[T](newPanicError(p))\n		}\n	}()", "R-PANIC/try.Of", "a re-panicked captured panic is exposed as its inner cause, not as the value that was panicked with"},
		Mutant{"C03", "intersect-empty-fast-path-forgets-hasher", "set.go", "func (r Set[V]) Intersect(other Set[V]) Set[V] {\n	ret := Set[V]{getEmpty: r.getEmpty}\n", "func (r Set[V]) Intersect(other Set[V]) Set[V] {\n	if r.IsEmpty() || other.IsEmpty() {\n		return Set[V]{}\n	}\n	ret := Set[V]{getEmpty: r.getEmpty}\n", "R-SETCTX/fp.Set.Intersect", "the empty result falls back to == on Go maps"},
		Mutant{"C10", "ord-option-unapply-zero-payload", "ord/ord_op.go", "		if !t1.IsDefined() && !t2.IsDefined() {\n			return false\n		}\n		return option.Map2(t1, t2, m.Less).OrElse(t1.IsEmpty())", "		v1, ok1 := t1.Unapply()\n		v2, ok2 := t2.Unapply()\n		if !ok1 {\n			return ok2\n		}\n		return m.Less(v1, v2)", "R-PAYLOAD/ord.Option", "None on the right is compared as the zero value"},
		Mutant{"C11", "mergeseq-appends-onto-operand", "monoid/monoid_op.go", "		func(a fp.Seq[T], b fp.Seq[T]) fp.Seq[T] {\n			return a.Concat(b)\n		},", "		func(a fp.Seq[T], b fp.Seq[T]) fp.Seq[T] {\n			return append(a, b...)\n		},", "R-PURE-COMBINE/monoid.MergeSeq", "the result shares (and overwrites) the left operand's spare capacity"},
		Mutant{"C20", "takewhile-caches-before-judging", "iterator.go", "		if breaking {\n			return false\n		}\n\n		if fv.IsDefined() {\n			return true\n		}\n\n		if r.HasNext() {\n			v := r.Next()\n			if p(v) {\n				fv = Some(v)\n				return true\n			}\n			breaking = true\n		}\n		return false", "		if fv.IsDefined() {\n			return true\n		}\n\n		if breaking {\n			return false\n		}\n\n		if r.HasNext() {\n			fv = Some(r.Next())\n			if p(fv.Get()) {\n				return true\n			}\n			breaking = true\n		}\n		return false", "R-CACHEGUARD/fp.Iterator.TakeWhile", "the rejected element stays in the look-ahead cell"},
	)
	addMutants(
		Mutant{"C14", "applicative6-aptryfunc-eager", "try/applicative_gen.go", "	return ApplicativeFunctor5[A2, A3, A4, A5, A6, R]{ApFunc(r.fn, a)}", "	return ApplicativeFunctor5[A2, A3, A4, A5, A6, R]{Ap(r.fn, a())}", "R-SIBLING/try.ApplicativeFunctor6.ApTryFunc", "one arity evaluates its supplier eagerly, unlike its eight siblings"},
	)
	addSilent(
		Mutant{"C02", "recover-through-plain-helper", "try/try_op.go", "func Of[T any](f func() T) (ret fp.Try[T]) {\n	defer func() {\n		if p := recover(); p != nil {\n			ret = Failure[T](&panicError{p, debug.Stack()})\n		}\n	}()", "func newPanicError(p any) *panicError {\n	return &panicError{p, debug.Stack()}\n}\n\nfunc Of[T any](f func() T) (ret fp.Try[T]) {\n	defer func() {\n		if p := recover(); p != nil {\n			ret = Failure[T](newPanicError(p))\n		}\n	}()", "", "helper that wraps the value without looking at it"},
		Mutant{"C03", "intersect-empty-fast-path-keeps-hasher", "set.go", "func (r Set[V]) Intersect(other Set[V]) Set[V] {\n	ret := Set[V]{getEmpty: r.getEmpty}\n", "func (r Set[V]) Intersect(other Set[V]) Set[V] {\n	if r.IsEmpty() || other.IsEmpty() {\n		return Set[V]{getEmpty: r.getEmpty}\n	}\n	ret := Set[V]{getEmpty: r.getEmpty}\n", "", "fast path that keeps the factory"},
		Mutant{"C10", "ord-option-unapply-both-tested", "ord/ord_op.go", "		if !t1.IsDefined() && !t2.IsDefined() {\n			return false\n		}\n		return option.Map2(t1, t2, m.Less).OrElse(t1.IsEmpty())", "		v1, ok1 := t1.Unapply()\n		v2, ok2 := t2.Unapply()\n		if !ok1 {\n			return ok2\n		}\n		if !ok2 {\n			return false\n		}\n		return m.Less(v1, v2)", "", "Unapply form with both flags tested"},
		Mutant{"C11", "mergeseq-appends-onto-capped-operand", "monoid/monoid_op.go", "		func(a fp.Seq[T], b fp.Seq[T]) fp.Seq[T] {\n			return a.Concat(b)\n		},", "		func(a fp.Seq[T], b fp.Seq[T]) fp.Seq[T] {\n			return append(a[:len(a):len(a)], b...)\n		},", "", "full slice expression: append must reallocate"},
		Mutant{"C20", "takewhile-verdict-in-variable", "iterator.go", "			v := r.Next()\n			if p(v) {\n				fv = Some(v)\n				return true\n			}\n			breaking = true", "			v := r.Next()\n			keep := p(v)\n			if keep {\n				fv = Some(v)\n				return true\n			}\n			breaking = true", "", "the predicate's verdict goes through a variable"},
	)
}
