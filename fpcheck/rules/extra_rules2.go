package rules

// Rules added after the second round of seeded changes (DESIGN.md §10):
//   R-STACKBOUND (C03)  the iterator's explicit stack holds every level a 32-bit hash can produce
//   R-STRICT     (C10)  a less closure is strict: no `<=`/`>=` and no negated less as its result
//   R-EMPTY      (C11)  a fold over an fp.Monoid consults m.Empty()
//   R-ONESHOT    (C12)  the two thunks of one MakeList do not both consume the same captured iterator
//   R-JSONQUOTE  (C15)  MarshalJSON never uses Go-syntax quoting (strconv.Quote*, %q) for JSON strings
//   R-NEXTGUARD  (C20)  when hasNext keeps look-ahead state, next re-establishes it before use

import (
	"go/ast"
	"go/constant"
	"go/token"
	"go/types"
	"strings"

	"fpcheck/core"

	"golang.org/x/tools/go/packages"
)

func StackBound(c *core.Ctx, rule string, p *packages.Package) {
	c.Rule(rule, "an explicit traversal stack indexed by trie depth (an array local whose element type holds a trie node) has at least ceil(bits(keyHash)/mapNodeBits)+1 slots: one per branch level a hash of that width can produce, plus the leaf")
	info := p.TypesInfo
	// bits per level: the constant used as shift increment = log2(#children): take the package constant named by the
	// mask relation (mask+1 == 1<<bits): search constants c with another constant == (1<<c)-1
	scope := p.Types.Scope()
	bitsPerLevel := int64(0)
	for _, n := range scope.Names() {
		cst, ok := scope.Lookup(n).(*types.Const)
		if !ok || cst.Val().Kind() != constant.Int {
			continue
		}
		b, _ := constant.Int64Val(cst.Val())
		if b < 2 || b > 8 {
			continue
		}
		for _, m := range scope.Names() {
			c2, ok := scope.Lookup(m).(*types.Const)
			if !ok || c2.Val().Kind() != constant.Int {
				continue
			}
			v, _ := constant.Int64Val(c2.Val())
			if v == (int64(1)<<uint(b))-1 {
				bitsPerLevel = b
			}
		}
	}
	// hash width: the keyHash parameter type of the node interface's get method
	hashBits := int64(0)
	for _, n := range scope.Names() {
		tn, ok := scope.Lookup(n).(*types.TypeName)
		if !ok {
			continue
		}
		it, ok := tn.Type().Underlying().(*types.Interface)
		if !ok {
			continue
		}
		for i := 0; i < it.NumMethods(); i++ {
			sig := it.Method(i).Type().(*types.Signature)
			for j := 0; j < sig.Params().Len(); j++ {
				if sig.Params().At(j).Name() == "keyHash" {
					if b, ok := sig.Params().At(j).Type().Underlying().(*types.Basic); ok {
						switch b.Kind() {
						case types.Uint32, types.Int32:
							hashBits = 32
						case types.Uint64, types.Int64:
							hashBits = 64
						}
					}
				}
			}
		}
	}
	n := 0
	if bitsPerLevel == 0 || hashBits == 0 {
		c.Add(rule, "slots", token.NoPos, core.Skipped, "could not derive bits per level / hash width from the package")
		return
	}
	need := (hashBits+bitsPerLevel-1)/bitsPerLevel + 1
	for _, fb := range funcBodies(c, []*packages.Package{p}) {
		if fb.Lit != nil {
			continue
		}
		ast.Inspect(fb.Body, func(x ast.Node) bool {
			vs, ok := x.(*ast.ValueSpec)
			if !ok {
				return true
			}
			for _, nm := range vs.Names {
				o := info.Defs[nm]
				if o == nil {
					continue
				}
				at, ok := o.Type().Underlying().(*types.Array)
				if !ok {
					continue
				}
				st, ok := at.Elem().Underlying().(*types.Struct)
				if !ok {
					continue
				}
				holdsNode := false
				for i := 0; i < st.NumFields(); i++ {
					if _, isI := st.Field(i).Type().Underlying().(*types.Interface); isI {
						holdsNode = true
					}
				}
				if !holdsNode {
					continue
				}
				n++
				key := fb.Name + "/" + nm.Name
				if at.Len() >= need {
					c.Add(rule, key, nm.Pos(), core.Discharged, "array of "+itoa(int(at.Len()))+" ≥ "+itoa(int(need))+" levels")
				} else {
					c.Add(rule, key, nm.Pos(), core.Violated, "the traversal stack has "+itoa(int(at.Len()))+" slots but a "+itoa(int(hashBits))+"-bit hash consumed "+itoa(int(bitsPerLevel))+" bits per level yields up to "+itoa(int(need))+" levels (branches + leaf): iterating a map with two keys that differ only in the top hash bits indexes out of range")
				}
			}
			return true
		})
	}
	c.Floor(rule, "depth-indexed stacks", n, 1)
}

// Strict: less closures are strict.
func Strict(c *core.Ctx, rule string, pkgs []*packages.Package) {
	c.Rule(rule, "a function used as a strict less (a value of / converted to fp.LessFunc, or the less argument of ord.New) does not return `x <= y`, `x >= y` or the negation of a less (`!r(a, b)`, `!o.Less(a, b)`): ¬(a<b) is b≤a, which is reflexive on ties, so Less(a,b) and Less(b,a) both hold for equal elements")
	n := 0
	for _, fb := range funcBodies(c, pkgs) {
		if fb.Lit == nil {
			continue
		}
		info := fb.Pkg.TypesInfo
		// is this literal a less?  — converted to fp.LessFunc, or second argument of ord.New, or argument of as.Ord
		isLess := false
		var decl ast.Node = fb.Decl
		if decl == nil {
			continue
		}
		ast.Inspect(fb.Decl, func(x ast.Node) bool {
			call, ok := x.(*ast.CallExpr)
			if !ok {
				return true
			}
			for i, a := range call.Args {
				if ast.Unparen(a) != fb.Lit {
					continue
				}
				if tv, ok := info.Types[call.Fun]; ok && tv.IsType() && isNamed(tv.Type, "fp", "LessFunc") {
					isLess = true
				}
				if callee := calleeOf(info, call); callee != nil {
					if funcIs(callee, "ord", "New") && i == 1 {
						isLess = true
					}
					if funcIs(callee, "as", "Ord") {
						isLess = true
					}
				}
			}
			return true
		})
		if !isLess {
			continue
		}
		n++
		bad := ""
		var badPos token.Pos
		inspectShallow(fb.Body, func(x ast.Node) bool {
			ret, ok := x.(*ast.ReturnStmt)
			if !ok || len(ret.Results) != 1 {
				return true
			}
			e := ast.Unparen(ret.Results[0])
			switch r := e.(type) {
			case *ast.BinaryExpr:
				if r.Op == token.LEQ || r.Op == token.GEQ {
					bad, badPos = "returns the non-strict comparison `"+exprString(r)+"`", r.Pos()
				}
			case *ast.UnaryExpr:
				if r.Op == token.NOT {
					if call, ok := ast.Unparen(r.X).(*ast.CallExpr); ok && len(call.Args) == 2 {
						isLessCall := false
						if sel, ok := ast.Unparen(call.Fun).(*ast.SelectorExpr); ok && sel.Sel.Name == "Less" {
							isLessCall = true
						}
						if tv, ok := info.Types[call.Fun]; ok && isNamed(tv.Type, "fp", "LessFunc") {
							isLessCall = true
						}
						if isLessCall {
							bad, badPos = "returns the negation of a less, `"+exprString(r)+"`", r.Pos()
						}
					}
				}
			}
			return true
		})
		if bad != "" {
			c.Add(rule, fb.Name, badPos, core.Violated, "this strict-less function "+bad+": for equal elements Less(a,b) and Less(b,a) are both true (Eqv false, Compare -1, ThenComparing never consulted)")
		} else {
			c.Add(rule, fb.Name, fb.Pos(), core.Discharged, "strict")
		}
	}
	c.Floor(rule, "less closures", n, 8)
}

// MonoidEmpty: folds over a monoid consult Empty.
func MonoidEmpty(c *core.Ctx, rule string, pkgs []*packages.Package) {
	c.Rule(rule, "every function of seq/iterator/list that takes an fp.Monoid m and folds with m.Combine also consults m.Empty() (as the initial accumulator or as the result for an empty input): otherwise the result for an empty input cannot be the monoid's identity")
	n := 0
	for _, p := range pkgs {
		info := p.TypesInfo
		for _, f := range p.Syntax {
			for _, d := range f.Decls {
				fd, ok := d.(*ast.FuncDecl)
				if !ok || fd.Body == nil {
					continue
				}
				var m types.Object
				for _, fl := range fd.Type.Params.List {
					for _, nm := range fl.Names {
						if o := info.Defs[nm]; o != nil && isNamed(o.Type(), "fp", "Monoid") {
							m = o
						}
					}
				}
				if m == nil {
					continue
				}
				// a fold has something to fold over: a Seq / slice / Iterator / List parameter (a helper that only combines
				// two values with m is not a fold)
				hasColl := false
				for _, fl := range fd.Type.Params.List {
					for _, nm := range fl.Names {
						if o := info.Defs[nm]; o != nil {
							if cursorKind(o.Type()) != "" || isNamed(o.Type(), "fp", "Seq") {
								hasColl = true
							}
							if _, isSl := o.Type().Underlying().(*types.Slice); isSl {
								hasColl = true
							}
						}
					}
				}
				if !hasColl {
					continue
				}
				uses := func(method string) bool {
					return nodeContains(fd.Body, true, func(x ast.Node) bool {
						if sel, ok := x.(*ast.SelectorExpr); ok && sel.Sel.Name == method && objOf(info, sel.X) == m {
							return true
						}
						// m handed to a module helper that applies the method to its own parameter
						call, ok := x.(*ast.CallExpr)
						if !ok {
							return false
						}
						callee := calleeOf(info, call)
						if callee == nil || callee.Pkg() == nil || !strings.HasPrefix(callee.Pkg().Path(), core.ModPath) {
							return false
						}
						hfd := c.FuncDecl(callee.Origin())
						hp := c.ByPath[callee.Pkg().Path()]
						if hfd == nil || hfd.Body == nil || hp == nil {
							return false
						}
						idx := 0
						for _, hf := range hfd.Type.Params.List {
							for _, hn := range hf.Names {
								if idx < len(call.Args) && objOf(info, call.Args[idx]) == m {
									ho := hp.TypesInfo.Defs[hn]
									if ho != nil && nodeContains(hfd.Body, true, func(y ast.Node) bool {
										sel, ok := y.(*ast.SelectorExpr)
										return ok && sel.Sel.Name == method && objOf(hp.TypesInfo, sel.X) == ho
									}) {
										return true
									}
								}
								idx++
							}
						}
						return false
					})
				}
				if !uses("Combine") {
					continue
				}
				n++
				name := c.FuncName(p, fd)
				if uses("Empty") {
					c.Add(rule, name, fd.Pos(), core.Discharged, "consults m.Empty()")
				} else {
					c.Add(rule, name, fd.Pos(), core.Violated, name+" combines with "+m.Name()+".Combine but never consults "+m.Name()+".Empty(): on an empty input it cannot return the identity (Product ⇒ 0 instead of 1, All ⇒ false instead of true)")
				}
			}
		}
	}
	c.Floor(rule, "monoid folds", n, 4)
}

// OneShot: both thunks of a MakeList consuming one captured iterator.
func OneShot(c *core.Ctx, rule string, pkgs []*packages.Package) {
	c.Rule(rule, "the head and tail thunks of one fp.MakeList call do not both consume the same captured fp.Iterator (Next/NextOption/passing it on): the two thunks are forced independently, so the element a cell holds would depend on the order in which heads and tails are demanded")
	n := 0
	for _, fb := range funcBodies(c, pkgs) {
		if fb.Lit != nil {
			continue
		}
		info := fb.Pkg.TypesInfo
		k := 0
		ast.Inspect(fb.Body, func(x ast.Node) bool {
			call, ok := x.(*ast.CallExpr)
			if !ok || len(call.Args) != 2 || !funcIs(calleeOf(info, call), "fp", "MakeList") {
				return true
			}
			h, ok1 := ast.Unparen(call.Args[0]).(*ast.FuncLit)
			t, ok2 := ast.Unparen(call.Args[1]).(*ast.FuncLit)
			if !ok1 || !ok2 {
				return true
			}
			k++
			n++
			consumed := func(fl *ast.FuncLit) map[types.Object]bool {
				out := map[types.Object]bool{}
				observerRecv := map[*ast.Ident]bool{}
				ast.Inspect(fl.Body, func(y ast.Node) bool {
					if ce, ok := y.(*ast.CallExpr); ok {
						if s, ok := ce.Fun.(*ast.SelectorExpr); ok && cursorObservers[s.Sel.Name] && len(ce.Args) == 0 {
							if id, ok := ast.Unparen(s.X).(*ast.Ident); ok {
								observerRecv[id] = true
							}
						}
					}
					return true
				})
				ast.Inspect(fl.Body, func(y ast.Node) bool {
					if id, ok := y.(*ast.Ident); ok && !observerRecv[id] {
						if o := info.Uses[id]; o != nil && isNamed(o.Type(), "fp", "Iterator") && (o.Pos() < fl.Pos() || o.Pos() > fl.End()) {
							out[o] = true
						}
					}
					return true
				})
				return out
			}
			ch, ct := consumed(h), consumed(t)
			key := fb.Name + "/MakeList#" + itoa(k)
			bad := false
			for o := range ch {
				if ct[o] {
					bad = true
					c.Add(rule, key+"/"+o.Name(), call.Pos(), core.Violated, "both the head and the tail thunk consume the captured iterator "+o.Name()+": which source element a cell holds depends on whether Head or Tail is forced first")
				}
			}
			if !bad {
				c.Add(rule, key, call.Pos(), core.Discharged, "at most one thunk consumes a captured iterator")
			}
			return true
		})
	}
	c.Floor(rule, "MakeList sites with literal thunks", n, 10)
}

// JSONQuote: MarshalJSON and Go quoting.
func JSONQuote(c *core.Ctx, rule string) {
	c.Rule(rule, "a MarshalJSON method produces string encodings only through encoding/json: strconv.Quote/AppendQuote/QuoteToASCII and the %q verb produce Go escapes (\\a, \\v, \\x00, \\U000e0001) that are not JSON")
	n := 0
	for _, fb := range funcBodies(c, c.Pkgs) {
		if fb.Lit != nil || fb.Decl.Recv == nil || fb.Decl.Name.Name != "MarshalJSON" {
			continue
		}
		if strings.Contains(fb.Pkg.PkgPath, "/cmd/") {
			continue
		}
		info := fb.Pkg.TypesInfo
		n++
		var hit ast.Node
		why := ""
		ast.Inspect(fb.Body, func(x ast.Node) bool {
			call, ok := x.(*ast.CallExpr)
			if !ok {
				return true
			}
			if callee := calleeOf(info, call); callee != nil && callee.Pkg() != nil {
				if callee.Pkg().Path() == "strconv" && strings.Contains(callee.Name(), "Quote") {
					hit, why = call, "strconv."+callee.Name()
				}
				if callee.Pkg().Path() == "fmt" {
					for _, a := range call.Args {
						if tv, ok := info.Types[a]; ok && tv.Value != nil && tv.Value.Kind() == constant.String && strings.Contains(constant.StringVal(tv.Value), "%q") {
							hit, why = call, "the %q verb"
						}
					}
				}
			}
			return true
		})
		if hit != nil {
			c.Add(rule, fb.Name, hit.Pos(), core.Violated, "MarshalJSON encodes a string with "+why+" (Go syntax): strings containing control characters or non-printable runes yield invalid JSON, so Some(v) no longer round-trips")
		} else {
			c.Add(rule, fb.Name, fb.Decl.Pos(), core.Discharged, "no Go-syntax quoting")
		}
	}
	c.Floor(rule, "MarshalJSON methods", n, 5)
}

// NextGuard: stateful hasNext ⇒ next re-establishes the look-ahead.
func NextGuard(c *core.Ctx, rule string, pkgs []*packages.Package) {
	c.Rule(rule, "at a MakeIterator site whose hasNext function writes look-ahead state (a captured variable or a receiver field, directly or through a local closure it calls), the next function calls that hasNext function — or a state-writing closure/method hasNext itself calls — so that Next without a preceding HasNext, and Next after exhaustion, see fresh state instead of a stale cached element")
	n := 0
	sites := makeIteratorSites(c, pkgs)
	for i, s := range sites {
		info := s.fb.Pkg.TypesInfo
		key := s.fb.Name + "/MakeIterator#" + itoa(siteOrdinal(sites, i))
		type fnRef struct {
			body *ast.BlockStmt
			obj  types.Object // variable / method object naming the function, if any
			recv types.Object
		}
		resolve := func(e ast.Expr) *fnRef {
			e = ast.Unparen(e)
			if fl, ok := e.(*ast.FuncLit); ok {
				return &fnRef{body: fl.Body}
			}
			if o := objOf(info, e); o != nil {
				if fl := resolveLit(info, s.fb.Decl, e); fl != nil {
					return &fnRef{body: fl.Body, obj: o}
				}
			}
			if sel, ok := e.(*ast.SelectorExpr); ok { // method value ret.hasNext
				if m, ok := info.Uses[sel.Sel].(*types.Func); ok {
					if fd := c.FuncDecl(m); fd != nil && fd.Body != nil {
						ref := &fnRef{body: fd.Body, obj: m.Origin()}
						if fd.Recv != nil && len(fd.Recv.List) == 1 && len(fd.Recv.List[0].Names) == 1 {
							if mp := c.ByPath[m.Pkg().Path()]; mp != nil {
								ref.recv = mp.TypesInfo.Defs[fd.Recv.List[0].Names[0]]
							}
						}
						return ref
					}
				}
			}
			return nil
		}
		h, nx := resolve(s.call.Args[0]), resolve(s.call.Args[1])
		if h == nil || nx == nil {
			c.Add(rule, key, s.call.Pos(), core.Skipped, "hasNext/next not resolvable to function bodies")
			continue
		}
		// state written by hasNext: assignments to objects declared outside its body, or to receiver fields;
		// plus local closures it calls
		writesState := func(body *ast.BlockStmt, recv types.Object, pinfo *types.Info) bool {
			return nodeContains(body, false, func(x ast.Node) bool {
				switch a := x.(type) {
				case *ast.AssignStmt:
					for _, l := range a.Lhs {
						l = ast.Unparen(l)
						if se, ok := l.(*ast.SelectorExpr); ok && recv != nil && objOf(pinfo, se.X) == recv {
							return true
						}
						if o := objOf(pinfo, l); o != nil && (o.Pos() < body.Pos() || o.Pos() > body.End()) {
							if _, isVar := o.(*types.Var); isVar {
								return true
							}
						}
					}
				case *ast.IncDecStmt:
					if o := objOf(pinfo, a.X); o != nil && (o.Pos() < body.Pos() || o.Pos() > body.End()) {
						return true
					}
				}
				return false
			})
		}
		hinfo := info
		if h.recv != nil {
			if m, ok := h.obj.(*types.Func); ok {
				hinfo = c.ByPath[m.Pkg().Path()].TypesInfo
			}
		}
		// helpers called by hasNext (local closures named by variables, methods on the same receiver)
		helpers := map[types.Object]bool{}
		stateful := writesState(h.body, h.recv, hinfo)
		ast.Inspect(h.body, func(x ast.Node) bool {
			call, ok := x.(*ast.CallExpr)
			if !ok {
				return true
			}
			if o := objOf(hinfo, call.Fun); o != nil {
				if fl := resolveLit(hinfo, s.fb.Decl, call.Fun); fl != nil && writesState(fl.Body, nil, hinfo) {
					helpers[o] = true
					stateful = true
				}
			}
			return true
		})
		// bound state: hasNext reads a captured variable that next writes (a counter, a flag), so its answer is more than
		// the source's HasNext. If next then guards its pull with the source's HasNext alone — neither calling hasNext
		// nor repeating its condition — the guard is weaker than hasNext: Next keeps delivering after HasNext said false.
		if !stateful && h.recv == nil && nx.recv == nil {
			written := map[types.Object]bool{}
			ast.Inspect(nx.body, func(x ast.Node) bool {
				switch a := x.(type) {
				case *ast.AssignStmt:
					for _, l := range a.Lhs {
						if o := objOf(info, l); o != nil && (o.Pos() < nx.body.Pos() || o.Pos() > nx.body.End()) {
							written[o] = true
						}
					}
				case *ast.IncDecStmt:
					if o := objOf(info, a.X); o != nil && (o.Pos() < nx.body.Pos() || o.Pos() > nx.body.End()) {
						written[o] = true
					}
				}
				return true
			})
			bound := len(written) > 0 && nodeContains(h.body, true, func(x ast.Node) bool {
				id, ok := x.(*ast.Ident)
				return ok && written[hinfo.Uses[id]]
			})
			if bound {
				callsH := nodeContains(nx.body, false, func(x ast.Node) bool {
					call, ok := x.(*ast.CallExpr)
					return ok && h.obj != nil && objOf(info, call.Fun) == h.obj
				})
				hCond := ""
				if len(h.body.List) == 1 {
					if r, ok := h.body.List[0].(*ast.ReturnStmt); ok && len(r.Results) == 1 {
						hCond = exprString(r.Results[0])
					}
				}
				var weak *ast.IfStmt
				repeats := false
				ast.Inspect(nx.body, func(x ast.Node) bool {
					is, ok := x.(*ast.IfStmt)
					if !ok {
						return true
					}
					if hCond != "" && exprString(is.Cond) == hCond {
						repeats = true
					}
					if call, ok := ast.Unparen(is.Cond).(*ast.CallExpr); ok && len(call.Args) == 0 {
						if sel, ok := ast.Unparen(call.Fun).(*ast.SelectorExpr); ok && sel.Sel.Name == "HasNext" {
							if tv, ok := info.Types[sel.X]; ok && cursorKind(tv.Type) != "" {
								weak = is
							}
						}
					}
					return true
				})
				if weak != nil && !callsH && !repeats {
					n++
					c.Add(rule, key, weak.Pos(), core.Violated, "hasNext also depends on state that next updates, but next guards its pull only with `"+exprString(weak.Cond)+"`: once hasNext reports false (the bound is reached) Next still returns — and consumes — the source's next element instead of panicking")
					continue
				}
			}
		}
		if !stateful {
			c.Add(rule, key, s.call.Pos(), core.Discharged, "hasNext keeps no look-ahead state")
			continue
		}
		n++
		ninfo := info
		if nx.recv != nil {
			if m, ok := nx.obj.(*types.Func); ok {
				ninfo = c.ByPath[m.Pkg().Path()].TypesInfo
			}
		}
		// a refill call that is the right operand of || is skipped whenever the left operand holds
		skipped := map[ast.Node]bool{}
		ast.Inspect(nx.body, func(x ast.Node) bool {
			if be, ok := x.(*ast.BinaryExpr); ok && be.Op == token.LOR {
				ast.Inspect(be.Y, func(y ast.Node) bool {
					if call, ok := y.(*ast.CallExpr); ok {
						skipped[call] = true
					}
					return true
				})
			}
			return true
		})
		sawSkipped := false
		callsRefill := nodeContains(nx.body, false, func(x ast.Node) bool {
			call, ok := x.(*ast.CallExpr)
			if !ok {
				return false
			}
			if skipped[call] {
				o := objOf(ninfo, call.Fun)
				if o != nil && ((h.obj != nil && o == h.obj) || helpers[o]) {
					sawSkipped = true
				}
				return false
			}
			o := objOf(ninfo, call.Fun)
			if sel, ok := ast.Unparen(call.Fun).(*ast.SelectorExpr); ok {
				if m, ok := ninfo.Uses[sel.Sel].(*types.Func); ok {
					o = m.Origin()
				}
			}
			if o == nil {
				return false
			}
			return (h.obj != nil && o == h.obj) || helpers[o]
		})
		if callsRefill {
			c.Add(rule, key, s.call.Pos(), core.Discharged, "next re-establishes the look-ahead through hasNext / its refill helper")
		} else if sawSkipped {
			c.Add(rule, key, s.call.Pos(), core.Violated, "next calls hasNext only as the right operand of ||: whenever the left operand holds the look-ahead is not re-established, and the element is taken from stale state (an exhausted inner cursor panics, or an element is delivered twice) when Next is not preceded by HasNext")
		} else {
			c.Add(rule, key, s.call.Pos(), core.Violated, "hasNext fills look-ahead state but next neither calls it nor its refill helper: a Next that is not immediately preceded by HasNext (or that follows exhaustion) returns a stale cached element instead of the next one / instead of panicking")
		}
	}
	c.Floor(rule, "MakeIterator sites with a stateful hasNext", n, 4)
}
