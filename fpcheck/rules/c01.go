package rules

import (
	"go/ast"
	"go/types"

	"fpcheck/core"

	"golang.org/x/tools/go/packages"
)

func init() {
	register("C01", "well-foundedness and relevance of the derived monad combinators", func(c *core.Ctx) {
		Strat(c, "R-STRAT")
		Stale(c, "R-STALE", []*packages.Package{c.Pkg("fp"), c.Pkg("statet")}, 25, 15)
		Rerunnable(c, "R-RERUNNABLE", []*packages.Package{c.Pkg("fp"), c.Pkg("statet")}, 25)
		Unit(c, "R-UNIT", 8)
		ArgOrder(c, "R-ARGORDER", append(monadPackages(c), c.Pkg("lazy"), c.Pkg("future"), c.Pkg("iterator"), c.Pkg("seq"), c.Pkg("list")))
		NextGuard(c, "R-NEXTGUARD", []*packages.Package{c.Pkg("iterator"), c.Pkg("fp")})
		TemplateCopies(c, "R-COPIES", monadPackages(c), 100)
		// the Applicative/Chain builders return what their FlatMap definition returns: the first failing operand in
		// left-to-right order decides (effect-order summaries, shared with C02)
		EffOrder(c, "R-EFFORDER", []*packages.Package{c.Pkg("option"), c.Pkg("try"), c.Pkg("either"), c.Pkg("future"), c.Pkg("statet")})
		Rel(c, "R-REL", monadPackages(c), func(p *packages.Package, fd *ast.FuncDecl, fn *types.Func) bool { return true }, nil, 400)
	})
}
