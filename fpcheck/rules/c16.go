package rules

// C16 — lazy.Eval: run-once memoisation, trampoline shape, tail calls deferred.

import (
	"go/ast"
	"go/token"
	"go/types"
	"sort"

	"fpcheck/core"

	"golang.org/x/tools/go/packages"
)

func init() {
	register("C16", "memoisation through sync.Once, non-recursive trampoline, deferred tail calls, zero Eval guarded", func(c *core.Ctx) {
		NilGuard(c, "R-NILGUARD", func(t *types.Named) bool { return isNamed(t, "lazy", "Eval") })
		Memo(c, "R-MEMO")
		Tramp(c, "R-TRAMP")
		NoSharedCell(c, "R-NOSHAREDCELL", c.Pkg("lazy"), 15)
		UserOncePerCell(c, "R-USERONCE", []*packages.Package{c.Pkg("list"), c.Pkg("fp")})
		Tail(c, "R-TAIL", []*packages.Package{c.Pkg("seq"), c.Pkg("list"), c.Pkg("iterator"), c.Pkg("option"), c.Pkg("try"), c.Pkg("either")})
	})
}

func isThunkType(t types.Type) bool {
	sig, ok := t.Underlying().(*types.Signature)
	return ok && sig.Params().Len() == 0 && sig.Results().Len() == 1
}

// memoizer: creates a local sync.Once and returns a closure that runs the thunk inside once.Do.
func memoizerCheck(c *core.Ctx, p *packages.Package, fd *ast.FuncDecl) (isMemo bool, problems []string) {
	info := p.TypesInfo
	var once types.Object
	ast.Inspect(fd.Body, func(x ast.Node) bool {
		switch s := x.(type) {
		case *ast.AssignStmt:
			for i, l := range s.Lhs {
				if o := objOf(info, l); o != nil && i < len(s.Rhs) {
					if nt := namedOf(o.Type()); nt != nil && nt.Obj().Pkg() != nil && nt.Obj().Pkg().Path() == "sync" && nt.Obj().Name() == "Once" {
						once = o
					}
				}
			}
		case *ast.ValueSpec:
			for _, nm := range s.Names {
				if o := info.Defs[nm]; o != nil {
					if nt := namedOf(o.Type()); nt != nil && nt.Obj().Pkg() != nil && nt.Obj().Pkg().Path() == "sync" && nt.Obj().Name() == "Once" {
						once = o
					}
				}
			}
		}
		return true
	})
	if once == nil {
		return memoCellCheck(c, p, fd)
	}
	var thunk types.Object
	for _, fl := range fd.Type.Params.List {
		for _, nm := range fl.Names {
			if o := info.Defs[nm]; o != nil && isThunkType(o.Type()) {
				thunk = o
			}
		}
	}
	if thunk == nil {
		return false, nil
	}
	// the returned literal
	var retLit *ast.FuncLit
	for _, st := range fd.Body.List {
		if r, ok := st.(*ast.ReturnStmt); ok && len(r.Results) == 1 {
			retLit, _ = ast.Unparen(r.Results[0]).(*ast.FuncLit)
		}
	}
	if retLit == nil {
		return true, []string{"does not return a function literal"}
	}
	// once.Do(lit) inside retLit
	var doLit *ast.FuncLit
	var doCall *ast.CallExpr
	ast.Inspect(retLit.Body, func(x ast.Node) bool {
		if call, ok := x.(*ast.CallExpr); ok {
			if sel, ok := ast.Unparen(call.Fun).(*ast.SelectorExpr); ok && sel.Sel.Name == "Do" && objOf(info, sel.X) == once && len(call.Args) == 1 {
				doCall = call
				doLit, _ = ast.Unparen(call.Args[0]).(*ast.FuncLit)
				if doLit == nil {
					// once.Do(compute) with `compute := func() { … }` bound once in the memoiser
					doLit = resolveLit(info, fd, call.Args[0])
				}
			}
		}
		return true
	})
	if doCall == nil || doLit == nil {
		return true, []string{"the returned closure does not run the computation through once.Do(func(){…}) on the sync.Once created per memoised value"}
	}
	// thunk referenced exactly once, inside doLit
	refs, inside := 0, 0
	ast.Inspect(fd.Body, func(x ast.Node) bool {
		if id, ok := x.(*ast.Ident); ok && info.Uses[id] == thunk {
			refs++
			if id.Pos() >= doLit.Pos() && id.End() <= doLit.End() {
				inside++
			}
		}
		return true
	})
	// the thunk is called exactly once, and every mention of it (the call, a `f = nil` that releases it after the run)
	// lies inside what once.Do runs
	calls := 0
	ast.Inspect(doLit, func(x ast.Node) bool {
		if call, ok := x.(*ast.CallExpr); ok && objOf(info, call.Fun) == thunk {
			calls++
		}
		return true
	})
	if refs != inside || calls != 1 {
		problems = append(problems, "the computation "+thunk.Name()+" is referenced "+itoa(refs)+" time(s), "+itoa(inside)+" of them inside once.Do: there is a path that runs it outside the once guard (or never)")
	}
	// once.Do must be the first statement of the returned closure (the cached cell is read only afterwards)
	first := false
	if len(retLit.Body.List) > 0 {
		if es, ok := retLit.Body.List[0].(*ast.ExprStmt); ok && ast.Unparen(es.X) == doCall {
			first = true
		}
	}
	if !first {
		problems = append(problems, "once.Do is not the first statement of the returned closure: the cached value can be read before it is computed")
	}
	// the Once must be created outside the returned closure (one per memoised value, not one per call)
	if once.Pos() >= retLit.Pos() && once.Pos() <= retLit.End() {
		problems = append(problems, "the sync.Once is created inside the returned closure: every call gets a fresh Once and re-runs the computation")
	}
	return true, problems
}

func Memo(c *core.Ctx, rule string) {
	c.Rule(rule, "memoisers (a function creating a sync.Once and returning a closure) reference the computation exactly once, inside the literal given to once.Do, which is the first statement of the returned closure, with the Once created outside it; every constructor of package lazy / fp.MakeList that takes a thunk and returns an Eval/List references the thunk exactly once, as the argument of a memoiser")
	memoizers := map[*types.Func]bool{}
	n := 0
	for _, rel := range []string{"lazy", "fp"} {
		p := c.Pkg(rel)
		for _, f := range p.Syntax {
			for _, d := range f.Decls {
				fd, ok := d.(*ast.FuncDecl)
				if !ok || fd.Body == nil || fd.Recv != nil {
					continue
				}
				isMemo, problems := memoizerCheck(c, p, fd)
				if !isMemo {
					continue
				}
				n++
				fn, _ := p.TypesInfo.Defs[fd.Name].(*types.Func)
				memoizers[fn] = true
				name := c.FuncName(p, fd)
				if len(problems) == 0 {
					c.Add(rule, name, fd.Pos(), core.Discharged, "runs the computation only inside once.Do")
				}
				for i, pr := range problems {
					c.Add(rule, name+"/"+itoa(i+1), fd.Pos(), core.Violated, name+": "+pr)
				}
			}
		}
	}
	c.Floor(rule, "memoisers", n, 2)
	// constructors taking a thunk
	nc := 0
	for _, rel := range []string{"lazy", "fp"} {
		p := c.Pkg(rel)
		info := p.TypesInfo
		for _, f := range p.Syntax {
			for _, d := range f.Decls {
				fd, ok := d.(*ast.FuncDecl)
				if !ok || fd.Body == nil || fd.Recv != nil {
					continue
				}
				fn, _ := info.Defs[fd.Name].(*types.Func)
				if fn == nil || memoizers[fn] {
					continue
				}
				sig := fn.Type().(*types.Signature)
				lazyRes := false
				for i := 0; i < sig.Results().Len(); i++ {
					if isNamed(sig.Results().At(i).Type(), "lazy", "Eval") || isNamed(sig.Results().At(i).Type(), "fp", "List") {
						lazyRes = true
					}
				}
				if !lazyRes {
					continue
				}
				for _, fl := range fd.Type.Params.List {
					for _, nm := range fl.Names {
						o := info.Defs[nm]
						if o == nil || !isThunkType(o.Type()) {
							continue
						}
						nc++
						name := c.FuncName(p, fd) + "#" + nm.Name
						refs, memo := 0, 0
						ast.Inspect(fd.Body, func(x ast.Node) bool {
							if id, ok := x.(*ast.Ident); ok && info.Uses[id] == o {
								refs++
							}
							if call, ok := x.(*ast.CallExpr); ok && len(call.Args) == 1 && objOf(info, call.Args[0]) == o {
								if callee := calleeOf(info, call); callee != nil && memoizers[callee] {
									memo++
								}
							}
							return true
						})
						if refs == 1 && memo == 1 {
							c.Add(rule, name, nm.Pos(), core.Discharged, "thunk handed to a memoiser and referenced nowhere else")
						} else {
							c.Add(rule, name, nm.Pos(), core.Violated, "deferred computation "+nm.Name+" is referenced "+itoa(refs)+" time(s), "+itoa(memo)+" of them as the argument of a sync.Once memoiser: it can run more than once (or unmemoised)")
						}
					}
				}
			}
		}
	}
	c.Floor(rule, "thunk-taking lazy constructors", nc, 3)
}

func Tramp(c *core.Ctx, rule string) {
	c.Rule(rule, "package lazy: the interpreter (Run, Resume, Get and the unexported functions only they reach) never calls Run/Get statically (it loops, it does not recurse), and Run contains the loop that drives the continuations (a call of Resume, or of a function-typed field of Eval, inside a for statement); every other function — the ones that build an Eval — calls no function-typed value outside function literals")
	p := c.Pkg("lazy")
	info := p.TypesInfo
	decls := map[*types.Func]*ast.FuncDecl{}
	for _, f := range p.Syntax {
		for _, d := range f.Decls {
			if fd, ok := d.(*ast.FuncDecl); ok && fd.Body != nil {
				if fn, ok := info.Defs[fd.Name].(*types.Func); ok {
					decls[fn] = fd
				}
			}
		}
	}
	// interpreter = Run, Resume, Get + unexported functions/methods reachable from them by static calls (outside literals)
	interp := map[*types.Func]bool{}
	var reach func(fn *types.Func)
	reach = func(fn *types.Func) {
		if interp[fn] {
			return
		}
		interp[fn] = true
		fd := decls[fn]
		if fd == nil {
			return
		}
		inspectShallow(fd.Body, func(x ast.Node) bool {
			if call, ok := x.(*ast.CallExpr); ok {
				if callee := calleeOf(info, call); callee != nil && callee.Pkg() == p.Types {
					if o := callee.Origin(); decls[o] != nil && !token.IsExported(o.Name()) {
						reach(o)
					}
				}
			}
			return true
		})
	}
	for fn := range decls {
		switch fn.Name() {
		case "Run", "Resume", "Get":
			reach(fn)
		}
	}
	callsFuncValue := func(body ast.Node) *ast.CallExpr {
		var hit *ast.CallExpr
		inspectShallow(body, func(x ast.Node) bool {
			call, ok := x.(*ast.CallExpr)
			if !ok || hit != nil {
				return true
			}
			fun := ast.Unparen(call.Fun)
			if o, ok := objOf(info, fun).(*types.Var); ok {
				if _, isFn := o.Type().Underlying().(*types.Signature); isFn {
					hit = call
				}
			}
			if sel, ok := fun.(*ast.SelectorExpr); ok {
				if s := info.Selections[sel]; s != nil && s.Kind() == types.FieldVal {
					if _, isFn := s.Type().Underlying().(*types.Signature); isFn {
						hit = call
					}
				}
			}
			return true
		})
		return hit
	}
	n := 0
	var fns []*types.Func
	for fn := range decls {
		fns = append(fns, fn)
	}
	sort.Slice(fns, func(i, j int) bool { return decls[fns[i]].Pos() < decls[fns[j]].Pos() })
	for _, fn := range fns {
		fd := decls[fn]
		name := c.FuncName(p, fd)
		base := fd.Name.Name
		n++
		if interp[fn] {
			bad := nodeContains(fd.Body, true, func(x ast.Node) bool {
				call, ok := x.(*ast.CallExpr)
				if !ok {
					return false
				}
				callee := calleeOf(info, call)
				return callee != nil && callee.Pkg() == p.Types && (callee.Name() == "Run" || callee.Name() == "Get") && !(base == "Get" && callee.Name() == "Run")
			})
			if bad {
				c.Add(rule, name+"/no-recursion", fd.Pos(), core.Violated, name+" calls Run/Get: the evaluator recurses on the Go stack instead of looping (stack depth grows with the program)")
			} else {
				c.Add(rule, name+"/no-recursion", fd.Pos(), core.Discharged, "no static call back into the evaluator")
			}
			if base == "Run" {
				loop := nodeContains(fd.Body, false, func(x ast.Node) bool {
					fs, ok := x.(*ast.ForStmt)
					if !ok {
						return false
					}
					return nodeContains(fs, false, func(y ast.Node) bool {
						call, ok := y.(*ast.CallExpr)
						if !ok {
							return false
						}
						sel, ok := ast.Unparen(call.Fun).(*ast.SelectorExpr)
						if !ok {
							return false
						}
						if sel.Sel.Name == "Resume" {
							return true
						}
						// a continuation field of the Eval called in the loop: the bounce done in place
						if s := info.Selections[sel]; s != nil && s.Kind() == types.FieldVal {
							if _, isFn := s.Type().Underlying().(*types.Signature); isFn {
								if tv, ok := info.Types[sel.X]; ok && isNamed(tv.Type, "lazy", "Eval") {
									return true
								}
							}
						}
						return false
					})
				})
				if loop {
					c.Add(rule, name+"/loop", fd.Pos(), core.Discharged, "drives the continuations in a loop")
				} else {
					c.Add(rule, name+"/loop", fd.Pos(), core.Violated, "Run does not loop on Resume (or on the continuation field): continuations are not driven to completion iteratively")
				}
			}
			continue
		}
		// an unexported method referred to only as a method value (firstFunc: d.placeholder, getNextFunc: d.resume) is a
		// continuation like a literal: it runs when the trampoline calls it, not while the Eval is built
		if fd.Recv != nil && !ast.IsExported(fd.Name.Name) {
			refs, called := 0, 0
			for _, f := range p.Syntax {
				ast.Inspect(f, func(x ast.Node) bool {
					switch s := x.(type) {
					case *ast.CallExpr:
						if se, ok := ast.Unparen(s.Fun).(*ast.SelectorExpr); ok {
							if m, ok := info.Uses[se.Sel].(*types.Func); ok && m.Origin() == fn.Origin() {
								called++
							}
						}
					case *ast.SelectorExpr:
						if m, ok := info.Uses[s.Sel].(*types.Func); ok && m.Origin() == fn.Origin() {
							refs++
						}
					}
					return true
				})
			}
			if refs > 0 && called == 0 {
				c.Add(rule, name+"/eager-call", fd.Pos(), core.Skipped, "used only as a method value: a continuation, run by the trampoline")
				continue
			}
		}
		if hit := callsFuncValue(fd.Body); hit != nil {
			c.Add(rule, name+"/eager-call", hit.Pos(), core.Violated, name+" runs `"+exprString(hit)+"` while building the Eval: the computation is not deferred to the trampoline (evaluated eagerly / on the caller's stack)")
		} else {
			c.Add(rule, name+"/eager-call", fd.Pos(), core.Discharged, "only allocates")
		}
	}
	c.Floor(rule, "functions of package lazy", n, 15)
}

// Tail: FoldRight-style functions returning lazy.Eval wrap their self call in lazy.TailCall.
func Tail(c *core.Ctx, rule string, pkgs []*packages.Package) {
	c.Rule(rule, "a function returning lazy.Eval that refers to itself does so only inside a function literal that is an argument of lazy.TailCall/TailCallN/Call (the recursion is handed to the trampoline)")
	n := 0
	for _, p := range pkgs {
		info := p.TypesInfo
		for _, f := range p.Syntax {
			for _, d := range f.Decls {
				fd, ok := d.(*ast.FuncDecl)
				if !ok || fd.Body == nil {
					continue
				}
				fn, _ := info.Defs[fd.Name].(*types.Func)
				if fn == nil {
					continue
				}
				sig := fn.Type().(*types.Signature)
				if sig.Results().Len() != 1 || !isNamed(sig.Results().At(0).Type(), "lazy", "Eval") {
					continue
				}
				// literals that are arguments of lazy.TailCall*/Call
				deferredLits := map[*ast.FuncLit]bool{}
				deferredSelf := map[*ast.Ident]bool{}
				ast.Inspect(fd.Body, func(x ast.Node) bool {
					if call, ok := x.(*ast.CallExpr); ok {
						if callee := calleeOf(info, call); callee != nil && callee.Pkg() != nil && callee.Pkg().Path() == core.ModPath+"/lazy" {
							for _, a := range call.Args {
								if fl, ok := ast.Unparen(a).(*ast.FuncLit); ok {
									deferredLits[fl] = true
								}
								// the function itself handed over as a value: lazy.TailCall3(FoldRight[A, B], tail, zero, f)
								fv := ast.Unparen(a)
								switch ix := fv.(type) {
								case *ast.IndexExpr:
									fv = ix.X
								case *ast.IndexListExpr:
									fv = ix.X
								}
								if id, ok := fv.(*ast.Ident); ok {
									deferredSelf[id] = true
								}
								if se, ok := fv.(*ast.SelectorExpr); ok {
									deferredSelf[se.Sel] = true
								}
							}
						}
					}
					return true
				})
				self, bad := 0, 0
				var walk func(n ast.Node, deferred bool)
				walk = func(nd ast.Node, deferred bool) {
					ast.Inspect(nd, func(x ast.Node) bool {
						if x == nil {
							return false
						}
						if fl, ok := x.(*ast.FuncLit); ok {
							walk(fl.Body, deferred || deferredLits[fl])
							return false
						}
						if id, ok := x.(*ast.Ident); ok {
							if o, ok := info.Uses[id].(*types.Func); ok && o.Origin() == fn {
								self++
								if !deferred && !deferredSelf[id] {
									bad++
								}
							}
						}
						return true
					})
				}
				walk(fd.Body, false)
				if self == 0 {
					continue
				}
				n++
				name := c.FuncName(p, fd)
				// forcing the recursive result (self(...).Get(), lazy.Run(self(...))) starts a nested trampoline per level
				var forced ast.Node
				isSelf := func(e ast.Node) bool {
					return nodeContains(e, true, func(y ast.Node) bool {
						id, ok := y.(*ast.Ident)
						if !ok {
							return false
						}
						o, ok := info.Uses[id].(*types.Func)
						return ok && o.Origin() == fn
					})
				}
				ast.Inspect(fd.Body, func(x ast.Node) bool {
					call, ok := x.(*ast.CallExpr)
					if !ok {
						return true
					}
					if sel, ok := ast.Unparen(call.Fun).(*ast.SelectorExpr); ok && sel.Sel.Name == "Get" && len(call.Args) == 0 {
						if tv, ok := info.Types[sel.X]; ok && isNamed(tv.Type, "lazy", "Eval") {
							if _, isCall := ast.Unparen(sel.X).(*ast.CallExpr); isCall && isSelf(sel.X) {
								forced = call
							}
						}
					}
					if callee := calleeOf(info, call); callee != nil && funcIs(callee, "lazy", "Run") && len(call.Args) == 1 && isSelf(call.Args[0]) {
						forced = call
					}
					return true
				})
				if forced != nil {
					c.Add(rule, name+"/force", forced.Pos(), core.Violated, name+" forces its own recursive result (`"+exprString(forced.(*ast.CallExpr))+"`): every level starts a nested trampoline on the Go stack, so stack depth grows with the length of the input")
				} else {
					c.Add(rule, name+"/force", fd.Pos(), core.Discharged, "recursive result is returned to the trampoline, never forced")
				}
				if bad > 0 {
					c.Add(rule, name, fd.Pos(), core.Violated, name+" calls itself outside a literal handed to lazy.TailCall/Call: the fold recurses on the Go stack (depth = length of the input)")
				} else {
					c.Add(rule, name, fd.Pos(), core.Discharged, "self call deferred through lazy.TailCall")
				}
			}
		}
	}
	c.Floor(rule, "self-referential Eval-returning functions", n, 3)
}

// memoCellCheck recognises the struct form of a memoiser:
//
//	type cell struct { once sync.Once; f func() T; ret T }
//	func (r *cell) compute() { r.ret = r.f() }
//	func (r *cell) get() T  { r.once.Do(r.compute); return r.ret }
//	func Memoize(f func() T) func() T { c := &cell{f: f}; return c.get }
//
// The cell is allocated per memoised value, the returned method runs once.Do first, and the thunk field is called only
// from what once.Do runs.
func memoCellCheck(c *core.Ctx, p *packages.Package, fd *ast.FuncDecl) (bool, []string) {
	info := p.TypesInfo
	var thunk types.Object
	for _, fl := range fd.Type.Params.List {
		for _, nm := range fl.Names {
			if o := info.Defs[nm]; o != nil && isThunkType(o.Type()) {
				thunk = o
			}
		}
	}
	if thunk == nil {
		return false, nil
	}
	// composite literal of a struct with a sync.Once field and a field initialised with the thunk
	var cellT *types.Named
	thunkField, onceField := "", ""
	ast.Inspect(fd.Body, func(x ast.Node) bool {
		cl, ok := x.(*ast.CompositeLit)
		if !ok {
			return true
		}
		tv, ok := info.Types[cl]
		if !ok {
			return true
		}
		nt := namedOf(tv.Type)
		if nt == nil {
			return true
		}
		st, ok := nt.Underlying().(*types.Struct)
		if !ok {
			return true
		}
		of := ""
		for i := 0; i < st.NumFields(); i++ {
			if ft := namedOf(st.Field(i).Type()); ft != nil && ft.Obj().Pkg() != nil && ft.Obj().Pkg().Path() == "sync" && ft.Obj().Name() == "Once" {
				of = st.Field(i).Name()
			}
		}
		if of == "" {
			return true
		}
		for _, e := range cl.Elts {
			if kv, ok := e.(*ast.KeyValueExpr); ok {
				if objOf(info, kv.Value) == thunk {
					if id, ok := kv.Key.(*ast.Ident); ok {
						cellT, thunkField, onceField = nt, id.Name, of
					}
				}
			}
		}
		return true
	})
	if cellT == nil {
		return false, nil
	}
	var problems []string
	// thunk itself referenced exactly once (in the literal)
	refs := 0
	ast.Inspect(fd.Body, func(x ast.Node) bool {
		if id, ok := x.(*ast.Ident); ok && info.Uses[id] == thunk {
			refs++
		}
		return true
	})
	if refs != 1 {
		problems = append(problems, "the computation "+thunk.Name()+" is referenced "+itoa(refs)+" time(s) outside the memo cell")
	}
	// returned method value
	var getName string
	for _, st := range fd.Body.List {
		if r, ok := st.(*ast.ReturnStmt); ok && len(r.Results) == 1 {
			if sel, ok := ast.Unparen(r.Results[0]).(*ast.SelectorExpr); ok {
				if s := info.Selections[sel]; s != nil && s.Kind() == types.MethodVal {
					getName = sel.Sel.Name
				}
			}
		}
	}
	if getName == "" {
		return true, append(problems, "does not return a method value of the memo cell")
	}
	// methods of the cell type
	methods := map[string]*ast.FuncDecl{}
	for _, f := range p.Syntax {
		for _, d := range f.Decls {
			md, ok := d.(*ast.FuncDecl)
			if ok && md.Recv != nil && md.Body != nil && core.RecvTypeName(md.Recv.List[0].Type) == cellT.Obj().Name() {
				methods[md.Name.Name] = md
			}
		}
	}
	get := methods[getName]
	if get == nil || len(get.Recv.List[0].Names) != 1 {
		return true, append(problems, "the returned method is not declared on the memo cell")
	}
	if _, isPtr := ast.Unparen(get.Recv.List[0].Type).(*ast.StarExpr); !isPtr {
		problems = append(problems, "the returned method has a value receiver: every call copies the sync.Once and re-runs the computation")
	}
	rname := get.Recv.List[0].Names[0].Name
	// first statement: r.once.Do(X)
	var doArg ast.Expr
	if len(get.Body.List) > 0 {
		if es, ok := get.Body.List[0].(*ast.ExprStmt); ok {
			if call, ok := ast.Unparen(es.X).(*ast.CallExpr); ok && len(call.Args) == 1 {
				if sel, ok := ast.Unparen(call.Fun).(*ast.SelectorExpr); ok && sel.Sel.Name == "Do" {
					if inner, ok := ast.Unparen(sel.X).(*ast.SelectorExpr); ok && inner.Sel.Name == onceField {
						if id, ok := ast.Unparen(inner.X).(*ast.Ident); ok && id.Name == rname {
							doArg = call.Args[0]
						}
					}
				}
			}
		}
	}
	if doArg == nil {
		return true, append(problems, "the returned method does not start with "+rname+"."+onceField+".Do(…): the cached value can be read before it is computed, or the computation is not guarded")
	}
	// what once.Do runs: a literal or a method value of the cell
	var runBody *ast.BlockStmt
	runName := ""
	if fl, ok := ast.Unparen(doArg).(*ast.FuncLit); ok {
		runBody = fl.Body
	} else if sel, ok := ast.Unparen(doArg).(*ast.SelectorExpr); ok {
		if md := methods[sel.Sel.Name]; md != nil {
			runBody, runName = md.Body, sel.Sel.Name
		}
	}
	if runBody == nil {
		return true, append(problems, "once.Do is not handed a literal or a method of the memo cell")
	}
	callsThunk := func(body ast.Node) int {
		k := 0
		ast.Inspect(body, func(x ast.Node) bool {
			if sel, ok := x.(*ast.SelectorExpr); ok && sel.Sel.Name == thunkField {
				if tv, ok := info.Types[sel.X]; ok {
					t := tv.Type
					if pt, ok := t.(*types.Pointer); ok {
						t = pt.Elem()
					}
					if nt := namedOf(t); nt != nil && nt.Obj() == cellT.Obj() {
						k++
					}
				}
			}
			return true
		})
		return k
	}
	if callsThunk(runBody) != 1 {
		problems = append(problems, "what once.Do runs does not call the stored computation exactly once")
	}
	for name, md := range methods {
		if name == runName {
			continue
		}
		body := ast.Node(md.Body)
		if name == getName && runName == "" {
			continue // the literal lives inside get
		}
		if callsThunk(body) > 0 {
			problems = append(problems, "the stored computation is also used in "+cellT.Obj().Name()+"."+name+", outside the once guard")
		}
	}
	return true, problems
}
