package rules

import (
	"go/ast"
	"go/token"
	"go/types"
	"strings"

	"fpcheck/core"

	"golang.org/x/tools/go/cfg"
	"golang.org/x/tools/go/packages"
	"golang.org/x/tools/go/types/typeutil"
)

// fnBody is one function body: a declaration or a literal inside one.
type fnBody struct {
	Pkg  *packages.Package
	File *ast.File
	Decl *ast.FuncDecl // enclosing declaration (nil for package-level var initialisers)
	Lit  *ast.FuncLit  // nil for the declaration itself
	Name string        // pkg.Recv.Func or pkg.Recv.Func$k
	Type *ast.FuncType
	Body *ast.BlockStmt
}

func (b *fnBody) Pos() token.Pos {
	if b.Lit != nil {
		return b.Lit.Pos()
	}
	return b.Decl.Pos()
}

// modulePkgs returns the library packages matching the relative paths (all non-test packages if none given).
func modulePkgs(c *core.Ctx, rels ...string) []*packages.Package {
	if len(rels) == 0 {
		return c.Pkgs
	}
	var out []*packages.Package
	for _, r := range rels {
		if p := c.Pkg(r); p != nil {
			out = append(out, p)
		}
	}
	return out
}

func isGenerated(f *ast.File) bool {
	for _, cg := range f.Comments {
		if cg.Pos() > f.Package {
			break
		}
		for _, cm := range cg.List {
			if strings.HasPrefix(cm.Text, "// Code generated") && strings.Contains(cm.Text, "DO NOT EDIT") {
				return true
			}
		}
	}
	return false
}

// funcBodies enumerates declarations and (nested) literals of the packages.
func funcBodies(c *core.Ctx, pkgs []*packages.Package) []*fnBody {
	var out []*fnBody
	for _, p := range pkgs {
		for _, f := range p.Syntax {
			for _, d := range f.Decls {
				fd, ok := d.(*ast.FuncDecl)
				if !ok || fd.Body == nil {
					continue
				}
				name := c.FuncName(p, fd)
				out = append(out, &fnBody{Pkg: p, File: f, Decl: fd, Name: name, Type: fd.Type, Body: fd.Body})
				k := 0
				ast.Inspect(fd.Body, func(n ast.Node) bool {
					if fl, ok := n.(*ast.FuncLit); ok {
						k++
						out = append(out, &fnBody{Pkg: p, File: f, Decl: fd, Lit: fl, Name: name + "$" + itoa(k), Type: fl.Type, Body: fl.Body})
					}
					return true
				})
			}
		}
	}
	return out
}

func itoa(i int) string {
	if i == 0 {
		return "0"
	}
	s := ""
	for i > 0 {
		s = string(rune('0'+i%10)) + s
		i /= 10
	}
	return s
}

// inspectShallow walks n but does not descend into nested function literals.
func inspectShallow(n ast.Node, f func(ast.Node) bool) {
	ast.Inspect(n, func(x ast.Node) bool {
		if x == nil {
			return false
		}
		if _, ok := x.(*ast.FuncLit); ok && x != n {
			return false
		}
		return f(x)
	})
}

// calleeOf resolves the called function/method object (generic origin) of a call expression.
func calleeOf(info *types.Info, call *ast.CallExpr) *types.Func {
	if fn, ok := typeutil.Callee(info, call).(*types.Func); ok && fn != nil {
		return fn.Origin()
	}
	return nil
}

func isBuiltinCall(info *types.Info, call *ast.CallExpr, name string) bool {
	id, ok := ast.Unparen(call.Fun).(*ast.Ident)
	if !ok || id.Name != name {
		return false
	}
	_, ok = info.Uses[id].(*types.Builtin)
	return ok
}

// funcIs reports whether fn is the module function pkgRel.name (methods: name = "Type.Method").
func funcIs(fn *types.Func, pkgRel, name string) bool {
	if fn == nil || fn.Pkg() == nil {
		return false
	}
	want := core.ModPath
	if pkgRel != "" && pkgRel != "fp" {
		want += "/" + pkgRel
	}
	if fn.Pkg().Path() != want {
		return false
	}
	return funcQualName(fn) == name
}

// funcQualName returns "Func" or "Recv.Method".
func funcQualName(fn *types.Func) string {
	sig, _ := fn.Type().(*types.Signature)
	if sig != nil && sig.Recv() != nil {
		return typeBaseName(sig.Recv().Type()) + "." + fn.Name()
	}
	return fn.Name()
}

// funcFullName returns "pkg.Func" / "pkg.Recv.Method" with the short package path.
func funcFullName(fn *types.Func) string {
	if fn.Pkg() == nil {
		return funcQualName(fn)
	}
	return core.ShortPkg(fn.Pkg().Path()) + "." + funcQualName(fn)
}

// noReturnCall: panic(...) and calls of module functions whose body is a lone panic.
func mayReturn(c *core.Ctx, info *types.Info) func(*ast.CallExpr) bool {
	return func(call *ast.CallExpr) bool {
		if isBuiltinCall(info, call, "panic") {
			return false
		}
		if fn := calleeOf(info, call); fn != nil {
			if fd := c.FuncDecl(fn); fd != nil && fd.Body != nil && len(fd.Body.List) == 1 {
				if es, ok := fd.Body.List[0].(*ast.ExprStmt); ok {
					if cl, ok := es.X.(*ast.CallExpr); ok {
						if id, ok := cl.Fun.(*ast.Ident); ok && id.Name == "panic" {
							return false
						}
					}
				}
			}
			if fn.Pkg() != nil && (fn.Pkg().Path() == "log" && strings.HasPrefix(fn.Name(), "Fatal") || fn.Pkg().Path() == "os" && fn.Name() == "Exit") {
				return false
			}
		}
		return true
	}
}

func newCFG(c *core.Ctx, b *fnBody) *cfg.CFG {
	return cfg.New(b.Body, mayReturn(c, b.Pkg.TypesInfo))
}

// objOf returns the object an identifier expression denotes.
func objOf(info *types.Info, e ast.Expr) types.Object {
	if id, ok := ast.Unparen(e).(*ast.Ident); ok {
		if o := info.Uses[id]; o != nil {
			return o
		}
		return info.Defs[id]
	}
	return nil
}

// nodeContains reports whether pred holds for some sub-node of n (not descending into literals unless deep).
func nodeContains(n ast.Node, deep bool, pred func(ast.Node) bool) bool {
	found := false
	ast.Inspect(n, func(x ast.Node) bool {
		if found || x == nil {
			return false
		}
		if !deep {
			if _, ok := x.(*ast.FuncLit); ok && x != n {
				return false
			}
		}
		if pred(x) {
			found = true
			return false
		}
		return true
	})
	return found
}

func exprString(e ast.Expr) string { return types.ExprString(e) }

// libPkgs: the library proper — everything except generator tooling, cmd and test fixtures.
func libPkgs(c *core.Ctx) []*packages.Package {
	var out []*packages.Package
	for _, p := range c.Pkgs {
		rel := core.ShortPkg(p.PkgPath)
		if strings.HasPrefix(rel, "test") || strings.HasPrefix(rel, "cmd/") || strings.HasPrefix(rel, "internal/generator") ||
			rel == "metafp" || strings.HasPrefix(rel, "genfp") || strings.HasPrefix(rel, "docs") {
			continue
		}
		out = append(out, p)
	}
	return out
}
