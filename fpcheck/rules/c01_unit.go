package rules

// R-UNIT (C01) — the unit of a monad is parametric in its argument.
//
// Left identity FlatMap(unit(a), f) = f(a) and right identity FlatMap(m, unit) = m quantify over every a, including
// nil pointers, nil slices, nil maps and nil interfaces. A generic function func unit[T any](v T) M[T] can only
// treat some values differently from others by converting v to an interface (any(v) == nil, reflect.ValueOf(v),
// a type switch). The rule follows v from the unit's parameter through moves, closures and static calls inside the
// module and reports the first conversion of the (type-parameter typed) value to an interface.

import (
	"go/types"
	"sort"

	"fpcheck/core"

	"golang.org/x/tools/go/ssa"
)

var unitNames = map[string]bool{"Pure": true, "Some": true, "Success": true, "Right": true, "Done": true, "PureSeqT": true, "PureOptionT": true}

func Unit(c *core.Ctx, rule string, floor int) {
	c.Rule(rule, "a unit function (Pure/Some/Success/Right/Done with one parameter of type-parameter type, in the library packages) never converts its argument — followed through moves, captured variables and static calls inside the module — to an interface: a parametric unit cannot tell a nil payload from any other")
	pkgs := map[*types.Package]bool{c.Pkg("fp").Types: true}
	for _, p := range libPkgs(c) {
		pkgs[p.Types] = true
	}
	byObj := map[*types.Func]*ssa.Function{}
	all := srcFuncs(c)
	for _, fn := range all {
		if o, ok := fn.Object().(*types.Func); ok && fn.Parent() == nil {
			byObj[o] = fn
		}
	}
	type visit struct {
		fn  *ssa.Function
		idx int // parameter index, or -1-k for free variable k (cell)
	}
	n := 0
	var units []*ssa.Function
	for _, fn := range all {
		if fn.Parent() != nil || fn.Pkg == nil || !pkgs[fn.Pkg.Pkg] || !unitNames[fn.Name()] || fn.Signature.Recv() != nil {
			continue
		}
		if fn.Signature.Params().Len() != 1 {
			continue
		}
		if _, isTP := fn.Signature.Params().At(0).Type().(*types.TypeParam); !isTP {
			continue
		}
		units = append(units, fn)
	}
	sort.Slice(units, func(i, j int) bool { return fnName(units[i]) < fnName(units[j]) })
	for _, u := range units {
		n++
		seen := map[visit]bool{}
		var bad ssa.Instruction
		var badIn *ssa.Function
		var follow func(fn *ssa.Function, start ssa.Value, startCell ssa.Value, depth int)
		follow = func(fn *ssa.Function, start ssa.Value, startCell ssa.Value, depth int) {
			if bad != nil || depth > 6 || len(fn.Blocks) == 0 {
				return
			}
			vals := map[ssa.Value]bool{}
			cells := map[ssa.Value]bool{}
			if start != nil {
				vals[start] = true
			}
			if startCell != nil {
				cells[startCell] = true
			}
			for changed := true; changed; {
				changed = false
				add := func(m map[ssa.Value]bool, v ssa.Value) {
					if !m[v] {
						m[v] = true
						changed = true
					}
				}
				for _, b := range fn.Blocks {
					for _, ins := range b.Instrs {
						switch x := ins.(type) {
						case *ssa.Store:
							if vals[x.Val] {
								add(cells, x.Addr)
							}
						case *ssa.UnOp:
							if cells[x.X] {
								add(vals, x)
							}
						case *ssa.Phi:
							for _, e := range x.Edges {
								if vals[e] {
									add(vals, x)
								}
							}
						case *ssa.ChangeType:
							if vals[x.X] {
								// in generic SSA the conversion T -> interface is a ChangeType
								if _, isTP := x.X.Type().(*types.TypeParam); isTP && types.IsInterface(x.Type()) {
									if _, stillTP := x.Type().(*types.TypeParam); !stillTP && bad == nil {
										bad, badIn = x, fn
									}
								}
								add(vals, x)
							}
						case *ssa.MakeInterface:
							if vals[x.X] {
								if _, isTP := x.X.Type().(*types.TypeParam); isTP && bad == nil {
									bad, badIn = x, fn
								}
							}
						}
					}
				}
			}
			if bad != nil {
				return
			}
			for _, b := range fn.Blocks {
				for _, ins := range b.Instrs {
					switch x := ins.(type) {
					case *ssa.MakeClosure:
						cl, _ := x.Fn.(*ssa.Function)
						if cl == nil {
							continue
						}
						for k, bv := range x.Bindings {
							if k >= len(cl.FreeVars) {
								continue
							}
							v := visit{cl, -1 - k}
							if (vals[bv] || cells[bv]) && !seen[v] {
								seen[v] = true
								if cells[bv] {
									follow(cl, nil, cl.FreeVars[k], depth+1)
								} else {
									follow(cl, cl.FreeVars[k], nil, depth+1)
								}
							}
						}
					case ssa.CallInstruction:
						cc := x.Common()
						callee := cc.StaticCallee()
						if callee == nil {
							continue
						}
						// generic instantiation wrappers: go to the origin's source function
						target := callee
						if org := callee.Origin(); org != nil {
							target = org
						}
						if len(target.Blocks) == 0 {
							if o, ok := target.Object().(*types.Func); ok {
								if sf := byObj[o.Origin()]; sf != nil {
									target = sf
								}
							}
						}
						if target.Pkg == nil || len(target.Pkg.Pkg.Path()) < len(core.ModPath) || target.Pkg.Pkg.Path()[:len(core.ModPath)] != core.ModPath {
							continue
						}
						off := 0
						if target.Signature.Recv() != nil {
							off = 1
						}
						_ = off
						for k, a := range cc.Args {
							if vals[a] && k < len(target.Params) {
								v := visit{target, k}
								if !seen[v] {
									seen[v] = true
									follow(target, target.Params[k], nil, depth+1)
								}
							}
						}
					}
				}
			}
		}
		follow(u, u.Params[0], nil, 0)
		if bad != nil {
			c.Add(rule, fnName(u), instrPos(bad), core.Violated, fnName(u)+" converts its argument to an interface in "+fnName(badIn)+" — it inspects the payload (nil test / reflection), so unit(v) is not the same constructor for every v: FlatMap(unit(nil), f) ≠ f(nil) and Map(m, f) ≠ FlatMap(m, unit∘f) when f returns nil")
		} else {
			c.Add(rule, fnName(u), u.Pos(), core.Discharged, "argument only stored / passed on (visited "+itoa(len(seen)+1)+" functions)")
		}
	}
	c.Floor(rule, "unit functions", n, floor)
}
