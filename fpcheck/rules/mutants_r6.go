package rules

// Mutants for the rules added after round 6 of the seeded changes.

func init() {
	chainOld := "func (r MonadChain1[H, HT, A, R]) ApTry(a fp.Try[A]) fp.Try[R] {\n	return Ap(r.fn, a)\n}\n\nfunc (r MonadChain1[H, HT, A, R]) Ap(a A) fp.Try[R] {\n	return r.ApTry(Success(a))"
	chainNew := "func (r MonadChain1[H, HT, A, R]) ApTry(a fp.Try[A]) fp.Try[R] {\n	return FlatMap(a, r.Ap)\n}\n\nfunc (r MonadChain1[H, HT, A, R]) Ap(a A) fp.Try[R] {\n	return Flap(r.fn)(a)"
	rcwOld := "	return func(s S) (Try[A], S) {\n		at, ns := r.Run(s)\n\n		if at.IsSuccess() {\n			return at, ns\n		}\n\n		if isDefinedAt(at.Failed().Get()) {\n			return then(at.Failed().Get())(ns)\n		}\n\n		return at, ns\n	}\n}"
	rcwBad := "	return r.RecoverWith(func(err error) StateT[S, A] {\n		if isDefinedAt(err) {\n			return then(err)\n		}\n		return r\n	})\n}"
	rcwGood := "	return r.RecoverWith(func(err error) StateT[S, A] {\n		if isDefinedAt(err) {\n			return then(err)\n		}\n		return func(s S) (Try[A], S) {\n			return Failure[A](err), s\n		}\n	})\n}"
	map2Old := "	return FlatMap(a, func(v1 A) fp.Future[U] {\n		return Map(b, func(v2 B) U {\n			return f(v1, v2)\n		}, ctx...)\n	}, ctx...)\n}"
	map2Bad := "	np := promise.New[U]()\n	a.OnComplete(func(t1 fp.Try[A]) {\n		b.OnComplete(func(t2 fp.Try[B]) {\n			np.Complete(try.Map2(t1, t2, f))\n		}, ctx...)\n	}, ctx...)\n	return np.Future()\n}"
	map2Good := "	np := promise.New[U]()\n	a.OnComplete(func(t1 fp.Try[A]) {\n		if t1.IsFailure() {\n			np.Failure(t1.Failed().Get())\n			return\n		}\n		b.OnComplete(func(t2 fp.Try[B]) {\n			np.Complete(try.Map2(t1, t2, f))\n		}, ctx...)\n	}, ctx...)\n	return np.Future()\n}"
	aptryOld := "func ApTry[S, A, B any](st fp.StateT[S, fp.Func1[A, B]], a fp.Try[A]) fp.StateT[S, B] {\n	return func(s S) (fp.Try[B], S) {"
	aptryBad := "func ApTry[S, A, B any](st fp.StateT[S, fp.Func1[A, B]], a fp.Try[A]) fp.StateT[S, B] {\n	if a.IsFailure() {\n		return FromTry[S](try.Failure[B](a.Failed().Get()))\n	}\n	return func(s S) (fp.Try[B], S) {"
	addMutants(
		Mutant{"C01", "monadchain1-aptry-argument-first", "try/try_op.go", chainOld, chainNew, "R-EFFORDER/try.MonadChain1.ApTry", "the argument is consulted before the accumulated function"},
		Mutant{"C02", "monadchain1-aptry-argument-first", "try/try_op.go", chainOld, chainNew, "R-EFFORDER/try.MonadChain1.ApTry", "the argument is consulted before the accumulated function"},
		Mutant{"C02", "statet-recovercasewith-reruns-receiver", "state.go", rcwOld, rcwBad, "R-RUNONCE/fp.StateT.RecoverCaseWith", "an unhandled failure runs the receiver a second time"},
		Mutant{"C17", "statet-recovercasewith-reruns-receiver", "state.go", rcwOld, rcwBad, "R-RUNONCE/fp.StateT.RecoverCaseWith", "an unhandled failure runs the receiver a second time"},
		Mutant{"C03", "array-count-follows-resized", "immutable/map.go", "	if node == nil {\n		other.count++\n	}\n	other.nodes[idx] = newNode", "	if *resized {\n		other.count++\n	}\n	other.nodes[idx] = newNode", "R-SLOTCOUNT/immutable.mapHashArrayNode.set", "the slot counter follows the key-added flag"},
		Mutant{"C06", "map2-subscribes-second-unconditionally", "future/future_op.go", map2Old, map2Bad, "R-FUTSTOP/future.Map2", "a failed first operand still waits for the second"},
		Mutant{"C09", "hash-seq-nil-special-cased", "hash/hash_op.go", "	return New(eq.Seq[T](hashT), func(a fp.Seq[T]) uint32 {\n		return seq.Fold(a, 0, func(h uint32, t T) uint32 {", "	return New(eq.Seq[T](hashT), func(a fp.Seq[T]) uint32 {\n		if a == nil {\n			return 0\n		}\n		return seq.Fold(a, offset32, func(h uint32, t T) uint32 {", "R-HASHDET/hash.Seq", "nil and empty are Eqv-equal but hash differently"},
		Mutant{"C10", "ord-slice-identity-shortcut", "ord/ord_op.go", "func Slice[T any](ord fp.Ord[T]) fp.Ord[[]T] {\n	return ContraMap(Seq(ord), as.Seq[T])\n}", "func Slice[T any](ord fp.Ord[T]) fp.Ord[[]T] {\n	seqOrd := ContraMap(Seq(ord), as.Seq[T])\n	return FromCompare(func(a, b []T) int {\n		if len(a) > 0 && len(b) > 0 && &a[0] == &b[0] {\n			return 0\n		}\n		return seqOrd.Compare(a, b)\n	})\n}", "R-SIZE/ord.Slice", "windows of one array with different lengths compare equal"},
		Mutant{"C16", "map2-left-result-in-shared-cell", "lazy/lazy.go", "	return a.FlatMap(func(v1 T) Eval[T] {\n		return b.Map(func(v2 T) T {\n			return f(v1, v2)\n		})\n	})\n}", "	var v1 T\n	return a.FlatMap(func(v T) Eval[T] {\n		v1 = v\n		return b\n	}).Map(func(v2 T) T {\n		return f(v1, v2)\n	})\n}", "R-NOSHAREDCELL/lazy.Map2", "the left result lives in a cell shared by all evaluations"},
		Mutant{"C17", "statet-aptry-skips-step-on-failed-argument", "statet/statet_op.go", aptryOld, aptryBad, "R-EFFORDER/statet.ApTry", "a failed argument is reported without running the earlier step"},
		Mutant{"C20", "concat-raw-hasnext-on-queued-iterator", "iterator.go", "		for i, itr := range remainItr {\n			if itr.HasNext() {", "		for i, itr := range remainItr {\n			if itr.hasNext() {", "R-RAWFIELD/fp.Iterator.Concat", "a queued zero-value iterator is called through its nil closure"},
	)
	addSilent(
		Mutant{"C17", "statet-recovercasewith-delegates-without-rerun", "state.go", rcwOld, rcwGood, "", "delegation whose fallback rebuilds the failure instead of re-running the receiver"},
		Mutant{"C02", "statet-recovercasewith-delegates-without-rerun", "state.go", rcwOld, rcwGood, "", "delegation whose fallback rebuilds the failure instead of re-running the receiver"},
		Mutant{"C03", "array-count-nil-verdict-in-variable", "immutable/map.go", "	if node == nil {\n		other.count++\n	}\n	other.nodes[idx] = newNode", "	wasEmpty := node == nil\n	if wasEmpty {\n		other.count++\n	}\n	other.nodes[idx] = newNode", "", "the nil verdict goes through a variable"},
		Mutant{"C06", "map2-direct-but-short-circuits", "future/future_op.go", map2Old, map2Good, "", "direct subscription form that still stops at a failed first operand"},
		Mutant{"C09", "hash-seq-empty-fast-path", "hash/hash_op.go", "	return New(eq.Seq[T](hashT), func(a fp.Seq[T]) uint32 {\n		return seq.Fold(a, 0, func(h uint32, t T) uint32 {", "	return New(eq.Seq[T](hashT), func(a fp.Seq[T]) uint32 {\n		if len(a) == 0 {\n			return 0\n		}\n		return seq.Fold(a, 0, func(h uint32, t T) uint32 {", "", "nil and empty both take the fast path"},
		Mutant{"C10", "ord-slice-identity-shortcut-with-length", "ord/ord_op.go", "func Slice[T any](ord fp.Ord[T]) fp.Ord[[]T] {\n	return ContraMap(Seq(ord), as.Seq[T])\n}", "func Slice[T any](ord fp.Ord[T]) fp.Ord[[]T] {\n	seqOrd := ContraMap(Seq(ord), as.Seq[T])\n	return FromCompare(func(a, b []T) int {\n		if len(a) == len(b) && len(a) > 0 && &a[0] == &b[0] {\n			return 0\n		}\n		return seqOrd.Compare(a, b)\n	})\n}", "", "identity shortcut that also requires equal lengths"},
		Mutant{"C16", "map2-left-result-in-local-of-the-closure", "lazy/lazy.go", "	return a.FlatMap(func(v1 T) Eval[T] {\n		return b.Map(func(v2 T) T {\n			return f(v1, v2)\n		})\n	})\n}", "	return a.FlatMap(func(v T) Eval[T] {\n		left := v\n		return b.Map(func(v2 T) T {\n			return f(left, v2)\n		})\n	})\n}", "", "the cell is a local of the continuation, fresh per evaluation"},
		Mutant{"C20", "concat-raw-hasnext-under-nil-test", "iterator.go", "		for i, itr := range remainItr {\n			if itr.HasNext() {", "		for i, itr := range remainItr {\n			if itr.hasNext != nil && itr.hasNext() {", "", "explicit nil test of the field"},
	)
}
