package rules

func init() {
	MutantExtra["C09/hash-ptr-identity"] = [2]string{"import (\n\t\"hash/fnv\"", "import (\n\t\"hash/fnv\"\n\t\"unsafe\""}
	addMutants(
		// ---------------- C01
		Mutant{"C01", "option-map-via-ap", "option/option_monad.go", `func Map[A any, R any](m fp.Option[A], f func(A) R) fp.Option[R] {
	return FlatMap(m, fp.Compose2(f, Pure[R]))
}`, `func Map[A any, R any](m fp.Option[A], f func(A) R) fp.Option[R] {
	return Ap(Pure(fp.Func1[A, R](f)), m)
}`, "cycle:option.Ap+option.Map", "Map redefined through Ap, which is defined through Map"},
		Mutant{"C01", "try-map-circular-again", "try/try_op.go", `	return FlatMap(opt, func(v T) fp.Try[U] {
		return Success(f(v))
	})`, `	return Ap(Success(as.Func1(f)), opt)`, "cycle:try.Ap+try.Map", "the original defect"},
		Mutant{"C01", "map2-drops-second", "option/option_monad.go", `	return FlatMap(first, func(a A) fp.Option[R] {
		return Map(second, func(b B) R {
			return fab(a, b)
		})
	})
}

func Zip[`, `	return FlatMap(first, func(a A) fp.Option[R] {
		return fp.None[R]()
	})
}

func Zip[`, "option.Map2#second", "second operand and the function ignored (a constant None inhabits every result type)"},
		// ---------------- C03
		Mutant{"C03", "map-get-no-nil-guard", "map.go", `func (r Map[K, V]) Get(k K) Option[V] {
	if r.Base == nil {
		return None[V]()
	}
	return r.Base.Get(k)`, `func (r Map[K, V]) Get(k K) Option[V] {
	return r.Base.Get(k)`, "fp.Map.Get", "zero Map dereferences a nil base"},
		Mutant{"C03", "map-concat-drops-update", "map.go", `		ret = ret.Updated(next.I1, next.I2)`, `		ret.Updated(next.I1, next.I2)`, "fp.Map.Concat", "result of the persistent update discarded"},
		Mutant{"C03", "iterator-next-misses-collision-node", "immutable/map.go", `		case *mapHashCollisionNode[K, V]:
			entry := &node.entries[elem.index]
			key, value = entry.key, entry.value
		}`, `		}`, "immutable.MapIterator", "leaf switch no longer covers collision nodes"},
		Mutant{"C03", "set-diff-nil-getempty", "set.go", `func (r Set[V]) Diff(other Set[V]) Set[V] {
	ret := Set[V]{getEmpty: r.getEmpty}`, `func (r Set[V]) Diff(other Set[V]) Set[V] {
	ret := Set[V]{getEmpty: r.getEmpty, set: r.getEmpty()}`, "fp.Set.Diff", "the original defect: getEmpty called on the zero Set"},
		// ---------------- C05
		Mutant{"C05", "dispatch-append-in-place", "future.go", `		ns := make([]onCompleteFunc[T], len(status)+1)
		copy(ns, status)
		ns[len(status)] = cb
		if r.status.CompareAndSwap(ap, ns) {`, `		if r.status.CompareAndSwap(ap, append(status, cb)) {`, "fp.Promise.dispatchOrAddCallback", "the original defect: append on the shared listener slice"},
		Mutant{"C05", "complete-no-retry", "future.go", `	case []onCompleteFunc[T]:
		if r.status.CompareAndSwap(ap, v) {
			return true, status
		}
		return r.tryCompleteAndGetListeners(v)`, `	case []onCompleteFunc[T]:
		if r.status.CompareAndSwap(ap, v) {
			return true, status
		}
		return false, nil`, "fp.Promise.tryCompleteAndGetListeners/case:list/cas#1", "a completion that loses the race against a registration is dropped"},
		Mutant{"C05", "complete-loses-listeners", "future.go", `		if r.status.CompareAndSwap(ap, v) {
			return true, status
		}`, `		if r.status.CompareAndSwap(ap, v) {
			_ = status
			return true, nil
		}`, "returns-list", "captured listeners not handed back"},
		Mutant{"C05", "deliver-early-exit", "future.go", `	for _, cf := range cbs {
		cf(result)
	}`, `	for _, cf := range cbs {
		cf(result)
		if !ret {
			break
		}
	}`, "fp.Promise.Complete/listeners", "delivery loop can stop early"},
		Mutant{"C05", "register-on-completed-ignored", "future.go", `	case Try[T]:
		cb(status)
	}`, `	case Try[T]:
	}`, "fp.Promise.dispatchOrAddCallback/case:final", "registration after completion never runs the call-back"},
		Mutant{"C05", "iscompleted-no-nil-guard", "future.go", `func (r Promise[T]) IsCompleted() bool {
	if r.status == nil {
		return false
	}
`, `func (r Promise[T]) IsCompleted() bool {
`, "fp.Promise.IsCompleted", "zero Promise crashes"},
		// ---------------- C09
		Mutant{"C09", "eq-hcons-one-sided", "eq/eq_op.go", `		return heq.Eqv(hlist.Head(a), hlist.Head(b)) && teq.Eqv(hlist.Tail(a), hlist.Tail(b))`, `		return heq.Eqv(hlist.Head(a), hlist.Head(a)) && teq.Eqv(hlist.Tail(a), hlist.Tail(b))`, "eq.HCons", "head compared with itself"},
		Mutant{"C09", "hash-seq-on-eq-given", "hash/hash_op.go", `	return New(eq.Seq[T](hashT), func(a fp.Seq[T]) uint32 {`, `	return New(eq.New(func(a, b fp.Seq[T]) bool { return a.Size() == b.Size() }), func(a fp.Seq[T]) uint32 {`, "hash.Seq", "hash consults the element instance although equality ignores the elements"},
		Mutant{"C09", "hash-ptr-identity", "hash/hash_op.go", `		if a == nil {
			return 0
		}

		return hashT.Get().Hash(*a)`, `		if a == nil {
			return 0
		}

		return hashUint64(uint64(uintptr(unsafe.Pointer(a))))`, "hash.Ptr", "hash of the pointer identity"},
		Mutant{"C09", "eq-contramap-drops-instance", "eq/eq_op.go", `func ContraMap[T, U any](instance fp.Eq[T], fn func(U) T) fp.Eq[U] {
	return New(func(a, b U) bool {
		return instance.Eqv(fn(a), fn(b))
	})`, `func ContraMap[T, U any](instance fp.Eq[T], fn func(U) T) fp.Eq[U] {
	return New(func(a, b U) bool {
		return true
	})`, "eq.ContraMap#instance", "instance ignored"},
		// ---------------- C10
		Mutant{"C10", "hcons-no-mirror", "ord/ord_op.go", `		if heq.Less(b.Head(), a.Head()) {
			return false
		}

`, ``, "ord.HCons", "mirrored test removed"},
		Mutant{"C10", "seq-no-mirror", "ord/ord_op.go", `			if ord.Less(b[i], a[i]) {
				return false
			}
`, ``, "ord.Seq", "the original defect"},
		Mutant{"C10", "sorter-less-swapped", "seq/seq_op.go", `func (p *seqSorter[T]) Less(i, j int) bool { return p.ord.Less(p.seq[i], p.seq[j]) }`, `func (p *seqSorter[T]) Less(i, j int) bool { return p.ord.Less(p.seq[j], p.seq[i]) }`, "seq.seqSorter.Less", "sorts descending"},
		Mutant{"C10", "tuple3-one-sided", "ord/tuple_gen.go", `func Tuple3[A1, A2, A3 any](ins1 fp.Ord[A1], ins2 fp.Ord[A2], ins3 fp.Ord[A3]) fp.Ord[fp.Tuple3[A1, A2, A3]] {

	pt := Tuple2(ins2, ins3)

	return New(eq.New(func(a, b fp.Tuple3[A1, A2, A3]) bool {
		return ins1.Eqv(a.Head(), b.Head()) && pt.Eqv(as.Tuple2(a.Tail()), as.Tuple2(b.Tail()))
	}), fp.LessFunc[fp.Tuple3[A1, A2, A3]](func(t1, t2 fp.Tuple3[A1, A2, A3]) bool {
		if ins1.Less(t1.I1, t2.I1) {
			return true
		}
		if ins1.Less(t2.I1, t1.I1) {
			return false
		}`, `func Tuple3[A1, A2, A3 any](ins1 fp.Ord[A1], ins2 fp.Ord[A2], ins3 fp.Ord[A3]) fp.Ord[fp.Tuple3[A1, A2, A3]] {

	pt := Tuple2(ins2, ins3)

	return New(eq.New(func(a, b fp.Tuple3[A1, A2, A3]) bool {
		return ins1.Eqv(a.Head(), b.Head()) && pt.Eqv(as.Tuple2(a.Tail()), as.Tuple2(b.Tail()))
	}), fp.LessFunc[fp.Tuple3[A1, A2, A3]](func(t1, t2 fp.Tuple3[A1, A2, A3]) bool {
		if ins1.Less(t1.I1, t2.I1) {
			return true
		}`, "ord.Tuple3", "arity 3 only: mirrored test missing"},
		// ---------------- C11
		Mutant{"C11", "product-identity-zero", "monoid/monoid_op.go", `		func() T {
			return 1
		},
		func(a, b T) T {
			return a * b
		},`, `		func() T {
			return 0
		},
		func(a, b T) T {
			return a * b
		},`, "monoid.Product", "identity 0 with *"},
		Mutant{"C11", "all-is-or", "semigroup/semigroup.go", `var All fp.Semigroup[bool] = fp.SemigroupFunc[bool](func(a, b bool) bool {
	return a && b
})`, `var All fp.Semigroup[bool] = fp.SemigroupFunc[bool](func(a, b bool) bool {
	return a || b
})`, "semigroup.All", "the original defect"},
		Mutant{"C11", "seq-reduce-swapped", "seq/seq_op.go", `		reduce = m.Combine(reduce, r[i])`, `		reduce = m.Combine(r[i], reduce)`, "seq.Reduce", "operands swapped"},
		Mutant{"C11", "iterator-reduce-dropped", "iterator/iterator_op.go", `		ret = m.Combine(ret, v)`, `		m.Combine(ret, v)`, "iterator.Reduce", "the original defect"},
		Mutant{"C11", "dual-not-flipped", "semigroup/semigroup.go", `		return fp.Dual[T]{sg.Combine(b.GetDual, a.GetDual)}`, `		return fp.Dual[T]{sg.Combine(a.GetDual, b.GetDual)}`, "semigroup.Dual", "Dual no longer flips"},
		// ---------------- C12
		Mutant{"C12", "list-fold-no-advance", "list/list_op.go", `		sum = f(sum, cursor.Head())
		cursor = cursor.Tail()`, `		sum = f(sum, cursor.Head())`, "list.Fold", "cursor never advanced"},
		Mutant{"C12", "iterator-map-eager", "iterator/iterator_op.go", `func Map[T, U any](opt fp.Iterator[T], fn func(v T) U) fp.Iterator[U] {
	return fp.MakeIterator(`, `func Map[T, U any](opt fp.Iterator[T], fn func(v T) U) fp.Iterator[U] {
	opt = fp.IteratorOfSeq(opt.ToSeq())
	return fp.MakeIterator(`, "iterator.Map", "constructor drains its source"},
		Mutant{"C12", "list-map-eager-tail", "list/list_op.go", `func Map[T, U any](opt fp.List[T], fn func(v T) U) fp.List[U] {
	return fp.MakeList(
		func() fp.Option[U] {
			return option.Map(Head(opt), fn)
		},
		func() fp.List[U] {
			return Map(opt.Tail(), fn)
		},
	)`, `func Map[T, U any](opt fp.List[T], fn func(v T) U) fp.List[U] {
	if opt.IsEmpty() {
		return Empty[U]()
	}
	tail := Map(opt.Tail(), fn)
	return fp.MakeList(
		func() fp.Option[U] {
			return option.Map(Head(opt), fn)
		},
		func() fp.List[U] {
			return tail
		},
	)`, "list.Map", "eager recursion over the whole list"},
		Mutant{"C12", "filter-readahead", "iterator.go", `				ret := fv.Get()
				fv = None[T]()
				first = true
				return ret`, `				ret := fv.Get()
				fv = r.Find(p)
				return ret`, "fp.Iterator.Filter", "the original defect"},
		// ---------------- C13
		Mutant{"C13", "gombok-unsorted-methods", "cmd/gombok/gombok.go", `			sorted := seq.Sort(rhs.Method.Iterator().ToSeq(), ord.ContraMap(ord.Given[string](), fp.Tuple2[string, *types.Func].Head))`, `			sorted := fp.Seq[fp.Tuple2[string, *types.Func]](rhs.Method.Iterator().ToSeq())`, "cmd/gombok.processDeref", "methods emitted in map order"},
		Mutant{"C13", "gombok-unsorted-keytags", "cmd/gombok/gombok.go", `	seq.Sort(klist, ord.Given[string]()).Foreach(func(name string) {`, `	fp.Seq[string](klist).Foreach(func(name string) {`, "cmd/gombok.genTaggedStruct", "key tags emitted in set order"},
		// ---------------- C14
		Mutant{"C14", "curried-fabricates", "curried/curried_gen.go", `func Revert3[A1, A2, A3, R any](f fp.Func1[A1, fp.Func1[A2, fp.Func1[A3, R]]]) func(A1, A2, A3) R {
	return func(a1 A1, a2 A2, a3 A3) R {
		return f(a1)(a2)(a3)
	}`, `func Revert3[A1, A2, A3, R any](f fp.Func1[A1, fp.Func1[A2, fp.Func1[A3, R]]]) func(A1, A2, A3) R {
	return func(a1 A1, a2 A2, a3 A3) R {
		var z A2
		return f(a1)(z)(a3)
	}`, "curried.Revert3", "position 2 replaced by a fabricated zero value"},
		Mutant{"C14", "until-shortened", "curried/curried.go", `Until: genfp.MaxFunc,`, `Until: genfp.MaxFunc - 1,`, "curried/", "directive no longer prescribes the committed top arity"},
		// ---------------- C15
		Mutant{"C15", "option-unmarshal-store-before-check", "option.go", `			err := json.Unmarshal(b, &t)
			if err == nil {
				*r = Some(t)
			}
			return err`, `			err := json.Unmarshal(b, &t)
			*r = Some(t)
			return err`, "fp.Option.UnmarshalJSON", "target overwritten on error"},
		Mutant{"C15", "option-unmarshal-no-nil-check", "option.go", `func (r *Option[T]) UnmarshalJSON(b []byte) error {
	if r == nil {
		return Error(http.StatusBadRequest, "target ptr is nil")
	}`, `func (r *Option[T]) UnmarshalJSON(b []byte) error {
	if len(b) == 0 && r == nil {
		return Error(http.StatusBadRequest, "target ptr is nil")
	}`, "fp.Option.UnmarshalJSON", "nil receiver dereferenced unless the input is empty"},
		Mutant{"C15", "option-marshal-self", "option.go", `	if r.IsDefined() {
		return json.Marshal(r.Get())
	}

	return []byte("null"), nil`, `	if r.IsDefined() {
		return json.Marshal(r)
	}

	return []byte("null"), nil`, "fp.Option.MarshalJSON", "marshals itself"},
		// ---------------- C16
		Mutant{"C16", "call-not-memoised", "lazy/lazy.go", `func Call[T any](f func() T) Eval[T] {
	mf := Memoize(f)`, `func Call[T any](f func() T) Eval[T] {
	mf := f`, "lazy.Call#f", "thunk not memoised"},
		Mutant{"C16", "memoize-flag-instead-of-once", "lazy/lazy.go", `	return func() T {
		once.Do(func() {
			ret = f()
		})
		return ret
	}`, `	done := false
	return func() T {
		if !done {
			ret = f()
			done = true
		}
		once.Do(func() {})
		return ret
	}`, "lazy.Memoize", "computation outside once.Do"},
		Mutant{"C16", "tailcall-eager", "lazy/lazy.go", `func TailCall[T any](f func() Eval[T]) Eval[T] {
	mf := Memoize(f)`, `func TailCall[T any](f func() Eval[T]) Eval[T] {
	next := f()
	mf := Memoize(func() Eval[T] { return next })`, "lazy.TailCall", "continuation evaluated while building the Eval"},
		Mutant{"C16", "run-recursive", "lazy/lazy.go", `		if continuation != nil {
			t = continuation()
			continue
		}`, `		if continuation != nil {
			return Run(continuation())
		}`, "lazy.Run", "trampoline recurses"},
		Mutant{"C16", "foldright-direct-recursion", "seq/seq_op.go", `	v := lazy.TailCall(func() lazy.Eval[B] {
		return FoldRight(tail, zero, f)
	})

	return f(head.Get(), v)`, `	v := FoldRight(tail, zero, f)

	return f(head.Get(), v)`, "seq.FoldRight", "self call not deferred"},
		// ---------------- C17
		Mutant{"C17", "recover-returns-stale-state", "state.go", `		if at.IsFailure() {
			ra := f(at.Failed().Get())
			return Success(ra), ns
		}
		return at, ns`, `		if at.IsFailure() {
			ra := f(at.Failed().Get())
			return Success(ra), s
		}
		return at, ns`, "fp.StateT.Recover", "state before the failed step returned"},
		Mutant{"C17", "recoverwith-fallback-from-old-state", "state.go", `			rat, nns := f(at.Failed().Get()).Run(ns)`, `			rat, nns := f(at.Failed().Get()).Run(s)`, "fp.StateT.RecoverWith", "fallback runs from the pre-failure state"},
		Mutant{"C17", "put-shadowed", "statet/statet_op.go", `	return func(S) (fp.Try[fp.Unit], S) {
		return unit.Success, s
	}`, `	return func(s S) (fp.Try[fp.Unit], S) {
		return unit.Success, s
	}`, "statet.Put#s", "the original defect"},
		Mutant{"C17", "flatmap-failure-returns-old-state", "statet/statet_op.go", `		return try.Failure[B](ret.Failed().Get()), ns`, `		return try.Failure[B](ret.Failed().Get()), s`, "statet.FlatMap", "state at the point of failure lost"},
		// ---------------- C18
		Mutant{"C18", "slice-returns-input", "clone/clone.go", `	return New(func(s []T) []T {
		return seq.Map(s, tclone.Clone)
	})`, `	return New(func(s []T) []T {
		if len(s) == 0 {
			return s
		}
		return seq.Map(s, tclone.Clone)
	})`, "clone.Slice", "empty (but possibly capacity-carrying) input returned as is"},
		Mutant{"C18", "gomap-values-not-cloned", "clone/clone.go", `			ret[clonek.Clone(k)] = clonev.Clone(v)`, `			ret[clonek.Clone(k)] = v`, "clone.GoMap", "map values shared"},
		Mutant{"C18", "ptr-shallow", "clone/clone.go", `		t := tshow.Get().Clone(*pt)
		return &t`, `		var t = *pt
		return &t`, "clone.Ptr", "the original defect"},
		// ---------------- C19
		Mutant{"C19", "load-store-outside-lock", "mutable/copyonwrite.go", `	if m == nil {
		r.lock.Lock()
		defer r.lock.Unlock()

		m = r.value.Load()
		if m == nil {
			m = fp.UnsafeGoMap[K, V]{}
			r.value.Store(m)
		}
	}`, `	if m == nil {
		m = fp.UnsafeGoMap[K, V]{}
		r.value.Store(m)
	}`, "mutable.CopyOnWriteMap.load/Store", "initial snapshot published without the lock"},
		Mutant{"C19", "updated-mutates-snapshot", "mutable/copyonwrite.go", `func (r *CopyOnWriteMap[K, V]) Updated(k K, v V) fp.MapBase[K, V] {

	r.copyOnWrite(func(om fp.UnsafeGoMap[K, V]) fp.UnsafeGoMap[K, V] {
		nm := fp.UnsafeGoMap[K, V]{}

		for k, v := range om {
			nm[k] = v

		}
		nm[k] = v
		return nm
	})`, `func (r *CopyOnWriteMap[K, V]) Updated(k K, v V) fp.MapBase[K, V] {

	r.copyOnWrite(func(om fp.UnsafeGoMap[K, V]) fp.UnsafeGoMap[K, V] {
		om[k] = v
		return om
	})`, "mutable.CopyOnWriteMap.Updated", "published snapshot modified in place"},
		Mutant{"C19", "size-two-loads", "mutable/copyonwrite.go", `func (r *CopyOnWriteMap[K, V]) Size() int {
	return r.load().Size()
}`, `func (r *CopyOnWriteMap[K, V]) Size() int {
	if r.load().Size() == 0 {
		return 0
	}
	return r.load().Size()
}`, "mutable.CopyOnWriteMap.Size", "two snapshot loads in one read"},
		Mutant{"C19", "computeif-check-then-act", "mutable/copyonwrite.go", `		if cur := om.Get(k).FilterNot(pred); cur.IsDefined() {
			stored = cur.Get()
			return om
		}
`, ``, "mutable.CopyOnWriteMap.ComputeIf/check-then-act", "the original defect"},
		// ---------------- C20
		Mutant{"C20", "count-direct-hasnext", "iterator.go", `func (r Iterator[T]) Count() int {
	ret := 0
	for r.HasNext() {`, `func (r Iterator[T]) Count() int {
	ret := 0
	for r.hasNext() {`, "fp.Iterator.Count", "zero iterator crashes"},
		Mutant{"C20", "iteratorofseq-fabricates", "seq.go", `			if idx < len(r) {
				ret := r[idx]
				idx++
				return ret
			}
			panic("next on empty iterator")`, `			if idx < len(r) {
				ret := r[idx]
				idx++
				return ret
			}
			var zero T
			return zero`, "fp.IteratorOfSeq", "exhausted iterator fabricates a zero value"},
		Mutant{"C20", "duplicate-early-unlock", "iterator/iterator_op.go", `		func() bool {
			lock.Lock()
			defer lock.Unlock()

			if leftAhead || len(queue) == 0 {
				return r.HasNext()
			}`, `		func() bool {
			lock.Lock()

			if leftAhead || len(queue) == 0 {
				lock.Unlock()
				return r.HasNext()
			}`, "iterator.Duplicate", "source touched after the lock was released / lock leaked on the other path"},
	)
}
