#!/usr/bin/env python3
"""Regenerates the rule inventory between the RULETABLE markers of DESIGN.md from /verif/evidence/C*.json
(the rule statements and instance counts are what the checker itself reported on its last run)."""
import json, glob, re
rows = ['| property | rule | obligations on the current tree | statement (as printed into the evidence) |', '|---|---|---|---|']
for f in sorted(glob.glob('/verif/evidence/C[0-9][0-9].json')):
    e = json.load(open(f))
    cov = e.get('coverage', {})
    rules = cov.get('rules', {})
    per = cov.get('per_rule', {})
    pid = e.get('property') or f[-8:-5]
    for r in sorted(rules):
        cnt = per.get(r, {})
        n = sum(v for v in cnt.values() if isinstance(v, int)) if isinstance(cnt, dict) else ''
        rows.append('| %s | %s | %s | %s |' % (pid, r, n, rules[r].replace('|', '\\|')))
s = open('/verif/DESIGN.md').read()
s = re.sub(r'<!-- RULETABLE:BEGIN -->.*<!-- RULETABLE:END -->', lambda m: '<!-- RULETABLE:BEGIN -->\n' + '\n'.join(rows) + '\n<!-- RULETABLE:END -->', s, flags=re.S)
open('/verif/DESIGN.md', 'w').write(s)
print(len(rows) - 2, 'rules')
