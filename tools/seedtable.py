#!/usr/bin/env python3
"""Regenerates the table between the SEEDTABLE markers of DESIGN.md from /verif/seeded/*/meta.json and notes.json."""
import json, glob, os, re
rows = []
notes = {}
if os.path.exists('/verif/seeded/notes.json'):
    notes = json.load(open('/verif/seeded/notes.json'))
for d in sorted(glob.glob('/verif/seeded/*/')):
    mp = os.path.join(d, 'meta.json')
    if not os.path.exists(mp):
        continue
    m = json.load(open(mp))
    sid = m['seed']
    conf = all(m.get(k) for k in ('builds', 'suite_passes_with_change', 'demo_fails_with_change', 'demo_passes_without_change'))
    fired = []
    for pid, f in sorted(m.get('checks_fired', {}).items()):
        rules = sorted({v.split('violation: ')[1].split('/')[0] for v in f.get('violations', []) if 'violation: ' in v})
        fired.append(pid + (' (' + ', '.join(rules) + ')' if rules else ' (exit %d)' % f['exit']))
    n = notes.get(sid, {})
    rows.append('| %s | %s | %s | %s | %s | %s |' % (sid, m['property'], n.get('what', ''), 'yes' if conf else 'NO', 'caught' if m.get('caught_by_own_property') else ('caught by another check' if any(f['exit'] == 1 for f in m.get('checks_fired', {}).values()) else '**missed**'), '; '.join(fired) or n.get('why_missed', '')))
table = ['| seed | property | change | confirmed | verdict | checks that fire (rules) / why missed |', '|---|---|---|---|---|---|'] + rows
s = open('/verif/DESIGN.md').read()
s = re.sub(r'<!-- SEEDTABLE:BEGIN -->.*<!-- SEEDTABLE:END -->', '<!-- SEEDTABLE:BEGIN -->\n' + '\n'.join(table) + '\n<!-- SEEDTABLE:END -->', s, flags=re.S)
open('/verif/DESIGN.md', 'w').write(s)
print(len(rows), 'rows')
