#!/usr/bin/env python3
"""Confirm a sub-agent's seeded change and run every check against it.

usage: seedcheck.py <seed-id> <property> <dir-with-SEEDED>    e.g. seedcheck.py C05a C05 /tmp/wt/C05

 1. copies patch.diff, demo_test.go, NOTES.md to /verif/seeded/<seed-id>/
 2. in a fresh scratch worktree of /repo HEAD: applies the patch, builds, runs the full test suite (must pass),
    runs the demonstration (must fail), reverts the patch, runs the demonstration again (must pass)
 3. with the patch applied runs every registered check (-repo <scratch>) and records which rules fire
 4. writes /verif/seeded/<seed-id>/meta.json and removes the scratch worktree
"""
import json, os, shutil, subprocess, sys, time

ENV = dict(os.environ, GOFLAGS="-mod=mod -trimpath", GOPROXY="off", GOSUMDB="off", GOTOOLCHAIN="local")
ENV.pop("GOWORK", None)

def run(cmd, cwd=None, timeout=1200):
    t0 = time.time()
    try:
        p = subprocess.run(cmd, cwd=cwd, env=ENV, shell=isinstance(cmd, str), capture_output=True, text=True, timeout=timeout)
        return p.returncode, p.stdout + p.stderr, time.time() - t0
    except subprocess.TimeoutExpired as e:
        return 124, "TIMEOUT " + str(e), time.time() - t0

def recheck(sid, prop):
    """Re-run every check against an already confirmed seed (patch applied in a scratch worktree); updates checks_fired only."""
    out = f"/verif/seeded/{sid}"
    meta = json.load(open(os.path.join(out, "meta.json")))
    scratch = f"/tmp/sc/{sid}"
    os.makedirs("/tmp/sc", exist_ok=True)
    run(["git", "-C", "/repo", "worktree", "remove", "--force", scratch])
    rc, o, _ = run(["git", "-C", "/repo", "worktree", "add", "-q", "--detach", scratch, "HEAD"])
    assert rc == 0, o
    try:
        rc, o, _ = run(["git", "apply", os.path.join(out, "patch.diff")], cwd=scratch)
        assert rc == 0, o
        fired = {}
        for l in open("/verif/properties.jsonl"):
            pid = json.loads(l)["id"]
            if pid in ("C07", "C08"):
                continue
            rc, o, t = run(["/verif/bin/fpcheck", "-prop", pid, "-repo", scratch, "-verif", f"/tmp/sc/{sid}.verif"], timeout=600)
            viol = [l for l in o.splitlines() if l.startswith("violation:")]
            if rc != 0:
                fired[pid] = {"exit": rc, "violations": [v[:400] for v in viol[:8]], "undecided": [l[:300] for l in o.splitlines() if l.startswith("UNDECIDED")][:4]}
        meta["checks_fired"] = fired
        meta["caught_by_own_property"] = prop in fired and fired[prop]["exit"] == 1
        meta["base_commit"] = run(["git", "-C", "/repo", "rev-parse", "--short", "HEAD"])[1].strip()
    finally:
        run(["git", "-C", "/repo", "worktree", "remove", "--force", scratch])
        shutil.rmtree(f"/tmp/sc/{sid}.verif", ignore_errors=True)
    json.dump(meta, open(os.path.join(out, "meta.json"), "w"), indent=1)
    print(sid, "RECHECKED", "caught" if meta.get("caught_by_own_property") else "MISSED", "fired:", sorted(fired))

def main():
    if sys.argv[1] == "--recheck":
        return recheck(sys.argv[2], sys.argv[3])
    sid, prop = sys.argv[1], sys.argv[2]
    src = sys.argv[3] if len(sys.argv) > 3 else None
    out = f"/verif/seeded/{sid}"
    os.makedirs(out, exist_ok=True)
    if src:
        for f in ("patch.diff", "demo_test.go", "NOTES.md"):
            if os.path.exists(os.path.join(src, "SEEDED", f)):
                shutil.copy(os.path.join(src, "SEEDED", f), os.path.join(out, f))
    scratch = f"/tmp/sc/{sid}"
    os.makedirs("/tmp/sc", exist_ok=True)
    run(["git", "-C", "/repo", "worktree", "remove", "--force", scratch])
    rc, o, _ = run(["git", "-C", "/repo", "worktree", "add", "-q", "--detach", scratch, "HEAD"])
    assert rc == 0, o
    meta = {"seed": sid, "property": prop, "base_commit": run(["git", "-C", "/repo", "rev-parse", "--short", "HEAD"])[1].strip()}
    try:
        rc, o, _ = run(["git", "apply", os.path.join(out, "patch.diff")], cwd=scratch)
        meta["patch_applies"] = rc == 0
        assert rc == 0, o
        rc, o, _ = run("go build ./...", cwd=scratch)
        meta["builds"] = rc == 0
        rc, o, t = run("go test -vet=off -count=1 ./... 2>&1 | grep -v 'no test files'", cwd=scratch)
        fails = [l for l in o.splitlines() if l.startswith("FAIL") or l.startswith("---") or "panic:" in l]
        meta["suite_passes_with_change"] = len(fails) == 0
        meta["suite_output_tail"] = o.splitlines()[-3:]
        # checks with the change applied (no demo in the tree)
        fired = {}
        for l in open("/verif/properties.jsonl"):
            pid = json.loads(l)["id"]
            if pid in ("C07", "C08"):
                continue
            rc, o, t = run(["/verif/bin/fpcheck", "-prop", pid, "-repo", scratch, "-verif", f"/tmp/sc/{sid}.verif"], timeout=600)
            viol = [l for l in o.splitlines() if l.startswith("violation:")]
            if rc != 0:
                fired[pid] = {"exit": rc, "violations": [v[:400] for v in viol[:8]], "undecided": [l[:300] for l in o.splitlines() if l.startswith("UNDECIDED")][:4]}
        meta["checks_fired"] = fired
        meta["caught_by_own_property"] = prop in fired and fired[prop]["exit"] == 1
        # demonstration
        os.makedirs(os.path.join(scratch, "seeded_demo"), exist_ok=True)
        shutil.copy(os.path.join(out, "demo_test.go"), os.path.join(scratch, "seeded_demo", "demo_test.go"))
        rc, o, t = run("go test -count=1 -timeout 300s ./seeded_demo/", cwd=scratch, timeout=400)
        meta["demo_fails_with_change"] = rc != 0
        meta["demo_output_with_change"] = [l[:200] for l in o.splitlines() if l.strip()][:12]
        run("git checkout -- . ", cwd=scratch)
        rc, o, t = run("go test -count=1 -timeout 300s ./seeded_demo/", cwd=scratch, timeout=400)
        meta["demo_passes_without_change"] = rc == 0
        meta["ran"] = ["git apply patch.diff", "go build ./...", "go test -vet=off -count=1 ./...", "fpcheck -prop <each> -repo <scratch>", "go test ./seeded_demo/ (with change)", "git checkout -- . ; go test ./seeded_demo/ (without change)"]
    finally:
        run(["git", "-C", "/repo", "worktree", "remove", "--force", scratch])
        shutil.rmtree(f"/tmp/sc/{sid}.verif", ignore_errors=True)
    json.dump(meta, open(os.path.join(out, "meta.json"), "w"), indent=1)
    ok = meta.get("builds") and meta.get("suite_passes_with_change") and meta.get("demo_fails_with_change") and meta.get("demo_passes_without_change")
    print(sid, "CONFIRMED" if ok else "NOT-CONFIRMED", "caught" if meta.get("caught_by_own_property") else "MISSED", "fired:", sorted(meta.get("checks_fired", {})))

if __name__ == "__main__":
    main()
