#!/usr/bin/env python3
"""Run every check against a behaviour-preserving change produced by a sub-agent.

usage: benigncheck.py <id> <patch-file> [--notest]     e.g. benigncheck.py C05-2 /tmp/wb1/C05/SEEDED/benign2.diff

copies the patch to /verif/benign/<id>/patch.diff, applies it in a scratch worktree of /repo HEAD, builds, runs the
existing suite (must pass), runs all registered checks with -repo and records every check that does not exit 0.
A check that fires on such a change is a false alarm to be fixed in the checker (or the change is not benign after all
— then it is moved to /verif/seeded).
"""
import json, os, shutil, subprocess, sys, time
ENV = dict(os.environ, GOFLAGS="-mod=mod -trimpath", GOPROXY="off", GOSUMDB="off", GOTOOLCHAIN="local")
ENV.pop("GOWORK", None)
def run(cmd, cwd=None, timeout=1200):
    try:
        p = subprocess.run(cmd, cwd=cwd, env=ENV, shell=isinstance(cmd, str), capture_output=True, text=True, timeout=timeout)
        return p.returncode, p.stdout + p.stderr
    except subprocess.TimeoutExpired as e:
        return 124, "TIMEOUT " + str(e)
def main():
    bid, patch = sys.argv[1], sys.argv[2]
    notest = "--notest" in sys.argv
    out = f"/verif/benign/{bid}"
    os.makedirs(out, exist_ok=True)
    if os.path.abspath(patch) != os.path.join(out, "patch.diff"):
        shutil.copy(patch, os.path.join(out, "patch.diff"))
    scratch = f"/tmp/bc/{bid}"
    os.makedirs("/tmp/bc", exist_ok=True)
    run(["git", "-C", "/repo", "worktree", "remove", "--force", scratch])
    rc, o = run(["git", "-C", "/repo", "worktree", "add", "-q", "--detach", scratch, "HEAD"])
    assert rc == 0, o
    meta = {"id": bid, "base_commit": run(["git", "-C", "/repo", "rev-parse", "--short", "HEAD"])[1].strip()}
    try:
        rc, o = run(["git", "apply", os.path.join(out, "patch.diff")], cwd=scratch)
        meta["patch_applies"] = rc == 0
        if rc != 0:
            meta["error"] = o[:300]
        else:
            rc, o = run("go build -p 4 ./...", cwd=scratch)
            meta["builds"] = rc == 0
            if not notest:
                rc, o = run("go test -p 4 -vet=off -count=1 ./... 2>&1 | grep -v 'no test files'", cwd=scratch)
                fails = [l for l in o.splitlines() if l.startswith("FAIL") or l.startswith("---") or "panic:" in l]
                meta["suite_passes"] = len(fails) == 0
            fired = {}
            for l in open("/verif/properties.jsonl"):
                pid = json.loads(l)["id"]
                if pid in ("C07", "C08"):
                    continue
                rc, o = run(["/verif/bin/fpcheck", "-prop", pid, "-repo", scratch, "-verif", f"/tmp/bc/{bid}.verif"], timeout=600)
                if rc != 0:
                    fired[pid] = {"exit": rc, "lines": [x[:500] for x in o.splitlines() if x.startswith("violation:") or x.startswith("UNDECIDED")][:6]}
            meta["checks_fired"] = fired
    finally:
        run(["git", "-C", "/repo", "worktree", "remove", "--force", scratch])
        shutil.rmtree(f"/tmp/bc/{bid}.verif", ignore_errors=True)
    json.dump(meta, open(os.path.join(out, "meta.json"), "w"), indent=1)
    print(bid, "applies" if meta.get("patch_applies") else "NO-APPLY", "builds" if meta.get("builds") else "NO-BUILD",
          "" if notest else ("suite-ok" if meta.get("suite_passes") else "SUITE-FAIL"),
          "SILENT" if not meta.get("checks_fired") else "FIRED " + json.dumps({k: v["exit"] for k, v in meta["checks_fired"].items()}))
if __name__ == "__main__":
    main()
